"""Runs one function of a property module in a fresh interpreter.

  python -m vf.child <module> <function> <json-argument> [--no-tf]

Used by checks whose oracle needs another process-wide configuration than the
worker's (e.g. JAX_ENABLE_X64=1, which must be set before jax is imported).
Prints one line `@@CHILD@@<json>` with the function's JSON result.
"""
import importlib
import json
import sys

from vf import env as _env


def call(module, function, arg, env_extra, prefix, no_tf=True, timeout=1800):
  """Runs module.function(arg) in a child interpreter with extra environment
  variables; returns its JSON result.  A result carrying 'clause' is re-raised
  as a Violation `<prefix>:<clause>`; a child that dies is reported as
  `<prefix>:child_process_failed` (an exception inside the tree under test, or
  a harness problem -- the message carries the end of its stderr)."""
  import subprocess
  from vf.core import Violation
  env = _env.worker_env()
  env.update(env_extra)
  cmd = [sys.executable, '-m', 'vf.child', module, function, json.dumps(arg)]
  if no_tf:
    cmd.append('--no-tf')
  p = subprocess.run(cmd, env=env, cwd=_env.VERIF_DIR, capture_output=True, text=True,
                     timeout=timeout)
  line = [l for l in p.stdout.splitlines() if l.startswith('@@CHILD@@')]
  if p.returncode != 0 or not line:
    raise Violation(prefix + ':child_process_failed', p.stderr[-1500:])
  res = json.loads(line[0][9:])
  if isinstance(res, dict) and 'clause' in res:
    raise Violation(prefix + ':' + res['clause'], res.get('message', ''))
  return res


def main():
  mod_name, fn_name, arg = sys.argv[1], sys.argv[2], sys.argv[3]
  _env.activate()
  if '--no-tf' in sys.argv[4:]:
    sys.modules['tensorflow'] = None
  mod = importlib.import_module(mod_name)
  _env.assert_tree()
  out = getattr(mod, fn_name)(json.loads(arg))
  print('@@CHILD@@' + json.dumps(out))


if __name__ == '__main__':
  main()
