"""Runs one function of a property module in a fresh interpreter.

  python -m vf.child <module> <function> <json-argument> [--no-tf]

Used by checks whose oracle needs another process-wide configuration than the
worker's (e.g. JAX_ENABLE_X64=1, which must be set before jax is imported).
Prints one line `@@CHILD@@<json>` with the function's JSON result.
"""
import importlib
import json
import sys

from vf import env as _env


def main():
  mod_name, fn_name, arg = sys.argv[1], sys.argv[2], sys.argv[3]
  _env.activate()
  if '--no-tf' in sys.argv[4:]:
    sys.modules['tensorflow'] = None
  mod = importlib.import_module(mod_name)
  _env.assert_tree()
  out = getattr(mod, fn_name)(json.loads(arg))
  print('@@CHILD@@' + json.dumps(out))


if __name__ == '__main__':
  main()
