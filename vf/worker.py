"""Shard worker: runs the checks of one property module for one shard.

  python -m vf.worker C03 --tier quick --shard 0 --nshards 16 --seed 1 --out f.json
  python -m vf.worker C03 --replay path.json

Exit status: 0 finished (failures, if any, are *reported in the output file*),
2 harness error.  The runner decides about VIOLATION / KNOWN-FINDING lines.
"""
from vf import env as _env
_env.activate()

# pylint: disable=g-import-not-at-top,wrong-import-position
import argparse
import hashlib
import importlib
import json
import os
import re
import sys
import time
import traceback

from vf import core
from vf import findings


def derived_seed(seed, pid, check, shard):
  h = hashlib.sha1(f'{seed}:{pid}:{check}:{shard}'.encode()).hexdigest()
  return int(h[:8], 16)


def load_module(pid):
  """Imports the property module.

  fedjax documents TensorFlow as optional (fedjax.core.util.import_tf falls
  back to a stub that raises on use).  Modules that declare `NEEDS_TF = False`
  run in that supported configuration, which saves ~6 s of import per process.
  """
  path = os.path.join(_env.VERIF_DIR, 'vf', 'props', f'{pid.lower()}.py')
  with open(path) as f:
    src = f.read()
  if re.search(r'^NEEDS_TF\s*=\s*False', src, re.M):
    sys.modules['tensorflow'] = None
  return importlib.import_module(f'vf.props.{pid.lower()}')


class HarnessError(Exception):
  pass


def _repo_frames(tb):
  root = _env.repo_dir() + os.sep
  out = []
  for fr in traceback.extract_tb(tb):
    fn = os.path.abspath(fr.filename)
    if fn.startswith(root) and not fn.endswith('_test.py'):
      out.append((os.path.relpath(fn, root), fr.name))
  return out


def evaluate(check, case):
  """Runs one case.  Returns (status, clause, message, extra_labels).

  status in {'ok', 'fail', 'discard'}.  Exceptions escaping `run` that passed
  through a frame of the tree under test are failures of the property (the
  module's generators only produce inputs the code documents as valid);
  anything else is a harness error.
  """
  try:
    extra = check.run(case)
    return 'ok', None, None, list(extra or [])
  except core.Violation as v:
    return 'fail', v.clause, v.message, []
  except core.Discard as d:
    return 'discard', d.reason or 'discard', None, []
  except (KeyboardInterrupt, SystemExit, MemoryError):
    raise
  except BaseException as e:  # pylint: disable=broad-except
    frames = _repo_frames(e.__traceback__)
    if not frames:
      raise HarnessError(
          f'{check.name}: {type(e).__name__}: {e}\n' +
          ''.join(traceback.format_exception(type(e), e, e.__traceback__)))
    rel, fn = frames[-1]
    clause = f'raised:{type(e).__name__}@{rel}:{fn}'
    return 'fail', clause, f'{type(e).__name__}: {str(e)[:500]}', []


def _labels(check, case, extra):
  try:
    ls = list(check.labels(case))
  except Exception as e:  # pylint: disable=broad-except
    raise HarnessError(f'labels() failed: {e!r}\n{traceback.format_exc()}')
  return ls + list(extra)


class CheckResult:

  def __init__(self, name):
    self.name = name
    self.evaluations = 0
    self.discards = {}
    self.nontrivial = set()
    self.hist = {}
    self.samples = []
    self.failures = {}  # clause -> dict
    self.time_capped = False
    self.skipped_for_time = 0
    self.exhaustive = False
    self.wall_s = 0.0

  def to_json(self):
    return {
        'name': self.name,
        'evaluations': self.evaluations,
        'discards': self.discards,
        'nontrivial': sorted(self.nontrivial),
        'hist': self.hist,
        'samples': self.samples,
        'failures': list(self.failures.values()),
        'time_capped': self.time_capped,
        'skipped_for_time': self.skipped_for_time,
        'exhaustive': self.exhaustive,
        'wall_s': round(self.wall_s, 3),
    }


def record(res, check, case, known):
  """Evaluates a case and records it; returns (status, clause)."""
  status, clause, message, extra = evaluate(check, case)
  if status == 'discard':
    res.discards[clause] = res.discards.get(clause, 0) + 1
    return status, clause
  res.evaluations += 1
  labels = _labels(check, case, extra)
  for l in labels:
    res.hist[l] = res.hist.get(l, 0) + 1
  if check.nontrivial(case, labels):
    d = core.digest(case)
    if d not in res.nontrivial:
      res.nontrivial.add(d)
      if len(res.samples) < 3:
        res.samples.append({'check': check.name, 'labels': labels, 'case': case})
  if status == 'fail':
    f = res.failures.get(clause)
    if f is None:
      kid = findings.match(known, check.name, clause, case)
      res.failures[clause] = {
          'check': check.name, 'clause': clause, 'message': message,
          'case': case, 'count': 1, 'known': kid, 'shrunk': False}
    else:
      f['count'] += 1
      # keep the smallest witness seen so far
      if len(core.canonical(case)) < len(core.canonical(f['case'])):
        f['case'] = case
        f['message'] = message
  return status, clause


def run_generated(check, tier, n, seed, soft_cap_s, known, shrink_cap_s):
  import hypothesis
  from hypothesis import HealthCheck, Phase, given, settings

  res = CheckResult(check.name)
  t0 = time.time()
  strat = check.strategy(tier)
  harness = []

  base = dict(max_examples=n, database=None, deadline=None, derandomize=False,
              report_multiple_bugs=False, print_blob=False,
              suppress_health_check=list(HealthCheck))

  @hypothesis.seed(seed)
  @settings(phases=[Phase.generate], **base)
  @given(strat)
  def pass_a(case):
    if harness:
      return
    if time.time() - t0 > soft_cap_s:
      res.time_capped = True
      res.skipped_for_time += 1
      return
    try:
      record(res, check, case, known)
    except HarnessError as e:
      harness.append(str(e))

  pass_a()
  if harness:
    raise HarnessError(harness[0])

  # Shrink one representative per unknown bucket with Hypothesis's shrinker:
  # same seed, same strategy, raising only for that bucket.
  todo = [f for f in res.failures.values() if not f['known']][:3]
  for f in todo:
    clause = f['clause']
    best = {'case': None, 'message': None}
    ts = time.time()

    @hypothesis.seed(seed)
    @settings(phases=[Phase.generate, Phase.shrink], **base)
    @given(strat)
    def pass_b(case):
      if time.time() - ts > shrink_cap_s:
        return
      status, c, m, _ = evaluate(check, case)
      if status == 'fail' and c == clause:
        best['case'], best['message'] = case, m
        raise AssertionError(clause)

    try:
      pass_b()
    except (KeyboardInterrupt, SystemExit, MemoryError):
      raise
    except BaseException:  # pylint: disable=broad-except
      pass
    if best['case'] is not None and (
        len(core.canonical(best['case'])) <= len(core.canonical(f['case']))):
      f['case'], f['message'], f['shrunk'] = best['case'], best['message'], True
  res.wall_s = time.time() - t0
  return res


def run_exhaustive(check, tier, shard, nshards, soft_cap_s, known):
  res = CheckResult(check.name)
  res.exhaustive = True
  t0 = time.time()
  for i, case in enumerate(check.cases(tier)):
    if i % nshards != shard:
      continue
    if time.time() - t0 > soft_cap_s:
      res.time_capped = True
      res.exhaustive = False
      res.skipped_for_time += 1
      continue
    record(res, check, case, known)
  res.wall_s = time.time() - t0
  return res


def run_replays(mod, pid, known):
  """Re-checks every committed replay file of this property."""
  out = []
  rdir = os.path.join(_env.VERIF_DIR, 'replays', pid)
  checks = {c.name: c for c in mod.CHECKS}
  if not os.path.isdir(rdir):
    return out
  for fn in sorted(os.listdir(rdir)):
    if not fn.endswith('.json'):
      continue
    path = os.path.join(rdir, fn)
    with open(path) as f:
      rep = json.load(f)
    check = checks.get(rep['check'])
    if check is None:
      raise HarnessError(f'{path}: unknown check {rep["check"]}')
    status, clause, message, _ = evaluate(check, rep['case'])
    kid = None
    if status == 'fail':
      kid = findings.match(known, check.name, clause, rep['case'])
    out.append({'file': os.path.relpath(path, _env.VERIF_DIR),
                'check': check.name, 'status': status, 'clause': clause,
                'message': message, 'known': kid, 'case': rep['case']})
  return out


def main(argv=None):
  ap = argparse.ArgumentParser()
  ap.add_argument('pid')
  ap.add_argument('--tier', default='quick')
  ap.add_argument('--shard', type=int, default=0)
  ap.add_argument('--nshards', type=int, default=1)
  ap.add_argument('--seed', type=int, default=1)
  ap.add_argument('--out', default=None)
  ap.add_argument('--only', default=None)
  ap.add_argument('--replay', default=None)
  ap.add_argument('--soft-cap', type=float, default=None)
  ap.add_argument('--scale', type=float, default=1.0,
                  help='multiplies every case budget (self-tests)')
  args = ap.parse_args(argv)

  t0 = time.time()
  try:
    mod = load_module(args.pid)
    _env.assert_tree()
    known = findings.load_open(args.pid)

    if args.replay:
      with open(args.replay) as f:
        rep = json.load(f)
      check = {c.name: c for c in mod.CHECKS}[rep['check']]
      status, clause, message, _ = evaluate(check, rep['case'])
      kid = findings.match(known, check.name, clause, rep['case']) if status == 'fail' else None
      print(json.dumps({'status': status, 'clause': clause, 'message': message,
                        'known': kid}))
      return 1 if (status == 'fail' and not kid) else 0

    soft_total = args.soft_cap or (
        {'quick': 200.0, 'thorough': 3600.0}[args.tier])
    shrink_cap = {'quick': 60.0, 'thorough': 240.0}[args.tier]
    checks = [c for c in mod.CHECKS if not args.only or c.name in args.only.split(',')]
    shares = sum(c.time_share for c in checks) or 1.0

    result = {'pid': args.pid, 'shard': args.shard, 'checks': [], 'replays': [],
              'meta': {'level': mod.LEVEL, 'rule': mod.RULE,
                       'assumptions': list(mod.ASSUMPTIONS),
                       'checks': [{'name': c.name, 'doc': c.doc} for c in mod.CHECKS]}}
    if args.shard == 0 and not args.only:
      result['replays'] = run_replays(mod, args.pid, known)
    for c in checks:
      cap = soft_total * c.time_share / shares
      if c.cases is not None:
        r = run_exhaustive(c, args.tier, args.shard, args.nshards, cap, known)
      else:
        total = max(1, int(c.budget[args.tier] * args.scale))
        n = -(-total // args.nshards)
        r = run_generated(c, args.tier, n,
                          derived_seed(args.seed, args.pid, c.name, args.shard),
                          cap, known, shrink_cap)
      result['checks'].append(r.to_json())
    result['wall_s'] = round(time.time() - t0, 3)
    if args.out:
      tmp = args.out + '.tmp'
      with open(tmp, 'w') as f:
        json.dump(result, f)
      os.replace(tmp, args.out)
    else:
      json.dump(result, sys.stdout, indent=1)
    return 0
  except HarnessError as e:
    sys.stderr.write(f'HARNESS-ERROR {e}\n')
    return 2
  except Exception:  # pylint: disable=broad-except
    sys.stderr.write('HARNESS-ERROR ' + traceback.format_exc())
    return 2


if __name__ == '__main__':
  sys.exit(main())
