"""Fans a property's checks out over shard processes, merges, writes evidence."""
import argparse
import importlib
import json
import os
import shutil
import subprocess
import sys
import time

from vf import env as _env
from vf import findings

PY = os.environ.get('VERIF_PYTHON', '/venv/bin/python')


def _out_dir(pid, tier):
  """Scratch directory of THIS run (shard outputs, logs).  Unique per process so
  that two runs of the same property at the same time -- e.g. one against /repo
  and one against a scratch copy -- never read each other's shard files; stale
  directories of earlier runs are removed."""
  base = os.path.join(_env.VERIF_DIR, 'out', pid)
  os.makedirs(base, exist_ok=True)
  now = time.time()
  for name in os.listdir(base):
    path = os.path.join(base, name)
    if name.startswith(tier + '-') and os.path.isdir(path):
      try:
        if now - os.path.getmtime(path) > 6 * 3600:
          shutil.rmtree(path, ignore_errors=True)
      except OSError:
        pass
  d = os.path.join(base, f'{tier}-{os.getpid()}')
  shutil.rmtree(d, ignore_errors=True)
  os.makedirs(d, exist_ok=True)
  return d


def _fuzz_spec(pid):
  """Reads FUZZ_CHECKS / FUZZ_RUNS from the module source (no import here)."""
  import re
  path = os.path.join(_env.VERIF_DIR, 'vf', 'props', f'{pid.lower()}.py')
  with open(path) as f:
    src = f.read()
  m = re.search(r'^FUZZ_CHECKS\s*=\s*(\[[^\]]*\])', src, re.M)
  if not m:
    return None
  checks = json.loads(m.group(1).replace("'", '"'))
  r = re.search(r'^FUZZ_RUNS\s*=\s*(\{[^}]*\})', src, re.M)
  runs = json.loads(r.group(1).replace("'", '"')) if r else {'quick': 2000, 'thorough': 100000}
  return {'checks': checks, 'runs': runs}


def run(pid, tier, seed, jobs, only=None, scale=1.0, soft_cap=None):
  t0 = time.time()
  out = _out_dir(pid, tier)
  env = _env.worker_env()
  procs = []
  for i in range(jobs):
    cmd = [PY, '-m', 'vf.worker', pid, '--tier', tier, '--shard', str(i),
           '--nshards', str(jobs), '--seed', str(seed),
           '--out', os.path.join(out, f'shard_{i}.json'), '--scale', str(scale)]
    if only:
      cmd += ['--only', only]
    if soft_cap:
      cmd += ['--soft-cap', str(soft_cap)]
    log = open(os.path.join(out, f'shard_{i}.log'), 'w')
    procs.append((i, subprocess.Popen(cmd, cwd=_env.VERIF_DIR, env=env,
                                      stdout=log, stderr=subprocess.STDOUT), log))
  # Optional second engine (Atheris / libFuzzer) for modules that declare it.
  fuzz = []
  spec = _fuzz_spec(pid)
  if spec and not only:
    runs = int(spec['runs'].get(tier, 0) * scale)
    for j, cname in enumerate(spec['checks']):
      if runs <= 0:
        break
      fout = os.path.join(out, f'fuzz_{j}.json')
      corpus = os.path.join(out, f'fuzz_corpus_{j}')
      os.makedirs(corpus, exist_ok=True)
      cmd = [PY, '-m', 'vf.fuzz', pid, '--check', cname, '--runs', str(runs),
             '--seed', str(seed * 1000 + j + 1), '--out', fout, '--tier', tier,
             '--corpus', corpus]
      log = open(os.path.join(out, f'fuzz_{j}.log'), 'w')
      fuzz.append((j, subprocess.Popen(cmd, cwd=_env.VERIF_DIR, env=env, stdout=log,
                                       stderr=subprocess.STDOUT), log, fout, corpus))
  hard_cap = {'quick': 45 * 60, 'thorough': 8 * 3600}[tier]
  harness_errors = []
  fuzz_notes = []
  for i, p, log in procs:
    try:
      rc = p.wait(timeout=max(1, hard_cap - (time.time() - t0)))
    except subprocess.TimeoutExpired:
      p.kill()
      rc = -9
      harness_errors.append(f'shard {i}: exceeded hard time cap (inconclusive)')
    log.close()
    if rc != 0 and rc != -9:
      with open(os.path.join(out, f'shard_{i}.log')) as f:
        tail = f.read()[-3000:]
      harness_errors.append(f'shard {i}: exit {rc}\n{tail}')
  shards = []
  for i in range(jobs):
    path = os.path.join(out, f'shard_{i}.json')
    if os.path.exists(path):
      with open(path) as f:
        shards.append(json.load(f))
  for j, p, log, fout, corpus in fuzz:
    try:
      p.wait(timeout=max(1, hard_cap - (time.time() - t0)))
    except subprocess.TimeoutExpired:
      p.kill()
    log.close()
    shutil.rmtree(corpus, ignore_errors=True)
    if os.path.exists(fout):
      with open(fout) as f:
        fj = json.load(f)
      if fj.get('skipped'):
        fuzz_notes.append(fj['skipped'])
      else:
        shards.append({'pid': pid, 'shard': f'fuzz{j}', 'checks': [fj], 'replays': []})
    else:
      fuzz_notes.append(f'fuzz process {j} produced no output')
  meta = next((sh['meta'] for sh in shards if sh.get('meta')), None)
  if meta is None and not harness_errors:
    harness_errors.append('no shard produced module meta')
  return merge(pid, tier, seed, meta, shards, harness_errors, time.time() - t0, fuzz_notes,
               partial=bool(only) or scale != 1.0)


def merge(pid, tier, seed, meta, shards, harness_errors, wall, fuzz_notes=(), partial=False):
  known = {e['id']: e for e in findings.load_open(pid)}
  per_check = {}
  failures = {}   # (check, clause) -> failure
  replays = []
  for s in shards:
    replays.extend(s.get('replays', []))
    for c in s['checks']:
      pc = per_check.setdefault(c['name'], {
          'evaluations': 0, 'nontrivial': set(), 'hist': {}, 'discards': {},
          'samples': [], 'time_capped': False, 'skipped_for_time': 0,
          'exhaustive': c['exhaustive'], 'wall_s': 0.0})
      pc['evaluations'] += c['evaluations']
      pc['nontrivial'].update(c['nontrivial'])
      for k, v in c['hist'].items():
        pc['hist'][k] = pc['hist'].get(k, 0) + v
      for k, v in c['discards'].items():
        pc['discards'][k] = pc['discards'].get(k, 0) + v
      if len(pc['samples']) < 3:
        pc['samples'].extend(c['samples'][:3 - len(pc['samples'])])
      pc['time_capped'] |= c['time_capped']
      pc['skipped_for_time'] += c['skipped_for_time']
      pc['exhaustive'] &= c['exhaustive']
      pc['wall_s'] = max(pc['wall_s'], c['wall_s'])
      for f in c['failures']:
        key = (f['check'], f['clause'])
        g = failures.get(key)
        if g is None:
          failures[key] = dict(f)
        else:
          g['count'] += f['count']
          if (f['shrunk'], -len(json.dumps(f['case']))) > (g['shrunk'], -len(json.dumps(g['case']))):
            cnt = g['count']
            failures[key] = dict(f)
            failures[key]['count'] = cnt

  lines = []
  violations = 0
  known_seen = {}
  rdir = os.path.join(_env.VERIF_DIR, 'out', 'replays', pid)
  os.makedirs(rdir, exist_ok=True)

  def emit_violation(check, clause, message, case, extra=None):
    nonlocal violations
    violations += 1
    import hashlib
    h = hashlib.sha1((check + clause).encode()).hexdigest()[:10]
    path = os.path.join(rdir, f'{check}-{h}.json')
    with open(path, 'w') as f:
      json.dump({'property': pid, 'check': check, 'clause': clause,
                 'message': message, 'case': case, **(extra or {})}, f, indent=1)
    lines.append(f'VIOLATION property={pid} replay={path}')
    lines.append(f'  check={check} clause={clause} :: {(message or "")[:400]}')

  for r in replays:
    if r['status'] == 'fail':
      if r['known']:
        known_seen[r['known']] = known_seen.get(r['known'], 0) + 1
      else:
        emit_violation(r['check'], r['clause'], r['message'], r['case'],
                       {'from_replay': r['file']})
  for (check, clause), f in sorted(failures.items()):
    if f['known']:
      known_seen[f['known']] = known_seen.get(f['known'], 0) + f['count']
    else:
      emit_violation(check, clause, f['message'], f['case'],
                     {'count': f['count'], 'shrunk': f['shrunk']})
  for kid, n in sorted(known_seen.items()):
    lines.append(f'KNOWN-FINDING: property={pid} {kid}: {known[kid]["what"]} '
                 f'(re-confirmed on {n} case(s))')

  evaluations = sum(pc['evaluations'] for pc in per_check.values()) + len(replays)
  nontriv = sum(len(pc['nontrivial']) for pc in per_check.values())
  samples = []
  for name, pc in per_check.items():
    samples.extend(pc['samples'][:2])
  all_exh = bool(per_check) and all(pc['exhaustive'] for pc in per_check.values())
  evidence = {
      'property_id': pid,
      'tier': tier,
      'seed': seed,
      'level': (meta or {}).get('level', 'exploration'),
      'coverage': {
          'evaluations': evaluations,
          'distinct_nontrivial': nontriv,
          'rule': (meta or {}).get('rule', ''),
          'samples': samples[:12],
          'exhaustive': all_exh,
          'replay_files_rechecked': len(replays),
          'known_findings_reconfirmed': known_seen,
          'per_check': {
              name: {
                  'evaluations': pc['evaluations'],
                  'distinct_nontrivial': len(pc['nontrivial']),
                  'class_histogram': dict(sorted(pc['hist'].items())),
                  'discarded': pc['discards'],
                  'exhaustive_subclaim': pc['exhaustive'],
                  'time_capped': pc['time_capped'],
                  'skipped_for_time': pc['skipped_for_time'],
                  'max_shard_wall_s': pc['wall_s'],
              } for name, pc in per_check.items()},
          'shards': len(shards),
          'fuzz_notes': list(fuzz_notes),
      },
      'assumptions': (meta or {}).get('assumptions', []),
      'wall_s': round(wall, 2),
      'violations': violations,
  }
  if harness_errors:
    evidence['coverage']['harness_errors'] = [h[:2000] for h in harness_errors]
  # Only a full run against the registered tree may rewrite the committed
  # evidence; partial (--only / --scale) and scratch-copy (VERIF_REPO) runs
  # write theirs next to the shard output.
  if partial or os.environ.get('VERIF_REPO'):
    edir = os.path.join(_env.VERIF_DIR, 'out', pid, f'{tier}-{os.getpid()}')
    evidence['partial_run'] = True
  else:
    edir = os.path.join(_env.VERIF_DIR, 'evidence')
  os.makedirs(edir, exist_ok=True)
  with open(os.path.join(edir, f'{pid}.json'), 'w') as f:
    json.dump(evidence, f, indent=1, sort_keys=True)
    f.write('\n')

  for l in lines:
    print(l)
  print(f'{pid} tier={tier} seed={seed}: evaluations={evaluations} '
        f'distinct_nontrivial={nontriv} violations={violations} '
        f'known={sum(known_seen.values())} wall={wall:.1f}s')
  if violations:
    return 1
  if harness_errors:
    for h in harness_errors:
      sys.stderr.write('HARNESS-ERROR ' + h + '\n')
    return 2
  return 0


def main(argv=None):
  ap = argparse.ArgumentParser()
  ap.add_argument('pid')
  ap.add_argument('--tier', default=os.environ.get('VERIF_TIER', 'quick'),
                  choices=['quick', 'thorough'])
  ap.add_argument('--replay', default=None)
  ap.add_argument('--jobs', type=int,
                  default=int(os.environ.get('VERIF_JOBS', '0')) or min(16, os.cpu_count() or 1))
  ap.add_argument('--only', default=None)
  ap.add_argument('--scale', type=float, default=1.0)
  ap.add_argument('--soft-cap', type=float, default=None)
  args = ap.parse_args(argv)
  seed = int(os.environ.get('VERIF_SEED', '1') or '1')

  if args.replay:
    p = subprocess.run([PY, '-m', 'vf.worker', args.pid, '--replay', args.replay],
                       cwd=_env.VERIF_DIR, env=_env.worker_env(),
                       capture_output=True, text=True)
    sys.stderr.write(p.stderr[-3000:] if p.returncode == 2 else '')
    res = None
    for line in p.stdout.splitlines():
      if line.startswith('{'):
        res = json.loads(line)
    if res is None:
      return 2
    if res['status'] == 'fail' and not res['known']:
      print(f'VIOLATION property={args.pid} replay={os.path.abspath(args.replay)}')
      print(f'  clause={res["clause"]} :: {res["message"]}')
      return 1
    if res['status'] == 'fail':
      print(f'KNOWN-FINDING: property={args.pid} {res["known"]}')
    print(f'{args.pid} replay {args.replay}: {res["status"]}')
    return 0
  return run(args.pid, args.tier, seed, args.jobs, args.only, args.scale, args.soft_cap)


if __name__ == '__main__':
  sys.exit(main())
