"""Process environment for workers.  Must be imported before jax / tensorflow."""
import os
import sys

VERIF_DIR = os.path.dirname(os.path.dirname(os.path.abspath(__file__)))


def repo_dir():
  return os.path.abspath(os.environ.get('VERIF_REPO', '/repo'))


def worker_env(base=None):
  """Environment variables every worker process runs under."""
  env = dict(os.environ if base is None else base)
  env['JAX_PLATFORMS'] = 'cpu'
  env['XLA_FLAGS'] = ('--xla_force_host_platform_device_count=8 '
                      '--xla_cpu_multi_thread_eigen=false '
                      'intra_op_parallelism_threads=1')
  env['OMP_NUM_THREADS'] = '1'
  env['OPENBLAS_NUM_THREADS'] = '1'
  env['MKL_NUM_THREADS'] = '1'
  env['TF_NUM_INTRAOP_THREADS'] = '1'
  env['TF_NUM_INTEROP_THREADS'] = '1'
  env['TF_CPP_MIN_LOG_LEVEL'] = '3'
  env['PYTHONHASHSEED'] = '0'
  env['PYTHONDONTWRITEBYTECODE'] = '1'
  env['GOOGLE_FEDJAX_VERIF'] = '1'
  env['PYTHONPATH'] = os.pathsep.join(
      [repo_dir(), VERIF_DIR] +
      [p for p in env.get('PYTHONPATH', '').split(os.pathsep) if p])
  return env


def activate():
  """Applies worker_env to this process and puts the tree under test first."""
  os.environ.update(worker_env())
  for p in (VERIF_DIR, repo_dir()):
    if p in sys.path:
      sys.path.remove(p)
    sys.path.insert(0, p)


def assert_tree():
  """Exits 2 unless `fedjax` is imported from the tree under test."""
  import fedjax  # pylint: disable=g-import-not-at-top
  where = os.path.abspath(fedjax.__file__)
  if not where.startswith(repo_dir() + os.sep):
    sys.stderr.write(
        f'HARNESS-ERROR fedjax imported from {where}, not {repo_dir()}\n')
    sys.exit(2)
