"""Coverage-guided second engine: Atheris (libFuzzer) driving a check's strategy.

  python -m vf.fuzz C15 --check padded_client_datasets --runs 20000 --seed 1 --out f.json

libFuzzer mutates a byte buffer under coverage feedback from the instrumented
fedjax modules; Hypothesis' `fuzz_one_input` decodes the buffer through the
check's own strategy into a JSON case; the oracle is the check's `run`. A
failing case is written out as an ordinary replay file (JSON, re-checkable
without Atheris) before the process stops.

If Atheris is not installed the output says so and the exit status is 0: the
Hypothesis search remains the deciding engine, this one only adds inputs.
"""
from vf import env as _env
_env.activate()

# pylint: disable=g-import-not-at-top,wrong-import-position
import argparse
import json
import os
import sys
import time

DEPS = os.path.join(_env.VERIF_DIR, '.deps')
if os.path.isdir(DEPS) and DEPS not in sys.path:
  sys.path.append(DEPS)


def dump(path, data):
  tmp = path + '.tmp'
  with open(tmp, 'w') as f:
    json.dump(data, f)
  os.replace(tmp, path)


def main(argv=None):
  ap = argparse.ArgumentParser()
  ap.add_argument('pid')
  ap.add_argument('--check', required=True)
  ap.add_argument('--runs', type=int, default=5000)
  ap.add_argument('--seed', type=int, default=1)
  ap.add_argument('--out', required=True)
  ap.add_argument('--tier', default='quick')
  ap.add_argument('--corpus', required=True)
  args = ap.parse_args(argv)

  out = {'pid': args.pid, 'engine': 'atheris', 'check': args.check,
         'name': args.check + '@atheris', 'evaluations': 0, 'nontrivial': [],
         'hist': {}, 'samples': [], 'failures': [], 'discards': {},
         'time_capped': False, 'skipped_for_time': 0, 'exhaustive': False,
         'wall_s': 0.0, 'requested_runs': args.runs}
  try:
    import atheris
  except Exception as e:  # pylint: disable=broad-except
    out['skipped'] = f'atheris not importable: {type(e).__name__}: {e}'
    dump(args.out, out)
    return 0

  from vf import core
  from vf import findings
  from vf import worker

  path = os.path.join(_env.VERIF_DIR, 'vf', 'props', f'{args.pid.lower()}.py')
  with open(path) as f:
    src = f.read()
  import re
  if re.search(r'^NEEDS_TF\s*=\s*False', src, re.M):
    sys.modules['tensorflow'] = None
  # instrument the fedjax modules the property is anchored in
  m = re.search(r'^FUZZ_INSTRUMENT\s*=\s*(\[[^\]]*\])', src, re.M)
  include = json.loads(m.group(1).replace("'", '"')) if m else ['fedjax.core']
  with atheris.instrument_imports(include=include):
    mod = worker.load_module(args.pid)
  _env.assert_tree()
  check = {c.name: c for c in mod.CHECKS}[args.check]
  known = findings.load_open(args.pid)

  import hypothesis
  from hypothesis import HealthCheck, given, settings

  res = worker.CheckResult(out['name'])
  t0 = time.time()
  state = {'last_dump': 0}

  def flush():
    j = res.to_json()
    j.update({'engine': 'atheris', 'check': args.check, 'pid': args.pid,
              'requested_runs': args.runs, 'instrumented': include})
    j['wall_s'] = round(time.time() - t0, 3)
    dump(args.out, j)

  @settings(database=None, deadline=None, suppress_health_check=list(HealthCheck))
  @given(check.strategy(args.tier))
  def test(case):
    status, _ = worker.record(res, check, case, known)
    if res.evaluations - state['last_dump'] >= 100:
      state['last_dump'] = res.evaluations
      flush()
    if status == 'fail':
      unknown = [f for f in res.failures.values() if not f['known']]
      if unknown:
        flush()
        raise AssertionError(unknown[0]['clause'])

  flush()
  argv2 = [sys.argv[0], f'-runs={args.runs}', f'-seed={args.seed}', '-max_len=8192',
           '-print_final_stats=0', '-verbosity=0', '-artifact_prefix=' + args.corpus + '/',
           args.corpus]
  atheris.Setup(argv2, test.hypothesis.fuzz_one_input)
  import atexit
  atexit.register(flush)
  try:
    atheris.Fuzz()
  finally:
    flush()
  return 0


if __name__ == '__main__':
  sys.exit(main())
