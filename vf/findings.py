"""known_findings.json: open findings (matched narrowly) and fixed entries.

The file is read, never written, at run time.
"""
import json
import os

from vf import env as _env

PATH = os.path.join(_env.VERIF_DIR, 'known_findings.json')


def load_all():
  if not os.path.exists(PATH):
    return {'open': [], 'fixed': []}
  with open(PATH) as f:
    return json.load(f)


def load_open(pid):
  return [e for e in load_all().get('open', []) if e['property'] == pid]


def _get(case, dotted):
  cur = case
  for part in dotted.split('.'):
    if isinstance(cur, dict) and part in cur:
      cur = cur[part]
    elif isinstance(cur, list) and part.lstrip('-').isdigit() and -len(cur) <= int(part) < len(cur):
      cur = cur[int(part)]
    else:
      return _MISSING
  return cur


_MISSING = object()


def match(known, check, clause, case):
  """Returns the id of the open finding that covers this failure, or None.

  An entry covers a failure only if check name, clause prefix and every
  `where` field of the case agree -- never by property id alone.
  """
  for e in known:
    if e.get('check', '*') not in ('*', check):
      continue
    if not (clause or '').startswith(e.get('clause_prefix', '')):
      continue
    ok = True
    for k, v in e.get('where', {}).items():
      got = _get(case, k)
      if isinstance(v, dict) and 'in' in v:
        ok = got in v['in']
      elif isinstance(v, dict) and 'not' in v:
        ok = got is not _MISSING and got != v['not']
      else:
        ok = got == v
      if not ok:
        break
    if ok:
      return e['id']
  return None
