"""Core types shared by all property modules.

A property module (vf/props/cNN.py) defines

  PROPERTY_ID = 'C03'
  LEVEL       = 'exploration' | 'fault_enumeration'
  RULE        = '<how cases are generated and what makes one non-trivial>'
  ASSUMPTIONS = ['...']
  CHECKS      = [Check(...), ...]

Every Check is a family of generated cases with one `run(case)` oracle.
Cases are plain JSON-able data so that a failing case *is* its replay file.
"""
import dataclasses
import hashlib
import json
from typing import Any, Callable, Dict, Iterable, List, Optional


class Violation(Exception):
  """The property does not hold for this case.

  clause: short, stable identifier of the sub-claim that failed (no numbers
    that vary from case to case) -- failures are bucketed by (check, clause).
  """

  def __init__(self, clause: str, message: str = ''):
    super().__init__(f'{clause}: {message}')
    self.clause = clause
    self.message = message


class Discard(Exception):
  """The case is outside the property's domain (counted, never a failure)."""

  def __init__(self, reason: str = ''):
    super().__init__(reason)
    self.reason = reason


def require(cond, clause: str, message: str = ''):
  """Raises Violation(clause, message) unless cond."""
  if not cond:
    if callable(message):
      message = message()
    raise Violation(clause, str(message))


@dataclasses.dataclass
class Check:
  """One generated family + oracle.

  name: identifier, unique in the module.
  run: case -> None (ok); raises Violation / Discard.  May return a list of
    extra labels (strings) observed while running (e.g. 'trailing_all_padding').
  strategy: tier -> hypothesis strategy of JSON-able cases.   (generated checks)
  cases: tier -> iterable of JSON-able cases.                 (exhaustive checks)
  labels: case -> list of class labels for the histogram.
  nontrivial: (case, labels) -> bool, the non-triviality rule.
  budget: {'quick': n, 'thorough': n} number of generated cases in total
    (split across shards).  Ignored for exhaustive checks.
  time_share: relative share of the shard's soft time cap.
  """
  name: str
  run: Callable[[Any], Any]
  strategy: Optional[Callable[[str], Any]] = None
  cases: Optional[Callable[[str], Iterable[Any]]] = None
  labels: Callable[[Any], List[str]] = lambda case: []
  nontrivial: Callable[[Any, List[str]], bool] = lambda case, labels: True
  budget: Dict[str, int] = dataclasses.field(
      default_factory=lambda: {'quick': 100, 'thorough': 1000})
  time_share: float = 1.0
  exhaustive: bool = False
  doc: str = ''


def canonical(case) -> str:
  return json.dumps(case, sort_keys=True, separators=(',', ':'), default=_default)


def _default(o):
  # bytes never appear in canonical cases; modules encode them as hex strings.
  raise TypeError(f'case is not JSON-able: {type(o)}')


def digest(case) -> str:
  return hashlib.sha1(canonical(case).encode()).hexdigest()[:16]
