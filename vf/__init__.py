"""Property-based verification framework for google/fedjax (see /verif/DESIGN.md)."""
