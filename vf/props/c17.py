"""C17 -- Algorithm-specific invariants hold along every training history.

Histories are generated as DATA: a case names an algorithm, hyper-parameters
from small menus, a pool of tiny clients with dyadic-rational data and a list
of rounds, each a list of (client index, key seed).  `run_*` interprets the
list with the real fedjax algorithm and checks the algorithm's invariants
after EVERY round:

  agnostic   domain weights are a probability vector; the window has constant
             length, its newest entry is this round's per-domain example count
             (recomputed from the raw data), older entries shifted by one
  apfl       every interpolation coefficient in [0, 1]; the client-state table
             holds exactly the clients that have participated so far
  hypcluster reported cluster has minimal float64 reference loss (tolerance for
             near ties); each cluster with examples moves exactly like a FedAvg
             round over its own clients; the others keep params and optimizer
             state bit-identical
  mimelite   per-client clipped norm <= bound; the applied update has norm
             <= server_lr * bound and equals the float64 reference mean of the
             per-client deltas clipped to the bound
  ignore_grads_haiku  multi-step: ignored leaves bit-identical, the rest (and
             the optimizer state) bit-equal to the base optimizer on the tree
             without the ignored leaves
"""
import functools
import json

import numpy as np
from hypothesis import strategies as st

import jax
import jax.numpy as jnp

import fedjax
from fedjax.algorithms import agnostic_fed_avg as agnostic_lib
from fedjax.algorithms import apfl as apfl_lib
from fedjax.algorithms import fed_avg as fed_avg_lib
from fedjax.algorithms import hyp_cluster as hyp_lib
from fedjax.algorithms import mime_lite as mime_lite_lib
from fedjax.core import optimizers as opt_lib

from vf.core import Check, Discard, canonical, require
from vf.props import c01

PROPERTY_ID = 'C17'
NEEDS_TF = False
LEVEL = 'exploration'
RULE = (
    'Histories generated as data, one Check per algorithm. Common part: model '
    'pred = x.w + b/2 with d in {1,2}, squared loss; a pool of 2-4 clients '
    'with 0-7 examples (x = k/16, |k|<=4; y = k/8, |k|<=16), dyadic initial '
    'params, 3-6 rounds (quick) / 3-10 (thorough) and rarely 1-2, every round a cohort of '
    '1-3 distinct pool clients (clients return) with fresh key seeds; '
    'hyper-parameters from small menus (optimizers sgd/momentum/adam with '
    'step sizes 2^-j, batch sizes 2-4, 1-2 epochs, optional step limit); the '
    'quick tier draws them from 3-9 fixed presets per algorithm that cover '
    'every menu value and every (domains, window) pair (compiling a new '
    'algorithm instance costs 50-100 rounds), the thorough tier also draws '
    'free combinations. '
    'agnostic: 2-4 domains, window 1-3, domain lr in {1,1/2,1/8,1/64}, eg/none, '
    'initial weights incl. zero entries, initial window default/ones/with a '
    'zero, every client holds examples of 1-3 "home" domains and one domain '
    'may be used by nobody, so rounds that starve a domain are the norm. '
    'apfl: coefficient k/8, client lr in {2,1,1/4} (sgd/momentum/adam), '
    'rng-dependent loss optional, after a third of the rounds 1-2 pool clients '
    '(trained or not) are evaluated through the packaged APFL evaluation. hypcluster: 2-4 clusters with distinct or '
    'duplicated (exact tie) initial params, server optimizer with state '
    '(momentum/adam) or sgd. mimelite: clip norm in {2^-10,2^-3,1/4,2^10,0}, '
    'server lr in {1,1/2,2}, base sgd/momentum/adam. ignore_grads_haiku: 1-3 '
    'haiku modules with leaves from {w,b,s}, ignore-list a subset of the '
    '(module, name) pairs, 1-4 successive apply() calls with carried state, '
    'gradients of ignored leaves may be NaN/inf, base optimizer from '
    '{sgd,momentum,nesterov,adam,adagrad,rmsprop}. '
    'Non-trivial: >=3 rounds and the history contains a round with an empty '
    'domain (agnostic) / a returning client (apfl) / a cluster without '
    'examples (hypcluster) / a clipped client (mimelite); ignore_grads: >=1 '
    'ignored and >=1 trainable leaf and >=2 steps. distinct = distinct '
    'canonical case JSON.')
RULE += (
    ' '
    'Later widenings: APFL evaluation between rounds; MimeLite clip bounds 0 and 2^-30 and cl'
    'ients whose update norm overflows float32 (the divergence guard runs after the bound che'
    'ck); agnostic states carried over with another window length; HypCluster with a regulari'
    'zer and on the pmap backend; ignore_grads_haiku over optimizers with weight decay and wi'
    'th frozen entries held as float64 / int64 / float16 host arrays.')
ASSUMPTIONS = [
    'dynamics are bounded by construction: |x_j|<=1/4 and the bias enters with '
    'factor 1/2, so the mean Hessian has norm <= 3/4 and every step size in the '
    'menus (<= 2, Adam <= 1) keeps gradient descent non-expansive; a history '
    'whose parameters nevertheless exceed 1e6 in magnitude is discarded '
    '(label diverged; never observed)',
    'agnostic: the exponentiated-gradient exponent domain_lr * mean_domain_loss '
    'is recomputed in float64 before every round and the history is discarded '
    'if it exceeds 60 (float32 exp overflows at 88; EG overflow is not the '
    'invariant under test); by construction losses stay below ~40 and domain '
    'lr <= 1, so this is a safety net (counted under discarded)',
    'agnostic: init_domain_weights / init_domain_window are passed as numpy '
    'arrays (a Python list with the default window hits an unrelated '
    'jnp.ones_like(list) error); probability-vector tolerance |sum-1| <= 1e-5; '
    'if the server params are non-finite after the last round the history is '
    'extended by one more round with the whole pool as cohort, because NaN params only '
    'reach the domain weights one round later',
    'hypcluster: argmin is judged on float64 reference losses with tolerance '
    '1e-5 * (1 + S^2), S = max over examples of |w|.|x| + |b|/2 + |y| (float32 '
    'residual cancellation); clients without examples may be assigned anywhere; '
    'the reference update of a cluster is a fedjax FedAvg round (decided by '
    'C01) over exactly its assigned clients from that cluster\'s params and '
    'optimizer state, tolerance 2e-6 * (1 + max |value|)',
    'hypcluster/mimelite/agnostic use the rng-independent loss and an integer '
    'batching seed, so client keys cannot influence the reference',
    'mimelite: float64 reference (hand-written SGD/momentum, raw optax for '
    'Adam) restarted every round from the observed float32 params; tolerance '
    '2e-5 (Adam 1e-4) * (1 + max |value| along the reference); norm bounds '
    'carry a relative 1e-5 and, for the applied update (a difference of float32 '
    'params), an absolute slack 4 * eps32 * max|param| * sqrt(dim); every '
    'cohort is non-empty (tree_sum of nothing is undefined)',
    'ignore_grads_haiku: the ignore-list is a subset of the existing (module, '
    'name) pairs, as the docstring describes; bit-equality compares dtype, '
    'shape and bytes',
    'num_epochs is always set, so empty clients terminate',
]

EPS32 = float(np.finfo(np.float32).eps)


# ---------------------------------------------------------------- model / data

def per_example_loss(params, batch, rng):
  pred = batch['x'] @ params['w'] + 0.5 * params['b']
  return (pred - batch['y']) ** 2


def noisy_per_example_loss(params, batch, rng):
  # gradient wrt w shifts by a dyadic number drawn from the key
  g = jax.random.randint(rng, (), -2, 3).astype(jnp.float32) / 4.0
  return per_example_loss(params, batch, rng) + g * jnp.sum(params['w'])


GRAD = {False: fedjax.grad(per_example_loss),
        True: fedjax.grad(noisy_per_example_loss)}


def client_arrays(client, d):
  rows = np.asarray(client['rows'], np.float64).reshape((-1, d + 1))
  # ('yexp': targets of this client scaled by a power of two -- finite values
  # whose squared norm does not fit the parameter dtype)
  return rows[:, :d] / 16.0, rows[:, d] / 8.0 * 2.0 ** client.get('yexp', 0)


def make_dataset(client, d, domains=False):
  x, y = client_arrays(client, d)
  ex = {'x': x.astype(np.float32), 'y': y.astype(np.float32)}
  if domains:
    ex['domain_id'] = np.asarray(client['dom'], np.int32).reshape((-1,))
  return fedjax.ClientDataset(ex)


def params_of(vec):
  d = len(vec) - 1
  return {'w': jnp.asarray(np.asarray(vec[:d], np.float32) / 8.0),
          'b': jnp.asarray(np.float32(vec[d] / 8.0))}


def cid(i):
  return b'c%d' % i


def cohort(rnd, datasets):
  return [(cid(i), datasets[i], jax.random.PRNGKey(seed)) for i, seed in rnd]


def sizes_of(case):
  return [len(c['rows']) // (case['d'] + 1) for c in case['pool']]


def ref_residual(p, x, y):
  return x @ p['w'] + 0.5 * p['b'] - y


def ref_grad(p, batch):
  x = np.asarray(batch['x'], np.float64)
  y = np.asarray(batch['y'], np.float64)
  r = ref_residual(p, x, y)
  n = x.shape[0]
  return {'w': 2.0 * (r @ x) / n, 'b': np.float64(r.sum() / n)}


def to64(tree):
  return {k: np.asarray(v, np.float64) for k, v in tree.items()}


def all_finite(tree):
  return all(bool(np.all(np.isfinite(np.asarray(l)))) for l in jax.tree_util.tree_leaves(tree))


def max_abs(tree):
  m = 0.0
  for l in jax.tree_util.tree_leaves(tree):
    a = np.asarray(l, np.float64)
    if a.size:
      m = max(m, float(np.max(np.abs(a))))
  return m


def guard_bounded(tree, what):
  if all_finite(tree) and max_abs(tree) > 1e6:
    raise Discard('diverged:' + what)


def same_bits(a, b):
  a, b = np.asarray(a), np.asarray(b)
  return a.dtype == b.dtype and a.shape == b.shape and a.tobytes() == b.tobytes()


def trees_same_bits(a, b):
  la, lb = jax.tree_util.tree_leaves(a), jax.tree_util.tree_leaves(b)
  return len(la) == len(lb) and all(same_bits(x, y) for x, y in zip(la, lb))


def batch_hparams(h):
  return fedjax.ShuffleRepeatBatchHParams(
      batch_size=h['bs'], num_epochs=h['epochs'], num_steps=h['steps'],
      seed=h['seed'])


@functools.lru_cache(maxsize=None)
def optimizer(name, lr_exp, momentum):
  return c01.fj_optimizer({'name': name, 'lr_exp': lr_exp, 'momentum': momentum})


def opt_of(spec):
  return optimizer(spec['name'], spec['lr_exp'], spec['momentum'])


def check_diag_keys(diag, clients, alg):
  ids = [c[0] for c in clients]
  require(set(diag) == set(ids) and len(diag) == len(ids), alg + ':diagnostics_keys',
          f'diagnostics for {sorted(diag)} vs cohort {sorted(ids)}')


# -------------------------------------------------------------------- agnostic

AG_WEIGHTS = {2: [[4, 4], [1, 7], [0, 8]],
              3: [[4, 2, 2], [2, 3, 3], [0, 4, 4]],
              4: [[2, 2, 2, 2], [1, 1, 2, 4], [0, 0, 4, 4]]}
AG_WINDOW_WITH_ZERO = [2, 0, 1, 3]
AG_COPT = [{'name': 'sgd', 'lr_exp': 2, 'momentum': 0},
           {'name': 'sgd', 'lr_exp': 0, 'momentum': 0},
           {'name': 'momentum', 'lr_exp': 2, 'momentum': 4}]
AG_SOPT = [{'name': 'sgd', 'lr_exp': 0, 'momentum': 0},
           {'name': 'sgd', 'lr_exp': 1, 'momentum': 0},
           {'name': 'momentum', 'lr_exp': 1, 'momentum': 4}]


def ag_init_window(hp):
  d = hp['domains']
  if hp['init_win'] == 'default':
    return None
  if hp['init_win'] == 'ones':
    return np.ones((d,), np.float32)
  return np.asarray(AG_WINDOW_WITH_ZERO[:d], np.float32)


@functools.lru_cache(maxsize=None)
def _build_agnostic(key):
  hp = json.loads(key)
  weights = np.asarray(AG_WEIGHTS[hp['domains']][hp['init_w']], np.float32) / 8.0
  return agnostic_lib.agnostic_federated_averaging(
      per_example_loss=per_example_loss,
      client_optimizer=opt_of(AG_COPT[hp['copt']]),
      server_optimizer=opt_of(AG_SOPT[hp['sopt']]),
      client_batch_hparams=batch_hparams(hp['batch']),
      domain_batch_hparams=fedjax.PaddedBatchHParams(batch_size=hp['dbs']),
      init_domain_weights=weights,
      domain_learning_rate=2.0 ** -hp['dlr_exp'],
      domain_algorithm=hp['dalg'],
      domain_window_size=hp['window'],
      init_domain_window=ag_init_window(hp))


def ag_counts(case, rnd):
  """Per-domain example counts of a cohort, straight from the case data."""
  counts = np.zeros((case['hp']['domains'],), np.int64)
  for i, _ in rnd:
    for dom in case['pool'][i]['dom']:
      counts[dom] += 1
  return counts


def ag_check_state(case, state, model_window, where):
  hp = case['hp']
  d, w = hp['domains'], len(model_window)
  dw = np.asarray(state.domain_weights)
  require(dw.shape == (d,), 'agnostic:domain_weights_shape', f'{where}: {dw.shape}')
  dw = dw.astype(np.float64)
  require(bool(np.all(np.isfinite(dw))), 'agnostic:domain_weights_not_finite',
          f'{where}: {dw.tolist()}')
  require(bool(np.all(dw >= 0)), 'agnostic:domain_weight_negative', f'{where}: {dw.tolist()}')
  require(abs(float(dw.sum()) - 1.0) <= 1e-5, 'agnostic:domain_weights_do_not_sum_to_1',
          f'{where}: sum {float(dw.sum())!r} of {dw.tolist()}')
  win = state.domain_window
  require(isinstance(win, (list, tuple)) and len(win) == w, 'agnostic:window_length_changed',
          lambda: f'{where}: length {len(win)} vs window size {w}')
  for j, (got, want) in enumerate(zip(win, model_window)):
    got = np.asarray(got)
    require(got.shape == (d,), 'agnostic:window_entry_shape', f'{where}: entry {j}: {got.shape}')
    clause = ('agnostic:window_newest_entry_is_not_this_rounds_counts' if j == w - 1
              else 'agnostic:window_older_entries_not_shifted')
    require(bool(np.array_equal(got.astype(np.float64), want)), clause,
            lambda: f'{where}: entry {j} of {w}: {got.tolist()} vs {want.tolist()}; '
                    f'window {[np.asarray(e).tolist() for e in win]}')


def ag_exponent(case, params, rnd):
  """max_d domain_lr * mean loss of domain d over the cohort, float64."""
  hp = case['hp']
  p = to64(params)
  tot = np.zeros((hp['domains'],))
  cnt = np.zeros((hp['domains'],))
  for i, _ in rnd:
    x, y = client_arrays(case['pool'][i], case['d'])
    loss = ref_residual(p, x, y) ** 2
    for l, dom in zip(loss, case['pool'][i]['dom']):
      tot[dom] += l
      cnt[dom] += 1
  mean = np.where(cnt > 0, tot / np.maximum(cnt, 1), 0.0)
  return float(np.max(mean)) * 2.0 ** -hp['dlr_exp']


def run_agnostic(case):
  hp = case['hp']
  d = hp['domains']
  alg = _build_agnostic(canonical(hp))
  datasets = [make_dataset(c, case['d'], domains=True) for c in case['pool']]
  state = alg.init(params_of(case['p0']))
  init_window = ag_init_window(hp)
  init_window = np.ones((d,)) if init_window is None else init_window.astype(np.float64)
  model_window = [init_window] * hp['window']
  init_weights = np.asarray(state.domain_weights)
  ag_check_state(case, state, model_window, 'after init')
  if case.get('carried_window'):
    # The run goes on from a state produced with ANOTHER window size (a warm
    # start with new hyper-parameters; the window is a plain list in the public
    # ServerState): it keeps the length it came with, newest counts last.
    model_window = [init_window * (k + 1) for k in range(case['carried_window'])]
    state = state.replace(domain_window=[jnp.asarray(w_, jnp.float32) for w_ in model_window])
    ag_check_state(case, state, model_window, 'carried-over state')
  extra = set()
  rounds = [list(r) for r in case['rounds']]
  r = 0
  kept = [(state, list(model_window), 'after init')]   # every state of the run
  while r < len(rounds):
    rnd = rounds[r]
    if all_finite(state.params):
      guard_bounded(state.params, 'agnostic')
      e = ag_exponent(case, state.params, rnd)
      if e > 60.0:
        raise Discard('eg_exponent_out_of_range')
      if e > 10.0:
        extra.add('eg_exponent>10')
    counts = ag_counts(case, rnd)
    window_mean = np.mean(np.stack(model_window), axis=0)
    if np.any(window_mean == 0):
      extra.add('round_with_zero_window_mean')
    clients = cohort(rnd, datasets)
    prev_weights = np.asarray(state.domain_weights)
    state, diag = alg.apply(state, clients)
    check_diag_keys(diag, clients, 'agnostic')
    model_window = model_window[1:] + [counts.astype(np.float64)]
    ag_check_state(case, state, model_window, f'after round {r}')
    kept.append((state, list(model_window), f'after round {r}'))
    if hp['dalg'] == 'none':
      require(same_bits(state.domain_weights, init_weights), 'agnostic:none_changed_domain_weights',
              f'after round {r}: {np.asarray(state.domain_weights).tolist()}')
    elif not same_bits(state.domain_weights, prev_weights):
      extra.add('weights_moved')
    if r == len(rounds) - 1 and not all_finite(state.params) and len(rounds) == len(case['rounds']):
      # NaN params only reach the domain weights in the next round: extend the
      # history by one round with the whole pool as cohort.
      rounds.append([[i, 0] for i in range(len(case['pool']))])
      extra.add('extended_after_non_finite_params')
    r += 1
  # Along the history every state keeps ITS window: the states of a run do not
  # share one window that later rounds keep sliding ...
  for old_state, old_window, where in kept:
    ag_check_state(case, old_state, old_window, f'{where}, re-read at the end of the history')
  # ... and a round applied to an EARLIER state slides that state's window.
  if len(kept) >= 3 and all_finite(kept[1][0].params):
    old_state, old_window, where = kept[1]
    rnd = rounds[-1]
    if ag_exponent(case, old_state.params, rnd) <= 60.0:
      branch, _ = alg.apply(old_state, cohort(rnd, datasets))
      ag_check_state(case, branch, old_window[1:] + [ag_counts(case, rnd).astype(np.float64)],
                     f'branch: last cohort applied to the state {where}')
      extra.add('branched_from_an_earlier_state')
  return sorted(extra)


def ag_labels(case):
  hp = case['hp']
  ls = ['domains:%d' % hp['domains'], 'window:%d' % hp['window'], 'dalg:' + hp['dalg'],
        'init_win:' + hp['init_win'], 'rounds:%d' % len(case['rounds'])]
  if 0 in AG_WEIGHTS[hp['domains']][hp['init_w']]:
    ls.append('zero_init_weight')
  if case.get('carried_window'):
    ls.append('state_from_a_run_with_a_%s_window' % ('shorter' if case['carried_window'] < hp['window'] else 'longer'))
  used = set(dom for c in case['pool'] for dom in c['dom'])
  if len(used) < hp['domains']:
    ls.append('domain_never_gets_an_example')
  starved = [bool(np.any(ag_counts(case, rnd) == 0)) for rnd in case['rounds']]
  if any(starved):
    ls.append('round_with_empty_domain')
  if any(starved[:-1]):
    ls.append('empty_domain_before_last_round')
  if any(int(ag_counts(case, rnd).sum()) == 0 for rnd in case['rounds']):
    ls.append('round_without_examples')
  ls += returning_labels(case)
  return ls


def ag_nontrivial(case, ls):
  return len(case['rounds']) >= 3 and 'round_with_empty_domain' in ls


# ------------------------------------------------------------------------ apfl

APFL_COPT = [{'name': 'sgd', 'lr_exp': -1, 'momentum': 0},
             {'name': 'sgd', 'lr_exp': 0, 'momentum': 0},
             {'name': 'sgd', 'lr_exp': 2, 'momentum': 0},
             {'name': 'momentum', 'lr_exp': -1, 'momentum': 4},
             {'name': 'momentum', 'lr_exp': 0, 'momentum': 4},
             {'name': 'adam', 'lr_exp': 0, 'momentum': 0},
             {'name': 'adam', 'lr_exp': 2, 'momentum': 0}]
APFL_SOPT = [{'name': 'sgd', 'lr_exp': 0, 'momentum': 0},
             {'name': 'momentum', 'lr_exp': 1, 'momentum': 4}]


@functools.lru_cache(maxsize=None)
def _build_apfl(key):
  hp = json.loads(key)
  return apfl_lib.adaptive_personalized_federated_learning(
      GRAD[hp['noisy']], opt_of(APFL_COPT[hp['copt']]), opt_of(APFL_SOPT[hp['sopt']]),
      batch_hparams(hp['batch']), client_coefficient=hp['coef'] / 8.0)


class SquaredError(fedjax.metrics.Metric):
  """User-defined regression metric for the APFL evaluation entry point."""

  def zero(self):
    return fedjax.metrics.MeanStat.new(0., 0.)

  def evaluate_example(self, example, prediction):
    return fedjax.metrics.MeanStat.new((prediction - example['y']) ** 2, 1.)


@functools.lru_cache(maxsize=None)
def _apfl_eval_fn(buckets):
  model = fedjax.Model(
      init=lambda rng: params_of([0, 0, 0]),
      apply_for_train=lambda params, batch, rng: batch['x'] @ params['w'] + 0.5 * params['b'],
      apply_for_eval=lambda params, batch: batch['x'] @ params['w'] + 0.5 * params['b'],
      train_loss=lambda batch, pred: (pred - batch['y']) ** 2,
      eval_metrics={'mse': SquaredError()})
  return apfl_lib.eval_adaptive_personalized_federated_learning(
      model, fedjax.PaddedBatchHParams(batch_size=2, num_batch_size_buckets=buckets))


def apfl_state_bits(state):
  leaves, treedef = jax.tree_util.tree_flatten((state.params, state.opt_state))
  table = {c: jax.tree_util.tree_flatten((cs.params, cs.interpolation_coefficients))
           for c, cs in state.client_states.items()}
  snap = lambda ls: [(str(np.asarray(l).dtype), np.asarray(l).shape, np.asarray(l).tobytes())
                     for l in ls]
  return (snap(leaves), str(treedef),
          {c: (snap(ls), str(td)) for c, (ls, td) in sorted(table.items())})


def run_apfl(case):
  hp = case['hp']
  alg = _build_apfl(canonical(hp))
  datasets = [make_dataset(c, case['d']) for c in case['pool']]
  p0 = params_of(case['p0'])
  state = alg.init(p0)
  require(len(state.client_states) == 0, 'apfl:client_state_for_non_participant',
          f'after init: {sorted(state.client_states)}')
  participated = set()
  extra = set()
  for r, rnd in enumerate(case['rounds']):
    clients = cohort(rnd, datasets)
    state, diag = alg.apply(state, clients)
    check_diag_keys(diag, clients, 'apfl')
    participated.update(c[0] for c in clients)
    stored = set(state.client_states)
    require(stored <= participated, 'apfl:client_state_for_non_participant',
            f'after round {r}: stored {sorted(stored)} participated {sorted(participated)}')
    require(stored == participated, 'apfl:participant_without_client_state',
            f'after round {r}: stored {sorted(stored)} participated {sorted(participated)}')
    guard_bounded(state.params, 'apfl')
    for c, cs in sorted(state.client_states.items()):
      guard_bounded(cs.params, 'apfl')
      coefs = cs.interpolation_coefficients
      require(isinstance(coefs, dict) and set(coefs) == set(p0),
              'apfl:coefficient_tree_structure', f'after round {r}: client {c}: {coefs}')
      for name, v in sorted(coefs.items()):
        a = np.asarray(v, np.float64)
        require(bool(np.all(np.isfinite(a))) and bool(np.all(a >= 0.0)) and bool(np.all(a <= 1.0)),
                'apfl:coefficient_outside_unit_interval',
                f'after round {r}: client {c} leaf {name}: {a.tolist()!r}')
        if hp['coef'] not in (0, 8):
          if np.any(a == 0.0):
            extra.add('coefficient_clipped_to_0')
          if np.any(a == 1.0):
            extra.add('coefficient_clipped_to_1')
        if np.any(a != hp['coef'] / 8.0):
          extra.add('coefficient_moved')
    # Evaluating clients between rounds (the packaged APFL evaluation entry
    # point) is not participation: the server state -- parameters and the
    # per-client table -- must be exactly what it was.
    evals = case.get('evals', [])
    who = evals[r] if r < len(evals) else []
    if who:
      before = apfl_state_bits(state)
      eval_fn = _apfl_eval_fn(1 + r % 2)
      results = list(eval_fn(state, [(cid(i), datasets[i]) for i in who]))
      require([c for c, _ in results] == [cid(i) for i in who] or
              sorted(c for c, _ in results) == sorted(cid(i) for i in who),
              'apfl:evaluation_result_ids', f'after round {r}: {[c for c, _ in results]} for {who}')
      for c, m in results:
        require(set(m) == {'mse'} and bool(np.isfinite(np.asarray(m['mse'].result(), np.float64))),
                'apfl:evaluation_result', f'after round {r}: client {c}: {m!r}')
      stored = set(state.client_states)
      require(stored <= participated, 'apfl:client_state_for_non_participant',
              f'after evaluating {sorted(cid(i) for i in who)} following round {r}: stored '
              f'{sorted(stored)} participated {sorted(participated)}')
      require(apfl_state_bits(state) == before, 'apfl:evaluation_changed_server_state',
              f'after evaluating {sorted(cid(i) for i in who)} following round {r}')
      extra.add('evaluated_between_rounds')
      if any(cid(i) not in participated for i in who):
        extra.add('evaluated_a_client_that_never_trained')
  return sorted(extra)


def returning_labels(case):
  seen, ls = set(), []
  for rnd in case['rounds']:
    if any(i in seen for i, _ in rnd):
      ls.append('returning_client')
      break
    seen.update(i for i, _ in rnd)
  sizes = sizes_of(case)
  if any(sizes[i] == 0 for rnd in case['rounds'] for i, _ in rnd):
    ls.append('round_with_empty_client')
  return ls


def apfl_labels(case):
  hp = case['hp']
  spec = APFL_COPT[hp['copt']]
  ls = ['client:%s:lr=2^%d' % (spec['name'], -spec['lr_exp']), 'coef:%d/8' % hp['coef'],
        'rounds:%d' % len(case['rounds'])]
  if hp['noisy']:
    ls.append('rng_dependent_loss')
  used = set(i for rnd in case['rounds'] for i, _ in rnd)
  if len(used) < len(case['pool']):
    ls.append('pool_client_never_participates')
  seen = set()
  for r, rnd in enumerate(case['rounds']):
    seen.update(i for i, _ in rnd)
    who = case.get('evals', [])[r:r + 1]
    if who and who[0]:
      ls.append('evaluation_between_rounds')
      if any(i not in seen for i in who[0]) and r + 1 < len(case['rounds']):
        ls.append('evaluates_untrained_client_then_trains_on')
  return sorted(set(ls)) + returning_labels(case)


def apfl_nontrivial(case, ls):
  return len(case['rounds']) >= 3 and 'returning_client' in ls


# ------------------------------------------------------------------ hypcluster

HYP_COPT = [{'name': 'sgd', 'lr_exp': 0, 'momentum': 0},
            {'name': 'sgd', 'lr_exp': 2, 'momentum': 0},
            {'name': 'momentum', 'lr_exp': 1, 'momentum': 4}]
HYP_SOPT = [{'name': 'momentum', 'lr_exp': 0, 'momentum': 4},
            {'name': 'adam', 'lr_exp': 2, 'momentum': 0},
            {'name': 'sgd', 'lr_exp': 0, 'momentum': 0}]


def hyp_regularizer(params):
  # 1/4 |params|^2: differs from cluster to cluster, so it takes part in the
  # choice of the cluster of minimal average loss
  return 0.25 * sum(jnp.sum(jnp.square(v)) for v in jax.tree_util.tree_leaves(params))


def hyp_regularizer64(p):
  return 0.25 * float(sum(np.sum(np.square(np.asarray(v, np.float64))) for v in p.values()))


@functools.lru_cache(maxsize=None)
def _build_hyp(key):
  hp = json.loads(key)
  copt, sopt = opt_of(HYP_COPT[hp['copt']]), opt_of(HYP_SOPT[hp['sopt']])
  bh = batch_hparams(hp['batch'])
  reg = hyp_regularizer if hp.get('reg') else None
  pmap = hp.get('backend') == 'pmap'
  # the documented parallel backend (3 of the virtual CPU devices): it may
  # process and yield clients in another order than they were listed, and it
  # needs one batch shape per call (one bucket)
  from fedjax.core import for_each_client as fec
  backend = fec.ForEachClientPmapBackend(jax.local_devices()[:3]) if pmap else 'jit'
  with fedjax.for_each_client_backend(backend):
    alg = hyp_lib.hyp_cluster(
        per_example_loss, copt, sopt,
        fedjax.PaddedBatchHParams(batch_size=hp['mbs'],
                                  num_batch_size_buckets=1 if pmap else hp['buckets']),
        bh, regularizer=reg)
  grad = fedjax.grad(per_example_loss, reg) if reg else GRAD[False]
  ref = fed_avg_lib.federated_averaging(grad, copt, sopt, bh)
  return alg, ref


def run_hyp(case):
  hp = case['hp']
  k = len(case['clusters'])
  alg, ref = _build_hyp(canonical(hp))
  d = case['d']
  datasets = [make_dataset(c, d) for c in case['pool']]
  arrays = [client_arrays(c, d) for c in case['pool']]
  sizes = sizes_of(case)
  state = alg.init([params_of(v) for v in case['clusters']])
  extra = set()
  for r, rnd in enumerate(case['rounds']):
    clients = cohort(rnd, datasets)
    old = state
    state, diag = alg.apply(old, clients)
    check_diag_keys(diag, clients, 'hyp')
    require(len(state.cluster_params) == k and len(state.opt_states) == k,
            'hyp:number_of_clusters_changed',
            f'after round {r}: {len(state.cluster_params)} params, {len(state.opt_states)} states')
    guard_bounded(state.cluster_params, 'hyp')
    old64 = [to64(p) for p in old.cluster_params]
    assigned = {}
    for i, _ in rnd:
      a = diag[cid(i)].get('cluster_id') if isinstance(diag[cid(i)], dict) else None
      require(a is not None and np.asarray(a).shape == () and 0 <= int(a) < k,
              'hyp:cluster_id_invalid', f'round {r}: client {i}: {diag[cid(i)]!r}')
      a = int(a)
      assigned[i] = a
      if sizes[i] == 0:
        continue
      x, y = arrays[i]
      # average loss = mean per-example loss + the regularizer of that cluster
      losses = [float(np.mean(ref_residual(p, x, y) ** 2)) +
                (hyp_regularizer64(p) if hp.get('reg') else 0.0) for p in old64]
      s = max(float(np.max(np.abs(x) @ np.abs(p['w']) + 0.5 * abs(p['b']) + np.abs(y)))
              for p in old64)
      tol = 1e-5 * (1.0 + s * s + (max(hyp_regularizer64(p) for p in old64) if hp.get('reg') else 0.0))
      require(losses[a] <= min(losses) + tol, 'hyp:client_not_assigned_to_minimal_loss_cluster',
              f'round {r}: client {i} assigned to {a}, float64 losses {losses}, tol {tol:.2e}')
      if sorted(losses)[1] - min(losses) <= tol:
        extra.add('near_tie')
    for j in range(k):
      members = [(i, seed) for i, seed in rnd if assigned[i] == j]
      examples = sum(sizes[i] for i, _ in members)
      if examples == 0:
        clause = ('hyp:cluster_without_clients_changed' if not members
                  else 'hyp:cluster_without_examples_changed')
        extra.add('cluster_without_clients' if not members else 'cluster_with_only_empty_clients')
        require(trees_same_bits(state.cluster_params[j], old.cluster_params[j]),
                clause, lambda: f'round {r}: cluster {j} params {old.cluster_params[j]} -> '
                                f'{state.cluster_params[j]}')
        require(trees_same_bits(state.opt_states[j], old.opt_states[j]),
                clause + ':opt_state',
                lambda: f'round {r}: cluster {j} optimizer state {old.opt_states[j]} -> '
                        f'{state.opt_states[j]}')
        continue
      # FedAvg round over exactly this cluster's clients (keys do not matter:
      # the loss ignores them and the batching seed is an integer).
      sub = [(cid(i), datasets[i], jax.random.split(jax.random.PRNGKey(seed))[1])
             for i, seed in members]
      want, _ = ref.apply(fed_avg_lib.ServerState(old.cluster_params[j], old.opt_states[j]), sub)
      got_p, want_p = to64(state.cluster_params[j]), to64(want.params)
      scale = 1.0 + max(max_abs(want_p), max_abs(old64[j]))
      tol = 2e-6 * scale
      require(c01.close(got_p, want_p, tol), 'hyp:cluster_update_differs_from_fedavg_over_its_clients',
              lambda: f'round {r}: cluster {j} clients {[i for i, _ in members]}: differ by '
                      f'{c01.diff(got_p, want_p):.3e} (tol {tol:.1e}); got {got_p} want {want_p}')
      gl = jax.tree_util.tree_leaves(state.opt_states[j])
      wl = jax.tree_util.tree_leaves(want.opt_state)
      stol = 2e-6 * (1.0 + max_abs(wl))
      require(len(gl) == len(wl) and all(
          np.asarray(a).shape == np.asarray(b).shape and
          bool(np.all(np.abs(np.asarray(a, np.float64) - np.asarray(b, np.float64)) <= stol))
          for a, b in zip(gl, wl)), 'hyp:cluster_opt_state_differs_from_fedavg_over_its_clients',
              lambda: f'round {r}: cluster {j}: {state.opt_states[j]} vs {want.opt_state}')
      if len(members) < len(rnd):
        extra.add('cluster_updated_from_a_strict_subset')
    if len(set(assigned[i] for i in assigned if sizes[i] > 0)) >= 2:
      extra.add('round_with_two_active_clusters')
  return sorted(extra)


def hyp_labels(case):
  hp = case['hp']
  ls = ['clusters:%d' % len(case['clusters']), 'server:' + HYP_SOPT[hp['sopt']]['name'],
        'rounds:%d' % len(case['rounds'])]
  if len({tuple(v) for v in case['clusters']}) < len(case['clusters']):
    ls.append('duplicate_cluster_params')
  if hp.get('reg'):
    ls.append('regularizer')
  ls.append('backend:' + hp.get('backend', 'jit'))
  return ls + returning_labels(case)


def hyp_nontrivial(case, ls):
  return len(case['rounds']) >= 3 and (
      'cluster_without_clients' in ls or 'cluster_with_only_empty_clients' in ls)


# -------------------------------------------------------------------- mimelite

MIME_OPT = [{'name': 'sgd', 'lr_exp': 0, 'momentum': 0},
            {'name': 'sgd', 'lr_exp': 2, 'momentum': 0},
            {'name': 'momentum', 'lr_exp': 1, 'momentum': 4},
            {'name': 'adam', 'lr_exp': 2, 'momentum': 0}]
MIME_CLIP_EXP = [-10, -3, -2, 10]
MIME_CLIP = [2.0 ** e for e in MIME_CLIP_EXP] + [0.0, 2.0 ** -30]   # index 4: bound 0, all clipped away; 5: a tiny bound
MIME_SERVER_LR = [1.0, 0.5, 2.0]


@functools.lru_cache(maxsize=None)
def _build_mime(key):
  hp = json.loads(key)
  return mime_lite_lib.mime_lite(
      per_example_loss, opt_of(MIME_OPT[hp['opt']]), batch_hparams(hp['batch']),
      fedjax.PaddedBatchHParams(batch_size=hp['gbs'], num_batch_size_buckets=hp['buckets']),
      server_learning_rate=MIME_SERVER_LR[hp['slr']],
      client_delta_clip_norm=MIME_CLIP[hp['clip']])


def tree_norm64(t):
  return float(np.sqrt(sum(float(np.sum(np.square(np.asarray(v, np.float64)))) for v in t.values())))


def run_mime(case):
  hp = case['hp']
  alg = _build_mime(canonical(hp))
  d = case['d']
  datasets = [make_dataset(c, d) for c in case['pool']]
  arrays = [client_arrays(c, d) for c in case['pool']]
  sizes = sizes_of(case)
  bound = MIME_CLIP[hp['clip']]
  slr = MIME_SERVER_LR[hp['slr']]
  spec = MIME_OPT[hp['opt']]
  ropt = c01.ref_optimizer(spec)
  bh = batch_hparams(hp['batch'])
  p0 = params_of(case['p0'])
  state = alg.init(p0)
  rstate = ropt.init(to64(p0))
  rel = 1e-4 if spec['name'] == 'adam' else 2e-5
  extra = set()
  for r, rnd in enumerate(case['rounds']):
    clients = cohort(rnd, datasets)
    old = to64(state.params)
    state, diag = alg.apply(state, clients)
    check_diag_keys(diag, clients, 'mimelite')
    new = to64(state.params)
    # float64 reference of this round, restarted from the observed params
    scale = 1.0 + max_abs(old)
    acc = {key: np.zeros_like(v) for key, v in old.items()}
    total = 0
    for i, _ in rnd:
      p = dict(old)
      for batch in datasets[i].shuffle_repeat_batch(bh):
        _, p = ropt.apply(ref_grad(p, batch), rstate, p)
        scale = max(scale, 1.0 + max_abs(p))
      delta = {key: old[key] - p[key] for key in old}
      norm = tree_norm64(delta)
      f = 1.0 if norm <= bound else bound / norm
      if norm > bound * (1 + 1e-3):
        extra.add('clipped_client')
      elif norm > 0:
        extra.add('unclipped_moving_client')
      for key in acc:
        acc[key] = acc[key] + sizes[i] * f * delta[key]
      total += sizes[i]
      # the diagnostics of the real run: nothing above the bound is aggregated
      dg = diag[cid(i)]
      require(isinstance(dg, dict) and 'clipped_delta_l2_norm' in dg,
              'mimelite:clipped_norm_diagnostic_missing', f'round {r}: client {i}: {dg!r}')
      cn = float(np.asarray(dg['clipped_delta_l2_norm'], np.float64))
      require(np.isfinite(cn) and cn <= bound * (1 + 1e-5), 'mimelite:clipped_client_norm_exceeds_bound',
              f'round {r}: client {i}: clipped_delta_l2_norm {cn!r} bound {bound!r}')
    mean = {key: (acc[key] / total if total else np.zeros_like(acc[key])) for key in acc}
    want = {key: old[key] - slr * mean[key] for key in old}
    require(all_finite(new), 'mimelite:non_finite_params', f'round {r}: {new}')
    applied = tree_norm64({key: old[key] - new[key] for key in old})
    dim = sum(int(np.size(v)) for v in old.values())
    slack = 4.0 * EPS32 * max(max_abs(old), max_abs(new)) * np.sqrt(dim)
    require(applied <= slr * bound * (1 + 1e-5) + slack, 'mimelite:applied_update_norm_exceeds_bound',
            f'round {r}: |params_old - params_new| = {applied!r} > server_lr {slr} * bound {bound!r} '
            f'(+ slack {slack:.2e})')
    # (only now: a bounded step per round is the property, not an assumption)
    guard_bounded(new, 'mimelite')
    tol = rel * scale
    require(c01.close(new, want, tol), 'mimelite:update_differs_from_mean_of_clipped_client_deltas',
            lambda: f'round {r}: differ by {c01.diff(new, want):.3e} (tol {tol:.1e}); '
                    f'got {new} want {want}; bound {bound!r}')
    # server optimizer state of the reference: base optimizer on the full-batch
    # gradient over the cohort's examples at the old params
    if total:
      xs = np.concatenate([arrays[i][0] for i, _ in rnd])
      ys = np.concatenate([arrays[i][1] for i, _ in rnd])
      g = ref_grad(old, {'x': xs, 'y': ys})
    else:
      g = {key: np.zeros_like(v) for key, v in old.items()}
    rstate, _ = ropt.apply(g, rstate, old)
  return sorted(extra)


def mime_labels(case):
  hp = case['hp']
  ls = ['clip:%g' % MIME_CLIP[hp['clip']], 'base:' + MIME_OPT[hp['opt']]['name'],
        'server_lr:%g' % MIME_SERVER_LR[hp['slr']], 'rounds:%d' % len(case['rounds'])]
  if any(len(rnd) >= 2 for rnd in case['rounds']):
    ls.append('multi_client_round')
  for c in case['pool']:
    if c.get('yexp'):
      ls.append('client_update_of_magnitude_2^%d' % c['yexp'])
  return ls + returning_labels(case)


def mime_nontrivial(case, ls):
  return len(case['rounds']) >= 3 and 'clipped_client' in ls


# ---------------------------------------------------------- ignore_grads_haiku

IG_SHAPES = {'w': (2,), 'b': (), 's': (1, 2)}
IG_OPTS = ['adam', 'momentum', 'sgd', 'nesterov', 'adagrad', 'rmsprop', 'adamw', 'sgd_decay']
IG_NAN, IG_INF = 1000, 1001


def ig_leaf(name, ints, special=False):
  shape = IG_SHAPES[name]
  n = int(np.prod(shape)) if shape else 1
  vals = []
  for v in ints[:n]:
    if special and v == IG_NAN:
      vals.append(np.nan)
    elif special and v == IG_INF:
      vals.append(np.inf)
    else:
      vals.append(v / 8.0)
  return jnp.asarray(np.asarray(vals, np.float32).reshape(shape))


def ig_tree(modules, values, special=False):
  """values: {module: {name: [ints]}} -> haiku-style {module: {name: array}}."""
  return {m['name']: {n: ig_leaf(n, values[m['name']][n], special) for n in m['leaves']}
          for m in modules}


def ig_filter(tree, ignored):
  out = {}
  for m, leaves in tree.items():
    kept = {n: v for n, v in leaves.items() if (m, n) not in ignored}
    if kept:
      out[m] = kept
  return out


@functools.lru_cache(maxsize=None)
def _decaying_optimizer(name, lr_exp):
  """Optimizers with decoupled weight decay: they move a parameter even when its
  gradient is zero."""
  import optax
  lr = 2.0 ** -lr_exp
  if name == 'adamw':
    return opt_lib.create_optimizer_from_optax(
        optax.adamw(lr, b1=0.5, b2=0.75, eps=1e-3, weight_decay=0.25))
  return opt_lib.create_optimizer_from_optax(
      optax.chain(optax.add_decayed_weights(0.5), optax.sgd(lr)))


def run_ignore(case):
  modules = case['modules']
  ignored = {(m, n) for m, n in case['ignore']}
  if case['opt'] in ('adamw', 'sgd_decay'):
    base = _decaying_optimizer(case['opt'], case['lr_exp'])
  else:
    base = opt_of({'name': case['opt'], 'lr_exp': case['lr_exp'], 'momentum': 4})
  opt = opt_lib.ignore_grads_haiku(base, [(m, n) for m, n in case['ignore']])
  params = ig_tree(modules, case['params'])
  fk = case.get('frozen_kind')
  if fk:
    # frozen entries as a host would hold them: NumPy tables in a dtype the
    # accelerator side does not use (a float64 embedding, an int64 index buffer)
    for m, n in ignored:
      v = np.asarray(params[m][n], np.float64)
      params[m][n] = ((v + 0.1) if fk == 'np_f64' else
                      (v.astype(np.int64) + 2 ** 40) if fk == 'np_i64' else v.astype(np.float16))
  state = opt.init(params)
  ref_params = ig_filter(params, ignored)
  ref_state = base.init(ref_params)
  require(trees_same_bits(state, ref_state), 'ignore:init_state_differs_from_base_on_filtered_tree',
          lambda: f'{state} vs {ref_state}')
  for t, gvals in enumerate(case['steps']):
    grads = ig_tree(modules, gvals, special=True)
    # non-finite gradients are only ever given to ignored leaves
    state, new = opt.apply(grads, state, params)
    ref_state, ref_params = base.apply(ig_filter(grads, ignored), ref_state, ref_params)
    require(set(new) == set(params) and all(set(new[m]) == set(params[m]) for m in params),
            'ignore:output_structure_changed',
            lambda: f'step {t}: {jax.tree_util.tree_structure(new)} vs '
                    f'{jax.tree_util.tree_structure(params)}')
    for m in params:
      for n in params[m]:
        got = new[m][n]
        require(got is not None, 'ignore:leaf_missing_in_output', f'step {t}: {m}/{n}')
        if (m, n) in ignored:
          require(same_bits(got, params[m][n]), 'ignore:ignored_leaf_changed',
                  lambda: f'step {t}: {m}/{n}: {np.asarray(params[m][n]).tolist()} -> '
                          f'{np.asarray(got).tolist()}')
        else:
          require(same_bits(got, ref_params[m][n]), 'ignore:trainable_leaf_differs_from_base_optimizer',
                  lambda: f'step {t}: {m}/{n}: got {np.asarray(got).tolist()} base '
                          f'{np.asarray(ref_params[m][n]).tolist()}')
    require(trees_same_bits(state, ref_state), 'ignore:opt_state_differs_from_base_optimizer',
            lambda: f'step {t}: {state} vs {ref_state}')
    params = {m: dict(new[m]) for m in new}
  return []


def ig_labels(case):
  pairs = [(m['name'], n) for m in case['modules'] for n in m['leaves']]
  ign = {(m, n) for m, n in case['ignore']}
  ls = ['opt:' + case['opt'], 'modules:%d' % len(case['modules']), 'steps:%d' % len(case['steps'])]
  ls.append('ignored:none' if not ign else ('ignored:all' if len(ign) == len(pairs) else 'ignored:some'))
  mods_ign = {m for m, _ in ign}
  if any(m in mods_ign and (m, n) not in ign for m, n in pairs):
    ls.append('module_partly_ignored')
  if case.get('frozen_kind') and ign:
    ls.append('frozen_entries:' + case['frozen_kind'])
  if any(all((m['name'], n) in ign for n in m['leaves']) for m in case['modules']) and ign:
    ls.append('module_fully_ignored')
  if any(v in (IG_NAN, IG_INF) for g in case['steps'] for lv in g.values() for vs in lv.values() for v in vs):
    ls.append('non_finite_grad_on_ignored_leaf')
  return ls


def ig_nontrivial(case, ls):
  return 'ignored:some' in ls and len(case['steps']) >= 2


# ------------------------------------------------------------------ strategies

def draw_pool(draw, d, npool, domains=0):
  pool = []
  used = list(range(domains))
  if domains and draw(st.sampled_from([False, False, True])):
    # one domain that no client ever has
    used.remove(draw(st.sampled_from(used)))
  for _ in range(npool):
    # (Hypothesis favours the first element: keep the plain values in front)
    n = draw(st.sampled_from([3, 2, 4, 0, 1, 5, 7, 3]))
    rows = draw(st.lists(st.integers(-4, 4), min_size=n * (d + 1), max_size=n * (d + 1)))
    ymul = draw(st.sampled_from([1, 2, 4]))
    for e in range(n):
      rows[e * (d + 1) + d] *= ymul
    client = {'rows': rows}
    if domains:
      home = draw(st.lists(st.sampled_from(used), min_size=1, max_size=3, unique=True))
      client['dom'] = draw(st.lists(st.sampled_from(home), min_size=n, max_size=n))
    pool.append(client)
  if all(not c['rows'] for c in pool):
    pool[0]['rows'] = [1] * (d + 1)
    if domains:
      pool[0]['dom'] = [used[0]]
  return pool


def draw_rounds(draw, tier, npool):
  nr = draw(st.sampled_from([4, 3, 5, 6, 3, 4, 5, 6, 2, 1] if tier == 'quick'
                           else [4, 3, 5, 6, 8, 10, 7, 9, 2, 1]))
  rounds = []
  for _ in range(nr):
    k = min(npool, draw(st.sampled_from([2, 1, 3, 2])))
    members = draw(st.lists(st.integers(0, npool - 1), min_size=k, max_size=k, unique=True))
    rounds.append([[i, draw(st.integers(0, 2 ** 20))] for i in members])
  return rounds


def draw_batch(draw):
  return {'bs': draw(st.sampled_from([2, 3])), 'epochs': draw(st.sampled_from([1, 2])),
          'steps': draw(st.sampled_from([None, None, 1, 3])), 'seed': draw(st.integers(0, 3))}


def preset_batch(i):
  return {'bs': [2, 3][i % 2], 'epochs': [1, 2][(i // 2) % 2],
          'steps': [None, 3, None, 1][(i * 3) % 4], 'seed': i % 4}


# Building an algorithm creates fresh jitted closures, and compiling them costs
# 50-100x the price of a round.  The quick tier therefore draws the
# hyper-parameters from a fixed list of presets (every menu value and every
# (domains, window) pair occurs) so that a shard compiles each preset once and
# spends its budget on histories; the thorough tier also draws free combinations.

def _ag_preset(i):
  return {'domains': [2, 3, 4][i % 3], 'window': [1, 2, 3, 1][(i // 3) % 4],
          'dlr_exp': [0, 1, 3, 6][(i * 3 + 1) % 4], 'dalg': 'none' if i % 6 == 4 else 'eg',
          'init_w': (i + i // 3) % 3,
          'init_win': ['default', 'with_zero', 'ones'][(i + 2 * (i // 3)) % 3],
          'copt': (i * 2 + 1) % 3, 'sopt': (i // 2) % 3,
          'batch': preset_batch(i), 'dbs': [2, 4][(i // 3) % 2]}


def _apfl_preset(i):
  return {'copt': i % len(APFL_COPT), 'sopt': (i // 2) % 2,
          'coef': [4, 0, 2, 8, 6, 1, 7, 4][i % 8], 'noisy': i % 3 == 1,
          'batch': preset_batch(i + 1)}


def _hyp_preset(i):
  return {'copt': i % 3, 'sopt': [0, 1, 2][i % 3], 'mbs': [2, 4][(i // 2) % 2],
          'buckets': [1, 2][i % 2], 'batch': preset_batch([2, 3, 5][i % 3]),
          'reg': i % 2, 'backend': ['jit', 'pmap', 'jit', 'jit', 'pmap'][i % 5]}


def _mime_preset(i):
  return {'opt': i % 4, 'clip': [1, 0, 2, 1, 2, 3, 4][i % 7], 'slr': [0, 1, 2][i % 3],
          'gbs': [2, 4][(i // 2) % 2], 'buckets': [1, 2][i % 2], 'batch': preset_batch(i + 3)}


AG_PRESETS = [_ag_preset(i) for i in range(9)]
APFL_PRESETS = [_apfl_preset(i) for i in range(7)]
HYP_PRESETS = [_hyp_preset(i) for i in range(5)]
MIME_PRESETS = [_mime_preset(i) for i in range(7)]
# a bound of 2^-30 (plain SGD, server lr 1): used with updates of about that size
MIME_TINY = {'opt': 0, 'clip': 5, 'slr': 0, 'gbs': 2, 'buckets': 1, 'batch': preset_batch(4)}


def draw_hp(draw, tier, presets, free):
  if tier == 'quick' or draw(st.booleans()):
    return json.loads(json.dumps(draw(st.sampled_from(presets))))
  return free(draw)


def draw_common(draw, tier, domains=0):
  d = draw(st.sampled_from([2, 1]))
  npool = draw(st.sampled_from([3, 2, 4, 3]))
  return {'d': d, 'pool': draw_pool(draw, d, npool, domains),
          'p0': draw(st.lists(st.integers(-16, 16), min_size=d + 1, max_size=d + 1)),
          'rounds': draw_rounds(draw, tier, npool)}


def _ag_free(draw):
  return {'domains': draw(st.sampled_from([2, 3, 4])), 'window': draw(st.sampled_from([1, 1, 2, 3])),
          'dlr_exp': draw(st.sampled_from([0, 1, 3, 6])),
          'dalg': draw(st.sampled_from(['eg', 'eg', 'eg', 'none'])),
          'init_w': draw(st.integers(0, 2)),
          'init_win': draw(st.sampled_from(['default', 'ones', 'with_zero'])),
          'copt': draw(st.integers(0, len(AG_COPT) - 1)),
          'sopt': draw(st.integers(0, len(AG_SOPT) - 1)),
          'batch': draw_batch(draw), 'dbs': draw(st.sampled_from([2, 4]))}


@st.composite
def agnostic_cases(draw, tier):
  hp = draw_hp(draw, tier, AG_PRESETS, _ag_free)
  case = {'alg': 'agnostic', 'hp': hp}
  case.update(draw_common(draw, tier, hp['domains']))
  if draw(st.integers(0, 3)) == 0:
    case['carried_window'] = draw(st.sampled_from([n for n in (1, 2, 3, 4) if n != hp['window']]))
  return case


def _apfl_free(draw):
  return {'copt': draw(st.integers(0, len(APFL_COPT) - 1)),
          'sopt': draw(st.integers(0, len(APFL_SOPT) - 1)),
          'coef': draw(st.sampled_from([0, 1, 2, 4, 4, 6, 7, 8])),
          'noisy': draw(st.booleans()), 'batch': draw_batch(draw)}


@st.composite
def apfl_cases(draw, tier):
  case = {'alg': 'apfl', 'hp': draw_hp(draw, tier, APFL_PRESETS, _apfl_free)}
  case.update(draw_common(draw, tier))
  # clients evaluated (packaged APFL evaluation) after each round: mostly none
  npool = len(case['pool'])
  case['evals'] = [
      draw(st.one_of(st.just([]), st.just([]),
                     st.lists(st.integers(0, npool - 1), min_size=1, max_size=2, unique=True)))
      for _ in case['rounds']]
  return case


def _hyp_free(draw):
  return {'copt': draw(st.integers(0, len(HYP_COPT) - 1)),
          'sopt': draw(st.sampled_from([0, 0, 1, 1, 2])),
          'mbs': draw(st.sampled_from([2, 4])), 'buckets': draw(st.sampled_from([1, 2])),
          'batch': draw_batch(draw), 'reg': draw(st.integers(0, 1)),
          'backend': draw(st.sampled_from(['jit', 'jit', 'pmap']))}


@st.composite
def hyp_cases(draw, tier):
  case = {'alg': 'hypcluster', 'hp': draw_hp(draw, tier, HYP_PRESETS, _hyp_free)}
  case.update(draw_common(draw, tier))
  d = case['d']
  k = draw(st.sampled_from([3, 2, 4]))
  clusters = [case.pop('p0')]
  while len(clusters) < k:
    if draw(st.sampled_from([False, False, False, False, False, True])):
      clusters.append(list(draw(st.sampled_from(clusters))))   # exact tie
    else:
      clusters.append(draw(st.lists(st.integers(-16, 16), min_size=d + 1, max_size=d + 1)))
  case['clusters'] = clusters
  return case


def _mime_free(draw):
  return {'opt': draw(st.integers(0, len(MIME_OPT) - 1)),
          'clip': draw(st.sampled_from([0, 1, 1, 2, 2, 3, 4])),
          'slr': draw(st.sampled_from([0, 0, 1, 2])),
          'gbs': draw(st.sampled_from([2, 4])), 'buckets': draw(st.sampled_from([1, 2])),
          'batch': draw_batch(draw)}


@st.composite
def mime_cases(draw, tier):
  case = {'alg': 'mimelite', 'hp': draw_hp(draw, tier, MIME_PRESETS, _mime_free)}
  case.update(draw_common(draw, tier))
  # A client whose targets -- and hence update -- are finite but enormous: the
  # squared norm of the update overflows float32 (2^68 and up) or just does not
  # (2^40 .. 2^64).  Only with base optimizers that keep no squared gradients
  # (Adam's second moment would overflow, which the property does not cover).
  if draw(st.integers(0, 7)) == 0:
    # everything tiny: clip bound 2^-30, zero initial parameters, targets of
    # magnitude 2^-28 -- client updates of a few bounds, to be clipped like any
    case['hp'] = json.loads(json.dumps(MIME_TINY))
    case['p0'] = [0] * len(case['p0'])
    for c in case['pool']:
      c['yexp'] = -28
  elif MIME_OPT[case['hp']['opt']]['name'] != 'adam' and draw(st.sampled_from([0, 0, 0, 1])):
    full = [i for i, c in enumerate(case['pool']) if c['rows']]
    case['pool'][draw(st.sampled_from(full))]['yexp'] = draw(st.sampled_from([68, 72, 64, 40, 60, 80, 100]))
  return case


@st.composite
def ignore_cases(draw, tier):
  nmod = draw(st.sampled_from([2, 3, 1]))
  modules = []
  for j in range(nmod):
    leaves = draw(st.sampled_from([['w', 'b'], ['w'], ['b', 'w'], ['w', 'b', 's'], ['s']]))
    modules.append({'name': ['lin', 'lin/~/sub', 'emb'][j], 'leaves': leaves})
  pairs = [[m['name'], n] for m in modules for n in m['leaves']]
  mode = draw(st.sampled_from(['some', 'some', 'some', 'some', 'none', 'all']))
  ignore = [p for p in pairs
            if mode == 'all' or (mode == 'some' and draw(st.booleans()))]
  if mode == 'some' and len(pairs) >= 2:
    # a proper, non-empty subset
    if not ignore:
      ignore = [draw(st.sampled_from(pairs))]
    elif len(ignore) == len(pairs):
      ignore.remove(draw(st.sampled_from(pairs)))
  if draw(st.booleans()):
    ignore = ignore[::-1]
  ign = {tuple(p) for p in ignore}

  def values(special):
    out = {}
    for m in modules:
      out[m['name']] = {}
      for n in m['leaves']:
        size = int(np.prod(IG_SHAPES[n])) if IG_SHAPES[n] else 1
        elem = st.integers(-32, 32)
        if special and (m['name'], n) in ign:
          elem = st.integers(-32, 32) | st.sampled_from([IG_NAN, IG_INF])
        out[m['name']][n] = draw(st.lists(elem, min_size=size, max_size=size))
    return out

  nsteps = draw(st.sampled_from([2, 3, 1, 4, 2, 3] if tier == 'quick' else [3, 2, 4, 6, 8, 1]))
  steps = [values(True) for _ in range(nsteps)]
  return {'alg': 'ignore_grads_haiku', 'modules': modules, 'ignore': ignore,
          'opt': draw(st.sampled_from(IG_OPTS)), 'lr_exp': draw(st.integers(0, 4)),
          'params': values(False), 'steps': steps,
          'frozen_kind': draw(st.sampled_from([None, None, None, 'np_f64', 'np_i64', 'np_f16']))}


CHECKS = [
    Check(name='agnostic_history', run=run_agnostic, strategy=agnostic_cases,
          labels=ag_labels, nontrivial=ag_nontrivial,
          budget={'quick': 360, 'thorough': 4800}, time_share=1.3,
          doc='AgnosticFedAvg after every round: domain weights finite, >= 0, sum 1; window of '
              'constant length whose newest entry is the cohort\'s per-domain example count and '
              'whose older entries shifted by one (starved domains, window 1, never-used domain)'),
    Check(name='apfl_history', run=run_apfl, strategy=apfl_cases,
          labels=apfl_labels, nontrivial=apfl_nontrivial,
          budget={'quick': 288, 'thorough': 4000}, time_share=1.5,
          doc='APFL after every round: every stored interpolation coefficient in [0,1] (client lr '
              'up to 2), client-state table == set of clients that have participated'),
    Check(name='hypcluster_history', run=run_hyp, strategy=hyp_cases,
          labels=hyp_labels, nontrivial=hyp_nontrivial,
          budget={'quick': 320, 'thorough': 4800}, time_share=1.5,
          doc='HypCluster every round: reported cluster minimises the float64 reference loss; a '
              'cluster with examples == FedAvg round over exactly its clients; clusters without '
              'clients / examples keep params and optimizer state bit-identical'),
    Check(name='mimelite_history', run=run_mime, strategy=mime_cases,
          labels=mime_labels, nontrivial=mime_nontrivial,
          budget={'quick': 320, 'thorough': 4800}, time_share=1.3,
          doc='MimeLite every round: clipped client norms <= bound, applied update norm <= '
              'server_lr * bound, update == float64 mean of per-client deltas clipped to the bound'),
    Check(name='ignore_grads_haiku', run=run_ignore, strategy=ignore_cases,
          labels=ig_labels, nontrivial=ig_nontrivial,
          budget={'quick': 640, 'thorough': 9600}, time_share=0.6,
          doc='ignore_grads_haiku over successive apply() calls: ignored leaves bit-identical, '
              'other leaves and optimizer state bit-equal to the base optimizer on the filtered tree'),
]
