"""C11 -- Stochastic quantizers are unbiased, bounded, finite and accounted.

Observed through fedjax.aggregators.compression:
  binary_stochastic_quantize, uniform_stochastic_quantize, terngrad_quantize
  (vmapped over K keys derived from one generated seed, plus eager calls), and
  the five compression aggregators (uniform, uniform+arithmetic coding, rotated
  uniform, structured DRIVE, TernGrad) through Aggregator.init/apply.

Oracle: float64 numpy reference grid / clipping / weighted mean; the
unbiasedness clauses are statistical tests with a stated false-alarm
probability (Hoeffding, see ASSUMPTIONS).  All aggregator clauses are
independent of *how* keys are derived per client and round.
"""
import functools
import math

import numpy as np
from hypothesis import strategies as st

import haiku as hk
import jax
import jax.numpy as jnp

from fedjax.aggregators import compression as C
from fedjax.aggregators import walsh_hadamard as WH
from fedjax.core import tree_util

from vf.core import Check, Violation, require

PROPERTY_ID = 'C11'
NEEDS_TF = False
LEVEL = 'exploration'
RULE = (
    'Quantizer checks: Hypothesis draws a quantizer (uniform / binary / '
    'TernGrad), a shape from a small menu (size 1..256, rank <= 3; thorough up '
    'to 4096), a level count L (2..64, plus 125/256/1024/65536), a value class '
    '{generic, constant, all-zero, on-grid (min + j*step built from integers), '
    'two-valued, huge dynamic range 2^-99..2^125, near-equal (a few ulps '
    'apart), sparse outliers} with explicit float32 values, and an integer '
    'seed; the quantizer is vmapped over K keys = split(PRNGKey(seed), K) '
    '(K = 4000 quick / 50000 thorough for size <= 64, fewer for large sizes) '
    'and, for shape [3] (thorough also [2,3,4]), additionally called eagerly (un-jitted) for 2 keys. Aggregator checks: generated '
    'histories of 1-4 rounds over a tree template (1-3 leaves), 1-5 clients '
    'per round with explicit weights (positive / some zero / all zero / '
    'equal), per-leaf relation between clients (independent / identical / '
    'collinear) and the same value classes (all-zero and constant leaves '
    'frequent); vmapped initial keys for the aggregate-unbiasedness test; '
    'designed mid-grid probe trees for the randomness-independence test. '
    'Non-trivial: quantizer case with >= 3 distinct values and >= 1 coordinate '
    'strictly between grid points (identity check: >= 2 distinct values on the '
    'grid); aggregator history with a multi-leaf tree and >= 2 rounds (or >= 2 '
    'effective clients for the one-round statistical/independence checks). '
    'distinct = distinct canonical case JSON.')
RULE += (
    ' '
    'Later widenings: explicit v_min / v_max thresholds; bfloat16 / float16 inputs and float3'
    '2 inputs whose spread is a few ulps of a large offset for the binary quantizer; per-(rou'
    'nd, position) independence through one-hot weights, one case in six over a cohort of 150'
    ' clients; rotated / DRIVE histories in a child interpreter with JAX_THREEFRY_PARTITIONAB'
    'LE=0.')
RULE += (
    ' '
    'Also: the quantizers called with only one of v_min / v_max.')
ASSUMPTIONS = [
    'domain: float32 values that are 0 or normal with 2^-99 <= |x| <= 2^125 '
    '(~1.6e-30..4.3e37) for the uniform/binary quantizers, so that max-min <= '
    '2^126 (its float32 reciprocal is still a normal number) and differences of '
    'distinct values are normal numbers; vectors with max-min > 2^126 are two '
    'open findings of the uniform quantizer (all coordinates at the minimum; NaN '
    'once the range overflows), excluded by this bound and re-confirmed through '
    'their witness replays; '
    'TernGrad and DRIVE square their input: 2^-40 <= |x| <= 2^50 there; '
    'aggregator leaves |x| <= 2^100 and weights in {0} u [1/8, 64] with <= 5 '
    'clients so that weighted sums stay finite; no subnormals, NaN or inf',
    'grid tolerance: outputs are compared with the float64 grid min + j*step '
    'within eps = 16*u*max(|min|,|max|) + 2^-125 (u = 2^-24: three roundings of '
    'the rescaling plus the final add, and XLA:CPU flush-to-zero); the admitted '
    'levels are floor(t - d)..ceil(t + d) with d = 8*u*(L-1) because the float32 '
    'position t can be off by 4*u*t; for t away from an integer these are '
    'exactly the two neighbouring levels',
    'identity: constant and all-zero vectors must be returned exactly by every '
    'draw; two-valued vectors exactly by the binary quantizer. On-grid vectors '
    'under the uniform quantizer: XLA:CPU evaluates x/scalar as x*(1/scalar), '
    'so even an exactly representable position j/(L-1) is off by a few ulps in '
    'float32 and the Bernoulli threshold is within p_max = 32*u*(L-1) + 2^-22 of '
    '0 or 1 instead of exactly 0 or 1; asserted is therefore: every draw lies on '
    'a neighbouring level (within eps), and the number of draws in which a '
    'coordinate moved is at most the m with C(K,m+1)*p_max^(m+1) <= 1e-17 '
    '(union bound on the binomial tail) -- typically 4..15 of 4000',
    'statistical oracle: for K i.i.d. keys every per-key value of a coordinate '
    'lies in an interval of width W (grid step, max-min for binary, s for '
    'TernGrad, sum_i w_i*step_i/sum_i w_i for an aggregate; this is asserted '
    'for every draw), so Hoeffding gives P(|mean - E| > t) <= 2*exp(-2*K*t^2/W^2); '
    't = W*sqrt(20/K) makes this 2*exp(-40) = 8.5e-18 per coordinate; a quick '
    'run tests < 1e6 and a thorough run < 1e8 coordinates, so the probability '
    'of a false alarm in a whole run is < 1e-9. The run is deterministic per '
    'VERIF_SEED. Added to t: 32*u*max|v| + 2^-125 for the float32 evaluation '
    'of threshold and output (includes the 2^-23 granularity of '
    'jax.random.uniform)',
    'TernGrad reference in float64: sigma = population std, c = clip(v, '
    '+-2.5*sigma), s = max|c|; float32 sigma differs from it by at most '
    '4*(d+8)*u*max|v| + 2^-62 (mean rounding enters sigma absolutely, squares '
    'below 2^-126 flush to zero), which is the tolerance on s and on the '
    'clipped target',
    'rotated aggregator: only key-independent bounds are asserted: per leaf '
    '||agg - weighted mean||_2 <= sum_i w_i*(2*sqrt(d2)*||x_i||/(L-1) + '
    '8*d2^1.5*u*||x_i||)/sum_i w_i with d2 the padded length (max-min of the '
    'rotated vector <= 2*||x||); sharp for the large level counts in the '
    'menu. No statistical test for the rotated and DRIVE aggregators (their '
    'apply cannot be traced, an eager loop over thousands of keys is outside '
    'the budget); DRIVE is checked through <x_hat, x> = ||x||^2 (collinear '
    'clients), the norm bound ||x_hat|| <= sqrt(d2)*||x|| and zero/finite '
    'clauses',
    'different randomness per client / round is decided on designed probe '
    'vectors with >= 62 coordinates at probability 1/2: two independent draws '
    'coincide with probability <= 2^-62; the per-client test compares the '
    'aggregate of identical clients under weights (1,..,1) and (1,3,..) with '
    'the same state (identical iff clients share their randomness) and assumes '
    'only that the randomness does not depend on the weights',
    'bit accounting: num_bits is accumulated in float32 by the code; the '
    'per-round increment is compared with the float64 formula within '
    '8*u*(total after the round) + 1e-3; arithmetic coding: exact formula '
    'recomputed from the aggregate when it equals the single quantized tree '
    '(one client, weight 1), otherwise the bound k<=min(L,d), H<=log2 k',
    'recomposition of the aggregate from the public quantize functions with '
    'the key schedule used today is only reported as a label '
    '(recomposed_exact / key_schedule_changed), never as a violation',
    'fixed finding uniform-draw-exact-zero (repo commit 244a2ab): when '
    'jax.random.uniform returned exactly 0.0 (probability 2^-23 per '
    'coordinate) the binary quantizer moved a coordinate at the minimum to the '
    'maximum; such keys are now INCLUDED in the identity clause and the witness '
    'stays in replays/C11 as a regression case',
]

U = 2.0 ** -24
TINY = 2.0 ** -126
LN2P = 40.0            # ln(2/p) of the Hoeffding tests, p = 8.5e-18
F32 = np.float32


# ===================================================================== helpers

def hoeffding_t(width, k):
  return width * math.sqrt(LN2P / (2.0 * k))


def vec_from(values, shape):
  size = int(np.prod(shape)) if shape else 1
  return np.resize(np.asarray(values, dtype=F32), size).reshape(tuple(shape))


def keys_from(seed, k):
  return jax.random.split(jax.random.PRNGKey(seed), k)


def k_for(tier, size):
  if tier == 'quick':
    return 4000 if size <= 64 else (1000 if size <= 1024 else 256)
  return 50000 if size <= 64 else (4000 if size <= 1024 else 1000)


@functools.lru_cache(maxsize=None)
def vmapped(q, shape):
  """jit(vmap over keys) of the public quantize function; L is traced."""
  del shape  # part of the cache key only; jit specialises on it anyway
  if q == 'uniform':
    f = lambda keys, v, lv: jax.vmap(
        lambda k: C.uniform_stochastic_quantize(v, lv, k))(keys)
  elif q == 'binary':
    f = lambda keys, v, lv: jax.vmap(
        lambda k: C.binary_stochastic_quantize(v, k))(keys)
  elif q == 'terngrad':
    f = lambda keys, v, lv: jax.vmap(lambda k: C.terngrad_quantize(v, k))(keys)
  else:
    raise ValueError(q)
  return jax.jit(f)


@functools.lru_cache(maxsize=None)
def zero_draw_fn(shape):
  return jax.jit(lambda keys: jax.vmap(
      lambda k: jnp.any(jax.random.uniform(k, shape) == 0.0))(keys))


def eager(q, v, levels, key):
  if q == 'uniform':
    return C.uniform_stochastic_quantize(v, levels, key)
  if q == 'binary':
    return C.binary_stochastic_quantize(v, key)
  return C.terngrad_quantize(v, key)


def draws(case):
  """Returns (v float32 ndarray, out [K]+shape float64, eager list)."""
  shape = tuple(case['shape'])
  v = vec_from(case['values'], shape)
  keys = keys_from(case['seed'], case['K'])
  jv = jnp.asarray(v)
  out = vmapped(case['q'], shape)(keys, jv, case['levels'])
  out = np.asarray(out)
  require(out.shape == (case['K'],) + shape and out.dtype == F32,
          'output_shape_or_dtype', f'{out.dtype}{out.shape}')
  eag = []
  for i in (sorted({0, case['K'] - 1}) if case.get('eager') else []):
    o = np.asarray(eager(case['q'], jv, case['levels'], keys[i]))
    require(o.shape == shape and o.dtype == F32, 'output_shape_or_dtype',
            f'eager {o.dtype}{o.shape}')
    eag.append(o.astype(np.float64))
  return v, out.astype(np.float64), eag, keys


class Grid:
  """float64 reference grid of the uniform (levels=L) / binary (L=2) quantizer."""

  def __init__(self, v, levels):
    v64 = np.asarray(v, np.float64)
    self.v = v64
    self.lo = float(v64.min())
    self.hi = float(v64.max())
    self.n = levels - 1
    self.range = self.hi - self.lo
    self.step = self.range / self.n
    self.scale = max(abs(self.lo), abs(self.hi))
    self.eps = 16 * U * self.scale + 2 * TINY
    if self.range == 0:
      self.t = np.zeros_like(v64)
    else:
      self.t = (v64 - self.lo) / self.range * self.n
    d = 8 * U * self.n
    self.jlo = np.clip(np.floor(self.t - d), 0, self.n)
    self.jhi = np.clip(np.ceil(self.t + d), 0, self.n)
    frac = self.t - np.floor(self.t)
    self.between = (frac > 1e-3) & (frac < 1 - 1e-3)
    # width of the interval that contains every admitted value of a coordinate
    self.width = (self.jhi - self.jlo) * self.step + 2 * self.eps

  def level(self, j):
    return self.lo + j * self.step

  def check_members(self, o, prefix, what):
    """o: [..., *shape] float64 outputs."""
    require(bool(np.isfinite(o).all()), f'{prefix}:nonfinite',
            lambda: f'{what}: {o[~np.isfinite(o)][:4].tolist()} for v={self.v.ravel()[:8].tolist()}')
    if self.range == 0:
      require(bool((o == self.lo).all()), f'{prefix}:constant_changed',
              lambda: f'{what}: constant {self.lo!r} -> {np.unique(o)[:4].tolist()}')
      return
    j = np.clip(np.rint((o - self.lo) / self.step), self.jlo, self.jhi)
    err = np.abs(o - self.level(j))
    bad = err > self.eps
    if bad.any():
      idx = tuple(int(x) for x in np.argwhere(bad)[0])
      coord = idx[-self.v.ndim:] if self.v.ndim else ()
      raise Violation(
          f'{prefix}:not_a_neighbouring_level',
          f'{what}: draw/coord {idx}: output {o[idx]!r} for input '
          f'{self.v[coord]!r}; min {self.lo!r} max {self.hi!r} levels {self.n + 1} '
          f'admitted levels {self.jlo[coord]}..{self.jhi[coord]} = '
          f'{self.level(self.jlo[coord])!r}..{self.level(self.jhi[coord])!r}')
    require(bool(((o >= self.lo - self.eps) & (o <= self.hi + self.eps)).all()),
            f'{prefix}:out_of_range', what)
    require(bool((np.abs(o - self.v) <= self.step * (1 + 16 * U * self.n) + 2 * self.eps).all()),
            f'{prefix}:error_exceeds_step', what)


def levels_of(case):
  return 2 if case['q'] == 'binary' else case['levels']


# ============================================================ quantizer checks

def run_grid(case):
  v, out, eag, _ = draws(case)
  g = Grid(v, levels_of(case))
  g.check_members(out, 'grid', 'vmapped')
  for o in eag:
    g.check_members(o, 'grid', 'eager')
  if case['q'] == 'binary':
    vals = np.unique(np.concatenate([out.ravel()] + [o.ravel() for o in eag]))
    require(set(vals.tolist()) <= {g.lo, g.hi}, 'grid:binary_not_min_or_max',
            lambda: f'{vals[:6].tolist()} vs {{{g.lo!r}, {g.hi!r}}}')
  extra = []
  if g.range > 0 and g.step <= 4 * g.eps:
    extra.append('step_below_tolerance')
  return extra


def identity_kind(case, g):
  """Which identity statement applies to the case (None = not in the class)."""
  if g.range == 0:
    return 'constant'
  if case['q'] == 'binary':
    return 'two_valued' if bool(((g.v == g.lo) | (g.v == g.hi)).all()) else None
  r = np.rint(g.t)
  return 'on_grid' if bool((np.abs(g.t - r) <= 1e-9 * max(1, g.n)).all()) else None


def run_identity(case):
  v, out, eag, keys = draws(case)
  g = Grid(v, levels_of(case))
  kind = identity_kind(case, g)
  require(kind is not None, 'harness:identity_case_not_on_grid', str(case)[:200])
  extra = ['identity:' + kind]
  require(bool(np.isfinite(out).all()), 'identity:nonfinite', kind)
  if kind == 'constant':
    for o in [out] + eag:
      require(bool((o == g.lo).all()), 'identity:constant_changed',
              lambda: f'{g.lo!r} -> {np.unique(o)[:4].tolist()}')
    return extra
  if kind == 'on_grid':
    # XLA:CPU evaluates x / scalar as x * (1 / scalar), so even an exactly
    # representable position j/(L-1) carries a rounding error of a few ulps and
    # the Bernoulli threshold is only within p_max of 0 or 1: a coordinate may
    # move to the adjacent level with probability <= p_max per draw.  Asserted:
    # moves are to an adjacent level only (check_members) and their number per
    # coordinate over the K keys is compatible with p_max.
    for o in [out] + eag:
      g.check_members(o, 'identity', 'on-grid input')
    moved = np.abs(out - g.v) > g.eps
    counts = moved.sum(axis=0)
    if positions_exact_in_float32(v, levels_of(case)):
      # Every normalised position (v - min)/(max - min) * (L-1) is an integer
      # without any rounding, whichever way the division is carried out: lower
      # and upper cell boundary coincide and NO draw -- not even a uniform draw
      # of exactly 0.0 -- may move a coordinate.
      if counts.max() > 0:
        coord = tuple(int(x) for x in np.argwhere(counts > 0)[0])
        key_i = int(np.argwhere(moved[(slice(None),) + coord])[0][0])
        raise Violation(
            'identity:on_grid_changed_although_positions_are_exact',
            f'coordinate {coord} (input {g.v[coord]!r}, level {g.t[coord]!r} of {g.n}) '
            f'changed for key index {key_i} of split(PRNGKey({case["seed"]}), {case["K"]}): '
            f'{out[(key_i,) + coord]!r}; min {g.lo!r} max {g.hi!r}')
      extra.append('on_grid_positions_exact')
      return extra
    p_max = min(1.0, 32 * U * g.n + 2.0 ** -22)
    limit = binomial_limit(case['K'], p_max)
    worst = int(counts.max())
    if worst > limit:
      coord = tuple(int(x) for x in np.argwhere(counts == worst)[0])
      raise Violation(
          'identity:on_grid_changed',
          f'coordinate {coord} (input {g.v[coord]!r}, level {g.t[coord]!r} of {g.n}) '
          f'changed in {worst} of {case["K"]} draws; float32 rounding explains at most '
          f'{limit} (p <= {p_max!r}); min {g.lo!r} max {g.hi!r} seed {case["seed"]}')
    if worst:
      extra.append('on_grid_rounding_moves_observed')
    return extra
  keep = np.ones((case['K'],), bool)
  if case.get('zero_draw_keys', 'exclude') == 'exclude':
    zero = np.asarray(zero_draw_fn(tuple(case['shape']))(keys))
    if zero.any():
      keep = ~zero
      extra.append('excluded_known:uniform-draw-exact-zero')
  sel = [out[keep]] + [o[None] for i, o in zip(sorted({0, case['K'] - 1}), eag)
                       if keep[i]]  # eag is empty unless case['eager']
  for o in sel:
    bad = o != g.v
    if bad.any():
      idx = tuple(int(x) for x in np.argwhere(bad)[0])
      coord = idx[1:]
      raise Violation(
          'identity:two_valued_changed',
          f'{int(bad.sum())} (key, coordinate) pairs changed; first: key index '
          f'{idx[0]} coordinate {coord} input {g.v[coord]!r} -> {o[idx]!r} (min '
          f'{g.lo!r} max {g.hi!r}, seed {case["seed"]} K {case["K"]})')
  return extra


def positions_exact_in_float32(v, levels):
  """True when (v - min) / (max - min) * (L - 1) is an exact integer in float32
  for every coordinate, both with a true division and with a multiplication by
  the rounded reciprocal (what XLA:CPU does)."""
  x = np.asarray(v, np.float32).ravel()
  lo, hi = x.min(), x.max()
  rng_ = np.float32(hi - lo)
  if not np.isfinite(rng_) or rng_ == 0:
    return False
  n = np.float32(levels - 1)
  d = np.float32(x - lo)
  if not np.array_equal(d.astype(np.float64), x.astype(np.float64) - np.float64(lo)):
    return False
  for t in (np.float32(d / rng_), np.float32(d * np.float32(np.float32(1.0) / rng_))):
    sc = np.float32(t * n)
    exact = sc.astype(np.float64) == (d.astype(np.float64) / np.float64(rng_)) * np.float64(n)
    if not (exact.all() and np.array_equal(sc, np.rint(sc))):
      return False
  return True


@functools.lru_cache(maxsize=None)
def binomial_limit(k, p):
  """Smallest m with P(Binomial(k, p) > m) <= C(k, m+1) p^(m+1) <= 1e-17."""
  if p >= 1.0:
    return k
  log_term = 0.0   # log of C(k, j) p^j for j = 0
  for j in range(1, k + 1):
    log_term += math.log((k - j + 1) / j) + math.log(p)
    # union bound: P(X >= j) <= C(k, j) p^j
    if log_term <= math.log(1e-17) and j > k * p:
      return j - 1
  return k


def run_unbiased(case):
  v, out, _, _ = draws(case)
  g = Grid(v, levels_of(case))
  # Hoeffding needs the a-priori interval: asserted for these very draws.
  g.check_members(out, 'unbiased', 'vmapped')
  k = case['K']
  mean = out.mean(axis=0)
  tol = hoeffding_t(g.width, k) + 32 * U * g.scale + 2 * TINY
  dev = np.abs(mean - g.v)
  bad = dev > tol
  if bad.any():
    coord = tuple(int(x) for x in np.argwhere(bad)[0])
    raise Violation(
        'unbiased:mean_differs_from_input',
        f'coordinate {coord}: input {g.v[coord]!r}, mean over {k} keys '
        f'{mean[coord]!r}, |diff| {dev[coord]!r} > tol {tol[coord]!r} (step '
        f'{g.step!r}, position {g.t[coord]!r} of {g.n} intervals, seed {case["seed"]})')
  extra = []
  if g.range > 0 and g.step <= 4 * g.eps:
    extra.append('step_below_tolerance')
  return extra


class Tern:
  """float64 TernGrad reference."""

  def __init__(self, v):
    v64 = np.asarray(v, np.float64)
    self.v = v64
    self.d = v64.size
    self.scale = float(np.abs(v64).max())
    self.sigma = float(np.std(v64))
    lim = 2.5 * self.sigma
    self.c = np.where(np.abs(v64) > lim, lim * np.sign(v64), v64)
    self.s = float(np.abs(self.c).max())
    self.eps = 4 * (self.d + 8) * U * self.scale + 2.0 ** -62
    self.clipped = bool((np.abs(v64) > lim).any())


def check_tern_members(tr, o, what):
  """Returns the common magnitude observed (0.0 if every output is zero)."""
  require(bool(np.isfinite(o).all()), 'terngrad:nonfinite',
          lambda: f'{what}: v={tr.v.ravel()[:8].tolist()}')
  mags = np.unique(np.abs(o))
  nz = mags[mags > 0]
  require(nz.size <= 1, 'terngrad:not_ternary',
          lambda: f'{what}: magnitudes {mags[:6].tolist()} (expected {{0, s}}, s={tr.s!r})')
  s_obs = float(nz[0]) if nz.size else 0.0
  require(abs(s_obs - tr.s) <= 2.5 * tr.eps + 4 * U * tr.s,
          'terngrad:wrong_scale',
          lambda: f'{what}: observed s {s_obs!r}, reference max|clip(v, 2.5 sigma)| '
                  f'{tr.s!r} (sigma {tr.sigma!r}, max|v| {tr.scale!r}, tol {2.5 * tr.eps!r})')
  require(bool((o * np.sign(tr.v) >= 0).all()) and
          bool((o[..., tr.v == 0] == 0).all()), 'terngrad:sign_differs', what)
  # the coordinates of largest clipped magnitude are deterministic: +-s
  top = np.abs(tr.c) >= tr.s
  if tr.s > 5 * tr.eps:
    require(bool((np.abs(o[..., top]) > 0).all()), 'terngrad:max_coordinate_zero', what)
  return s_obs


def run_terngrad(case):
  v, out, eag, _ = draws(case)
  tr = Tern(v)
  s_obs = check_tern_members(tr, out, 'vmapped')
  for o in eag:
    check_tern_members(tr, o, 'eager')
  k = case['K']
  mean = out.mean(axis=0)
  width = max(s_obs, tr.s)
  tol = hoeffding_t(width, k) + 3.5 * tr.eps + 8 * U * tr.s + 2 * TINY
  dev = np.abs(mean - tr.c)
  bad = dev > tol
  if bad.any():
    coord = tuple(int(x) for x in np.argwhere(bad)[0])
    raise Violation(
        'terngrad:mean_differs_from_clipped_input',
        f'coordinate {coord}: input {tr.v[coord]!r} clipped {tr.c[coord]!r}, mean '
        f'over {k} keys {mean[coord]!r}, tol {tol!r} (s {tr.s!r}, sigma {tr.sigma!r}, '
        f'seed {case["seed"]})')
  return ['clipping_active'] if tr.clipped else []


# ================================================================= aggregators

KINDS = ['uniform', 'arith', 'rotated', 'drive', 'terngrad']

TEMPLATES = {
    'vec3': [('w', [3])],
    'two': [('a', [4]), ('b', [2, 3])],
    'nested': [('x/k', [8]), ('y', [1]), ('z', [2, 2, 2])],
    'p64': [('p', [64])],
    'p128': [('p', [128])],
    'big': [('c', [256]), ('d', [3, 5])],
}


def make_agg(kind, levels, key):
  if kind == 'uniform':
    return C.uniform_stochastic_quantizer(levels, key)
  if kind == 'arith':
    return C.uniform_stochastic_quantizer(levels, key, 'arithmetic')
  if kind == 'rotated':
    return C.rotated_uniform_stochastic_quantizer(levels, key)
  if kind == 'drive':
    return C.structured_drive_quantizer(key)
  if kind == 'terngrad':
    return C.terngrad_quantizer(key)
  raise ValueError(kind)


def build_tree(template, leaves, as_jax=True):
  tree = {}
  for (path, shape), vals in zip(TEMPLATES[template], leaves):
    arr = vec_from(vals, shape)
    node = tree
    parts = path.split('/')
    for p in parts[:-1]:
      node = node.setdefault(p, {})
    node[parts[-1]] = jnp.asarray(arr) if as_jax else arr
  return tree


def tree_get(tree, path):
  node = tree
  for p in path.split('/'):
    node = node[p]
  return node


def leaves_of(tree, template):
  return [tree_get(tree, path) for path, _ in TEMPLATES[template]]


def template_sizes(template):
  return [int(np.prod(s)) for _, s in TEMPLATES[template]]


def padded(d):
  return 1 if d <= 1 else 2 ** math.ceil(math.log2(d))


def formula_bits(kind, levels, template):
  p = sum(template_sizes(template))
  nl = len(TEMPLATES[template])
  if kind in ('uniform', 'rotated'):
    return math.log2(levels) * p + 64 * nl
  if kind == 'drive':
    return p + 64 * nl
  if kind == 'terngrad':
    return math.log2(3) * p + 64 * nl
  raise ValueError(kind)


def arith_leaf_bits(k, d, entropy):
  return k * math.log2(math.e * (d + k) / k) + d * entropy + 66


def arith_exact_bits(leaf):
  x = np.nan_to_num(np.asarray(leaf, np.float64)).ravel() + 0.0
  _, counts = np.unique(x, return_counts=True)
  p = counts / counts.sum()
  return arith_leaf_bits(len(counts), x.size, float(-(p * np.log2(p)).sum()))


def arith_bounds(levels, template):
  lo = hi = 0.0
  for d in template_sizes(template):
    kmax = max(1, min(levels, d))
    lo += arith_leaf_bits(1, d, 0.0)
    hi += max(arith_leaf_bits(k, d, math.log2(k)) for k in range(1, kmax + 1))
  return lo, hi


def mean_rounding(n, ws, scales):
  """A-priori float32 rounding bound of tree_mean (see C07)."""
  total = math.fsum(ws)
  s = math.fsum(w * m for w, m in zip(ws, scales)) / total
  return (2 * n + 8) * U * s * 1.001 + (n + 2) * TINY * max(1.0, 1.0 / total)


def collinear(xs):
  """Returns (base, coefs) if every x_i is c_i * base exactly, else None."""
  base = next((x for x in xs if np.any(x)), None)
  if base is None:
    return None
  bb = float(np.dot(base.ravel(), base.ravel()))
  coefs = []
  for x in xs:
    c = float(np.dot(x.ravel(), base.ravel())) / bb
    if not np.array_equal(c * base, x):
      return None
    coefs.append(c)
  return base, coefs


def check_leaf(kind, levels, xs, ws, a, where):
  """xs: per client float64 leaf, ws: weights, a: aggregated leaf (float64).

  Precondition: sum(ws) > 0.  Returns labels.
  """
  n = len(xs)
  total = math.fsum(ws)
  eff = [i for i, w in enumerate(ws) if w > 0]
  out = []
  all_zero = not any(np.any(x) for x in xs)
  if all_zero:
    require(bool((a == 0).all()), f'{kind}:zero_leaf_not_zero',
            lambda: f'{where}: {a.ravel()[:6].tolist()}')
    return ['zero_leaf_all_clients']
  wmean = sum(w * x for w, x in zip(ws, xs)) / total

  if kind in ('uniform', 'arith'):
    grids = [Grid(x, levels) for x in xs]
    lo = sum(w * g.level(g.jlo) for w, g in zip(ws, grids)) / total
    up = sum(w * g.level(g.jhi) for w, g in zip(ws, grids)) / total
    eps = (math.fsum(w * g.eps for w, g in zip(ws, grids)) / total +
           mean_rounding(n, ws, [g.scale for g in grids]))
    bad = (a < lo - eps) | (a > up + eps)
    if bad.any():
      c = tuple(int(i) for i in np.argwhere(bad)[0])
      raise Violation(
          f'{kind}:outside_weighted_neighbour_hull',
          f'{where} coord {c}: aggregate {a[c]!r} not in [{lo[c]!r}, {up[c]!r}] '
          f'(+-{eps!r}); exact weighted mean {wmean[c]!r}, weights {ws}, inputs '
          f'{[float(x[c]) for x in xs]}, levels {levels}')
    bound = math.fsum(w * g.step for w, g in zip(ws, grids)) / total
    require(bool((np.abs(a - wmean) <= bound * (1 + 1e-4) + eps).all()),
            f'{kind}:error_exceeds_weighted_step', where)
    same = all(np.array_equal(xs[i], xs[eff[0]]) for i in eff)
    equal_w = all(ws[i] == ws[eff[0]] for i in eff)
    g = grids[eff[0]]
    if same and equal_w and g.range > 0:
      m = len(eff)
      fine = g.step / m
      if fine > 4 * eps:
        k = np.clip(np.rint((a - g.lo) / fine), m * g.jlo, m * g.jhi)
        err = np.abs(a - (g.lo + k * fine))
        require(bool((err <= eps).all()),
                f'{kind}:identical_clients_off_refined_grid',
                lambda: f'{where}: {m} identical clients, equal weights: coordinate '
                        f'{a.ravel()[int(np.argmax(err))]!r} is not min + k*step/{m} '
                        f'(min {g.lo!r}, step {g.step!r})')
        out.append('single_client_on_grid' if m == 1 else 'identical_clients_refined_grid')
      else:
        out.append('step_below_tolerance')
    if all(g.range == 0 for g in grids):
      out.append('constant_leaf_all_clients')

  elif kind == 'terngrad':
    trs = [Tern(x) for x in xs]
    sg = [np.sign(x) for x in xs]
    lo = sum(w * np.minimum(0, s * (t.s + 2.5 * t.eps)) for w, t, s in zip(ws, trs, sg)) / total
    up = sum(w * np.maximum(0, s * (t.s + 2.5 * t.eps)) for w, t, s in zip(ws, trs, sg)) / total
    eps = mean_rounding(n, ws, [t.s + 2.5 * t.eps for t in trs]) + 8 * U * max(t.s for t in trs)
    bad = (a < lo - eps) | (a > up + eps)
    if bad.any():
      c = tuple(int(i) for i in np.argwhere(bad)[0])
      raise Violation(
          'terngrad:outside_weighted_ternary_hull',
          f'{where} coord {c}: aggregate {a[c]!r} not in [{lo[c]!r}, {up[c]!r}]; '
          f'weights {ws}, inputs {[float(x[c]) for x in xs]}, s {[t.s for t in trs]}')
    if len(eff) == 1:
      t = trs[eff[0]]
      mags = np.unique(np.abs(a))
      nz = mags[mags > 0]
      require(nz.size <= 1, 'terngrad:single_client_not_ternary',
              lambda: f'{where}: magnitudes {mags[:6].tolist()}')
      s_obs = float(nz[0]) if nz.size else 0.0
      require(abs(s_obs - t.s) <= 2.5 * t.eps + 16 * U * t.s, 'terngrad:wrong_scale',
              lambda: f'{where}: observed {s_obs!r} reference {t.s!r} (sigma {t.sigma!r})')
      out.append('single_client_ternary')
    if any(t.clipped for t in trs):
      out.append('clipping_active')

  elif kind == 'rotated':
    d2 = padded(xs[0].size)
    norms = [float(np.linalg.norm(x)) for x in xs]
    bound = math.fsum(
        w * (2 * math.sqrt(d2) / (levels - 1) + 8 * d2 ** 1.5 * U) * nx
        for w, nx in zip(ws, norms)) / total
    bound += mean_rounding(n, ws, [nx * (1 + 2 * math.sqrt(d2) / (levels - 1)) for nx in norms])
    bound += 8 * d2 * TINY
    err = float(np.linalg.norm(a - wmean))
    require(err <= bound, 'rotated:l2_error_exceeds_bound',
            lambda: f'{where}: ||agg - weighted mean|| = {err!r} > {bound!r}; agg '
                    f'{a.ravel()[:6].tolist()} mean {wmean.ravel()[:6].tolist()} weights {ws} '
                    f'levels {levels}')
    if 2 * math.sqrt(d2) / (levels - 1) < 0.05:
      out.append('rotated_bound_sharp')

  elif kind == 'drive':
    d2 = padded(xs[0].size)
    norms = [float(np.linalg.norm(x)) for x in xs]
    nb = math.fsum(w * math.sqrt(d2) * nx for w, nx in zip(ws, norms)) / total
    na = float(np.linalg.norm(a))
    require(na <= nb * (1 + 64 * d2 * U) + 8 * d2 * TINY, 'drive:norm_exceeds_bound',
            lambda: f'{where}: ||agg|| {na!r} > sum w sqrt(d) ||x|| / sum w = {nb!r}')
    col = collinear(xs)
    if col is not None:
      base, coefs = col
      bb = float(np.dot(base.ravel(), base.ravel()))
      want = math.fsum(w * c for w, c in zip(ws, coefs)) / total * bb
      mag = math.fsum(w * abs(c) for w, c in zip(ws, coefs)) / total * bb
      got = float(np.dot(a.ravel(), base.ravel()))
      require(abs(got - want) <= 64 * d2 * U * mag + 64 * d2 * TINY,
              'drive:inner_product_not_norm_squared',
              lambda: f'{where}: clients hold c_i*x with c={coefs}, weights {ws}: '
                      f'<agg, x> = {got!r}, expected sum w c/sum w * ||x||^2 = {want!r}')
      out.append('drive_collinear_inner_product')
  return out


def recompose(kind, levels, rng, trees, ws):
  """The aggregate recomposed with the key schedule the code uses today."""
  rng = jnp.asarray(rng)
  if kind in ('uniform', 'arith'):
    _, use = jax.random.split(rng)
    seq = hk.PRNGSequence(use)
    qs = [C.uniform_stochastic_quantize_pytree(t, levels, next(seq)) for t in trees]
  elif kind == 'terngrad':
    _, use = jax.random.split(rng)
    seq = hk.PRNGSequence(use)
    qs = [C.terngrad_quantize_pytree(t, next(seq)) for t in trees]
  elif kind == 'rotated':
    rng2, rot = jax.random.split(rng)
    _, use = jax.random.split(rng2)
    seq = hk.PRNGSequence(use)
    qs = []
    for t in trees:
      z, shapes = WH.structured_rotation_pytree(t, rot)
      qs.append(WH.inverse_structured_rotation_pytree(
          C.uniform_stochastic_quantize_pytree(z, levels, next(seq)), rot, shapes))
  else:
    _, rot = jax.random.split(rng)
    seq = hk.PRNGSequence(rot)
    qs = []
    for t in trees:
      k = next(seq)
      z, shapes = WH.structured_rotation_pytree(t, k)
      qs.append(WH.inverse_structured_rotation_pytree(C.drive_pytree(z), k, shapes))
  return tree_util.tree_mean(zip(qs, ws))


def as_iterable(items, gen):
  if gen:
    return (it for it in items)
  return list(items)


def rng_bytes(rng):
  return np.asarray(rng).tobytes()


def apply_once(agg, template, trees, ws, state, gen=False):
  items = [(b'client-%d' % i, t, w) for i, (t, w) in enumerate(zip(trees, ws))]
  res = agg.apply(as_iterable(items, gen), state)
  require(isinstance(res, tuple) and len(res) == 2, 'apply:return_type', str(type(res)))
  out, new_state = res
  want = jax.tree_util.tree_structure(trees[0])
  got = jax.tree_util.tree_structure(out)
  require(got == want, 'apply:structure', f'{got} vs {want}')
  leaves = []
  for (path, shape), o in zip(TEMPLATES[template], leaves_of(out, template)):
    o = np.asarray(o)
    require(o.shape == tuple(shape) and o.dtype == F32, 'apply:leaf_shape_or_dtype',
            f'{path}: {o.dtype}{o.shape}')
    leaves.append(o.astype(np.float64))
  return leaves, new_state


def run_rounds(case):
  kind, levels, template = case['agg'], case['levels'], case['template']
  key = jax.random.PRNGKey(case['seed'])
  agg = make_agg(kind, levels, key)
  state = agg.init()
  require(float(state.num_bits) == 0.0 and rng_bytes(state.rng) == rng_bytes(key),
          'init:state', f'{state!r}')
  seen = {rng_bytes(state.rng)}
  labels = set()
  paths = [p for p, _ in TEMPLATES[template]]
  for r, rnd in enumerate(case['rounds']):
    ws = [float(c['w']) for c in rnd['clients']]
    n = len(ws)
    trees = [build_tree(template, c['leaves']) for c in rnd['clients']]
    xs = [[np.asarray(l, np.float64) for l in leaves_of(t, template)] for t in trees]
    snap = [[np.asarray(l).tobytes() for l in leaves_of(t, template)] for t in trees]
    before_bits = float(state.num_bits)
    before_rng = rng_bytes(state.rng)
    out, new_state = apply_once(agg, template, trees, ws, state, rnd.get('gen', False))
    where = f'round {r} {kind} L={levels}'
    for path, o in zip(paths, out):
      require(bool(np.isfinite(o).all()), f'{kind}:nonfinite',
              lambda: f'{where} leaf {path}: {o.ravel()[:6].tolist()}; inputs '
                      f'{[c["leaves"][paths.index(path)][:6] for c in rnd["clients"]]}')
    total = math.fsum(ws)
    if total == 0:
      for path, o in zip(paths, out):
        require(bool((o == 0).all()), f'{kind}:zero_total_weight_not_zero',
                f'{where} leaf {path}: {o.ravel()[:6].tolist()}')
      labels.add('zero_total_weight')
    else:
      for li, (path, o) in enumerate(zip(paths, out)):
        labels.update(check_leaf(kind, levels, [x[li] for x in xs], ws, o,
                                 f'{where} leaf {path}'))
    # inputs still alive and unchanged
    for ci, t in enumerate(trees):
      for li, l in enumerate(leaves_of(t, template)):
        require(not l.is_deleted() and np.asarray(l).tobytes() == snap[ci][li],
                'apply:input_harmed', f'{where} client {ci} leaf {paths[li]}')
    # state: rng advanced, bits by the documented formula
    require(rng_bytes(state.rng) == before_rng and float(state.num_bits) == before_bits,
            'apply:input_state_mutated', where)
    new_rng = np.asarray(new_state.rng)
    require(new_rng.shape == np.asarray(key).shape and new_rng.dtype == np.asarray(key).dtype,
            'state:rng_type', f'{new_rng.dtype}{new_rng.shape}')
    require(rng_bytes(new_rng) not in seen, 'state:rng_not_advanced',
            f'{where}: state.rng after the round equals an earlier one')
    seen.add(rng_bytes(new_rng))
    after_bits = float(new_state.num_bits)
    inc = after_bits - before_bits
    tolb = 8 * U * abs(after_bits) + 1e-3
    if kind == 'arith':
      lo_b, hi_b = arith_bounds(levels, template)
      require(lo_b - tolb - 1e-4 * lo_b <= inc <= hi_b + tolb + 1e-4 * hi_b,
              'bits:arithmetic_outside_bounds',
              f'{where}: increment {inc!r} not in [{lo_b!r}, {hi_b!r}]')
      if n == 1 and ws[0] == 1.0:
        want = sum(arith_exact_bits(o) for o in out)
        require(abs(inc - want) <= tolb + 5e-5 * want, 'bits:arithmetic_formula',
                f'{where}: increment {inc!r} vs k*log2(e(d+k)/k) + d*H + 66 = {want!r}')
        labels.add('arith_bits_exact')
    else:
      want = formula_bits(kind, levels, template)
      require(abs(inc - want) <= tolb, 'bits:increment_differs_from_formula',
              f'{where}: increment {inc!r} (total {after_bits!r}) vs documented {want!r}')
    # same state, weights scaled by c: same aggregate, same new state
    c = rnd.get('scale', 1.0)
    out2, new_state2 = apply_once(agg, template, trees, [w * c for w in ws], state)
    for path, o, o2 in zip(paths, out, out2):
      tol = 4 * U * float(np.abs(o).max(initial=0.0)) + 4 * TINY
      require(bool((np.abs(o - o2) <= tol).all()),
              'apply:not_invariant_to_weight_scale' if c != 1.0 else 'apply:not_deterministic',
              lambda: f'{where} leaf {path}: weights*{c}: {o2.ravel()[:6].tolist()} vs '
                      f'{o.ravel()[:6].tolist()}')
    require(rng_bytes(new_state2.rng) == rng_bytes(new_rng) and
            abs(float(new_state2.num_bits) - after_bits) <= (tolb if kind == 'arith' else 0.0),
            'apply:state_depends_on_weight_scale', where)
    if r == 0:
      try:
        ref = recompose(kind, levels, state.rng, trees, ws)
        same = all(np.array_equal(np.asarray(a, np.float64), b)
                   for a, b in zip(leaves_of(ref, template), out))
      except Exception:  # pylint: disable=broad-except
        same = False
      labels.add('recomposed_exact' if same else 'key_schedule_changed')
    state = new_state
  return sorted(labels)


# ------------------------------------------- aggregate unbiasedness over the key

@functools.lru_cache(maxsize=64)
def vmapped_apply(kind, levels, template, ws):
  """jit(vmap over the aggregator's initial key) of one apply; data is traced."""

  def one(key, trees):
    agg = make_agg(kind, levels, key)
    items = [(b'client-%d' % i, t, w) for i, (t, w) in enumerate(zip(trees, ws))]
    out, new_state = agg.apply(items, C.CompressionState(0.0, key))
    return out, new_state.num_bits

  return jax.jit(lambda keys, trees: jax.vmap(one, in_axes=(0, None))(keys, trees))


def run_agg_unbiased(case):
  kind, levels, template = case['agg'], case['levels'], case['template']
  ws = tuple(float(c['w']) for c in case['clients'])
  n = len(ws)
  total = math.fsum(ws)
  trees = [build_tree(template, c['leaves']) for c in case['clients']]
  xs = [[np.asarray(l, np.float64) for l in leaves_of(t, template)] for t in trees]
  k = case['K']
  keys = keys_from(case['seed'], k)
  out, bits = vmapped_apply(kind, levels, template, ws)(keys, trees)
  bits = np.asarray(bits, np.float64)
  want_bits = formula_bits(kind, levels, template)
  require(bits.shape == (k,) and bool((np.abs(bits - want_bits) <= 8 * U * want_bits + 1e-3).all()),
          'bits:increment_differs_from_formula', f'{bits[:3].tolist()} vs {want_bits!r}')
  labels = set()
  for li, (path, shape) in enumerate(TEMPLATES[template]):
    o = np.asarray(tree_get(out, path)).astype(np.float64)
    require(o.shape == (k,) + tuple(shape), 'apply:leaf_shape_or_dtype', f'{path}: {o.shape}')
    require(bool(np.isfinite(o).all()), f'{kind}:nonfinite', f'leaf {path}')
    lx = [x[li] for x in xs]
    if kind == 'uniform':
      grids = [Grid(x, levels) for x in lx]
      lo = sum(w * g.level(g.jlo) for w, g in zip(ws, grids)) / total
      up = sum(w * g.level(g.jhi) for w, g in zip(ws, grids)) / total
      eps = (math.fsum(w * g.eps for w, g in zip(ws, grids)) / total +
             mean_rounding(n, ws, [g.scale for g in grids]))
      target = sum(w * x for w, x in zip(ws, lx)) / total
      slack = 2 * eps + math.fsum(w * 32 * U * g.scale for w, g in zip(ws, grids)) / total
      name = 'weighted_mean'
    else:
      trs = [Tern(x) for x in lx]
      sg = [np.sign(x) for x in lx]
      lo = sum(w * np.minimum(0, s * (t.s + 2.5 * t.eps)) for w, t, s in zip(ws, trs, sg)) / total
      up = sum(w * np.maximum(0, s * (t.s + 2.5 * t.eps)) for w, t, s in zip(ws, trs, sg)) / total
      eps = mean_rounding(n, ws, [t.s + 2.5 * t.eps for t in trs]) + 8 * U * max(t.s for t in trs)
      target = sum(w * t.c for w, t in zip(ws, trs)) / total
      slack = 2 * eps + math.fsum(w * (3.5 * t.eps + 8 * U * t.s) for w, t in zip(ws, trs)) / total
      name = 'weighted_mean_of_clipped'
      if any(t.clipped for t in trs):
        labels.add('clipping_active')
    bad = (o < lo - eps) | (o > up + eps)
    if bad.any():
      c = tuple(int(i) for i in np.argwhere(bad)[0])
      raise Violation(f'{kind}:outside_weighted_neighbour_hull',
                      f'leaf {path} key/coord {c}: {o[c]!r} not in [{lo[c[1:]]!r}, {up[c[1:]]!r}]')
    width = (up - lo) + 2 * eps
    tol = hoeffding_t(width, k) + slack + 2 * TINY
    mean = o.mean(axis=0)
    dev = np.abs(mean - target)
    bad = dev > tol
    if bad.any():
      c = tuple(int(i) for i in np.argwhere(bad)[0])
      raise Violation(
          f'{kind}:aggregate_mean_differs_from_{name}',
          f'leaf {path} coord {c}: mean over {k} initial keys {mean[c]!r}, exact '
          f'{name} {target[c]!r}, |diff| {dev[c]!r} > tol {tol[c]!r}; weights {ws}, '
          f'inputs {[float(x[c]) for x in lx]}, levels {levels}, seed {case["seed"]}')
  return sorted(labels)


# ---------------------------------------------- different randomness (probes)

def probe_vector(kind, levels, a, e, size):
  """A designed leaf with >= (size-2) coordinates that are random at p = 1/2."""
  sc = 2.0 ** e
  if kind in ('uniform', 'arith'):
    n = levels - 1
    js = np.arange(size - 2) % n
    v = np.concatenate([[0.0, 2.0 * n], 2.0 * js + 1.0]) + a   # step 2, mid-points
    return (v * sc).astype(F32)
  if kind == 'terngrad':
    half = size // 2
    sign = np.where(np.arange(half) % 2 == 0, 1.0, -1.0)
    return (np.concatenate([sign, 0.5 * sign]) * sc).astype(F32)
  idx = np.arange(size)
  return ((((idx * 37 + 11 * a) % 101) - 50.0) / 8.0 * sc).astype(F32)


def differs(kind, levels, v, x, y):
  """True when two aggregates differ by more than float32 rounding."""
  diff = float(np.linalg.norm(x - y))
  if kind in ('uniform', 'arith'):
    step = (float(v.max()) - float(v.min())) / (levels - 1)
    return diff > step / 16
  if kind == 'terngrad':
    return diff > float(np.abs(v).max()) / 16
  return diff > 1e-3 * float(np.linalg.norm(v))


def run_independence(case):
  kind, levels = case['agg'], case['levels']
  template = 'p128'
  size = 128
  v = probe_vector(kind, levels, case['a'], case['e'], size)
  v64 = v.astype(np.float64)
  tree = {'p': jnp.asarray(v)}
  key = jax.random.PRNGKey(case['seed'])
  agg = make_agg(kind, levels, key)
  state = agg.init()
  n = case['n']
  w_eq = [1.0] * n
  w_ne = [1.0 + 2.0 * i for i in range(n)]
  seen = {rng_bytes(state.rng)}
  prev = None
  singles = []   # ((round, slot), that client's quantized vector)
  for r in range(case['rounds']):
    where = f'round {r} {kind} L={levels} n={n}'
    (o_eq,), st_eq = apply_once(agg, template, [tree] * n, w_eq, state)
    # Each client's own quantized vector, recovered with one-hot weights from
    # the same state: every (round, client position) pair must have been
    # quantized with its own randomness -- also position j+1 of one round versus
    # position j of the next.
    # (a cohort beyond any fixed chunk of keys: a few slots a chunk apart)
    slots = range(n) if n <= 8 else sorted({j % n for j in (
        case['a'] % 7, case['a'] % 7 + 1, case['a'] % 7 + 64, case['a'] % 7 + 128, n - 1)})
    for j in slots:
      w_j = [1.0 if i == j else 0.0 for i in range(n)]
      (o_j,), st_j = apply_once(agg, template, [tree] * n, w_j, state)
      require(bool(np.isfinite(o_j).all()), f'{kind}:nonfinite', f'{where} one-hot {j}')
      require(rng_bytes(st_j.rng) == rng_bytes(st_eq.rng),
              'apply:state_depends_on_weight_scale', f'{where} one-hot {j}')
      for (r0, j0), o_0 in singles:
        require(differs(kind, levels, v64, o_0, o_j),
                'independence:client_of_one_round_shares_randomness_with_client_of_another'
                if r0 != r else 'independence:clients_share_randomness',
                f'{where}: client position {j} of round {r} and position {j0} of round '
                f'{r0} hold the same {size}-vector and were quantized identically; '
                f'first coords {o_j[:4].tolist()}')
      singles.append(((r, j), o_j))
    (o_ne,), st_ne = apply_once(agg, template, [tree] * n, w_ne, state)
    require(bool(np.isfinite(o_eq).all() and np.isfinite(o_ne).all()), f'{kind}:nonfinite', where)
    require(rng_bytes(st_eq.rng) == rng_bytes(st_ne.rng), 'apply:state_depends_on_weight_scale', where)
    require(differs(kind, levels, v64, o_eq, o_ne), 'independence:clients_share_randomness',
            f'{where}: {n} clients holding the same {size}-vector: the aggregate under '
            f'weights {w_eq} equals the one under {w_ne} (same state), i.e. all clients '
            f'were quantized identically; first coords {o_eq[:4].tolist()}')
    if kind in ('uniform', 'arith') and n == 2:
      # unit weights, two clients: every coordinate on {g, midpoint, g'}
      half = (float(v64.max()) - float(v64.min())) / (levels - 1) / 2
      k2 = np.rint((o_eq - float(v64.min())) / half)
      require(bool((np.abs(o_eq - (float(v64.min()) + k2 * half)) <=
                    64 * U * float(np.abs(v64).max())).all()),
              f'{kind}:identical_clients_off_refined_grid', where)
    require(rng_bytes(st_eq.rng) not in seen, 'state:rng_not_advanced', where)
    seen.add(rng_bytes(st_eq.rng))
    if prev is not None:
      require(differs(kind, levels, v64, prev, o_eq), 'independence:rounds_share_randomness',
              f'{where}: same clients and weights as in round {r - 1} gave the same '
              f'aggregate; first coords {o_eq[:4].tolist()}')
    prev = o_eq
    state = st_eq
  return []


# ================================================================== strategies

SHAPES = {
    'quick': [[64], [3], [2, 3, 4], [64], [3], [2, 2], [2, 3, 4], [256], [1]],
    'thorough': [[64], [3], [2, 3, 4], [64], [2], [8], [2, 2], [3, 5], [256], [17],
                 [4, 16], [1024], [4096], [1]],
}
# the un-jitted public functions are called op by op (every primitive compiles
# once per shape), so eager calls are made for these shapes only
EAGER_SHAPES = {'quick': [[3]], 'thorough': [[3], [2, 3, 4]]}
DOM_WIDE = (-99, 125)     # uniform / binary quantizers: |v| <= 2^125, so max-min <= 2^126
                          # (beyond that: two open findings, excluded by construction)
DOM_SQ = (-40, 50)        # TernGrad, DRIVE (inputs are squared)
DOM_AGG = (-99, 100)      # uniform aggregators (weighted sums must stay finite)
DOM_ROT = (-60, 100)
CLASSES = ['generic', 'constant', 'zero', 'on_grid', 'two_valued', 'huge',
           'near_equal', 'outliers']

LEVELS = st.one_of(st.integers(2, 64), st.integers(2, 64),
                   st.sampled_from([2, 2, 3, 4, 5, 16, 63, 64, 125]),
                   st.sampled_from([256, 1024, 65536]))
SEEDS = st.integers(0, 2 ** 31 - 1)


def _mag(lo_e, hi_e):
  return st.floats(min_value=2.0 ** lo_e, max_value=2.0 ** hi_e, width=32,
                   allow_nan=False, allow_infinity=False, allow_subnormal=False)


def _signed(s):
  return st.builds(lambda neg, m: -m if neg else m, st.booleans(), s)


DYADIC = st.integers(-64, 64).map(lambda k: k / 8.0)


def _moderate():
  return st.one_of(DYADIC, _signed(_mag(-8, 8)), _signed(_mag(-10, 10)),
                   st.sampled_from([0.0, 1.0, -1.0, float(F32(0.1)), float(F32(1 / 3)),
                                    100.0, 1.0 + 2.0 ** -23]))


def _wide(dom):
  lo_e, hi_e = dom
  return st.one_of(_signed(_mag(lo_e, hi_e)), _signed(_mag(lo_e, hi_e)),
                   st.sampled_from([0.0, 2.0 ** hi_e, -2.0 ** hi_e, 2.0 ** lo_e,
                                    -2.0 ** lo_e, 1.0]))


def draw_values(draw, cls, n, levels, dom):
  """n explicit float32-representable values of the given class."""
  if cls == 'zero':
    return draw(st.lists(st.sampled_from([0.0, 0.0, -0.0]), min_size=n, max_size=n))
  if cls == 'constant' or n == 1:
    c = draw(st.one_of(_moderate(), _wide(dom)))
    return [c] * n
  if cls == 'generic':
    vals = draw(st.lists(_moderate(), min_size=n, max_size=n))
  elif cls == 'huge':
    vals = draw(st.lists(_wide(dom), min_size=n, max_size=n))
  elif cls == 'two_valued':
    a = draw(st.one_of(_moderate(), _wide(dom)))
    b = draw(st.one_of(_moderate(), _wide(dom)))
    bits = draw(st.lists(st.booleans(), min_size=n, max_size=n))
    vals = [b if x else a for x in bits]
    vals[0], vals[-1] = a, b
  elif cls == 'on_grid':
    nl = levels - 1
    e = draw(st.integers(-20, 20))
    a = draw(st.integers(-1024, 1024))
    b = draw(st.integers(1, max(1, min(256, 2 ** 22 // nl))))
    js = draw(st.lists(st.integers(0, nl), min_size=n, max_size=n))
    js[draw(st.integers(0, n - 1))] = 0
    pos = draw(st.integers(0, n - 1))
    js[pos] = nl
    if n >= 2 and 0 not in js:
      js[(pos + 1) % n] = 0
    vals = [(a + j * b) * 2.0 ** e for j in js]
  elif cls == 'near_equal':
    base = draw(_signed(_mag(dom[0] + 2, dom[1] - 2)))
    ks = draw(st.lists(st.integers(0, 6), min_size=n, max_size=n))
    bits = np.array([base], F32).view(np.int32)[0]
    vals = [float(np.array([bits + k], np.int32).view(F32)[0]) for k in ks]
  elif cls == 'outliers':
    vals = draw(st.lists(st.integers(-8, 8).map(lambda k: k / 64.0), min_size=n, max_size=n))
    for _ in range(draw(st.integers(1, 2))):
      vals[draw(st.integers(0, n - 1))] = draw(_signed(st.integers(16, 1024).map(float)))
  else:
    raise ValueError(cls)
  return [float(F32(x)) for x in vals]


PURPOSE_CLASSES = {
    ('grid', 'uniform'): ['generic', 'generic', 'generic', 'constant', 'zero', 'on_grid',
                          'two_valued', 'huge', 'huge', 'near_equal', 'outliers'],
    ('grid', 'binary'): ['generic', 'generic', 'constant', 'zero', 'two_valued', 'huge',
                         'near_equal'],
    ('identity', 'uniform'): ['on_grid', 'on_grid', 'on_grid', 'constant', 'zero'],
    ('identity', 'binary'): ['two_valued', 'two_valued', 'constant', 'zero'],
    ('unbiased', 'uniform'): ['generic', 'generic', 'generic', 'huge', 'near_equal', 'on_grid',
                              'two_valued', 'outliers', 'constant'],
    ('unbiased', 'binary'): ['generic', 'generic', 'huge', 'near_equal', 'two_valued'],
    ('terngrad', 'terngrad'): ['generic', 'generic', 'generic', 'generic', 'outliers',
                               'outliers', 'two_valued', 'constant', 'zero', 'huge',
                               'near_equal'],
}


@st.composite
def q_case(draw, tier, purpose):
  if purpose == 'terngrad':
    q = 'terngrad'
  else:
    q = draw(st.sampled_from(['uniform', 'uniform', 'binary']))
  shape = draw(st.sampled_from(SHAPES[tier]))
  size = int(np.prod(shape))
  levels = draw(LEVELS) if q == 'uniform' else 2
  cls = draw(st.sampled_from(PURPOSE_CLASSES[(purpose, q)]))
  dom = DOM_SQ if q == 'terngrad' else DOM_WIDE
  vals = draw_values(draw, cls, min(size, 64), levels, dom)
  return {'q': q, 'levels': levels, 'shape': shape, 'cls': cls, 'values': vals,
          'seed': draw(SEEDS), 'K': k_for(tier, size), 'zero_draw_keys': 'include',
          'eager': shape in EAGER_SHAPES[tier]}


def q_labels(case):
  size = int(np.prod(case['shape']))
  v = vec_from(case['values'], case['shape'])
  ls = ['q:' + case['q'], 'cls:' + case['cls']] + (['eager_calls'] if case.get('eager') else []) + [
        'size:' + ('1' if size == 1 else '2-8' if size <= 8 else '9-64' if size <= 64 else '>64'),
        'rank:%d' % len(case['shape'])]
  if case['q'] == 'uniform':
    lv = case['levels']
    ls.append('L:' + ('2' if lv == 2 else '3-16' if lv <= 16 else '17-64' if lv <= 64 else '>64'))
  nd = len(np.unique(v))
  ls.append('distinct:' + ('1' if nd == 1 else '2' if nd == 2 else '>=3'))
  if case['q'] == 'terngrad':
    tr = Tern(v)
    if tr.clipped:
      ls.append('clipped_in_reference')
    if np.any((np.abs(tr.c) > 1e-3 * tr.s) & (np.abs(tr.c) < (1 - 1e-3) * tr.s)):
      ls.append('strictly_between')
  else:
    g = Grid(v, levels_of(case))
    if g.range > 0 and g.between.any():
      ls.append('strictly_between')
    kind = identity_kind(case, g)
    if kind:
      ls.append('passthrough_class:' + kind)
  return ls


def q_nontrivial(case, ls):
  return 'distinct:>=3' in ls and 'strictly_between' in ls


def identity_nontrivial(case, ls):
  return 'distinct:1' not in ls


# ---- aggregator histories

W_POS = st.one_of(st.integers(1, 512).map(lambda m: m / 8.0), st.integers(1, 12).map(float),
                  st.sampled_from([0.125, 1.0, 64.0]))


def draw_weights(draw, n):
  pattern = draw(st.sampled_from(['pos'] * 8 + ['some_zero'] * 3 + ['unit', 'unit', 'equal',
                                                                     'all_zero']))
  if pattern == 'all_zero':
    return [0.0] * n
  if pattern == 'unit':
    return [1.0] * n
  if pattern == 'equal':
    return [draw(W_POS)] * n
  ws = [draw(W_POS) for _ in range(n)]
  if pattern == 'some_zero':
    mask = draw(st.lists(st.booleans(), min_size=n, max_size=n))
    ws = [0.0 if m else w for w, m in zip(ws, mask)]
    if not any(ws):
      ws[draw(st.integers(0, n - 1))] = draw(W_POS)
  return ws


AGG_CLASSES = ['generic', 'generic', 'constant', 'zero', 'on_grid', 'two_valued', 'huge',
               'near_equal', 'outliers']
COEFS = [-2.0, -1.0, -0.5, 0.0, 0.5, 1.0, 1.0, 2.0, 3.0]


def agg_dom(kind):
  return {'uniform': DOM_AGG, 'arith': DOM_AGG, 'rotated': DOM_ROT,
          'drive': DOM_SQ, 'terngrad': DOM_SQ}[kind]


def draw_clients(draw, kind, levels, template, n, classes=None, rel_all=None):
  """Returns per client the list of leaf value lists."""
  dom = agg_dom(kind)
  classes = classes or AGG_CLASSES
  lv = levels if kind in ('uniform', 'arith') else 5
  per_leaf = []
  for size in template_sizes(template):
    m = min(size, 64)
    rel = rel_all or draw(st.sampled_from(['indep', 'indep', 'indep', 'same', 'collinear',
                                           'zero']))
    if rel == 'zero':
      col = [draw_values(draw, 'zero', m, lv, dom) for _ in range(n)]
    elif rel == 'same':
      one = draw_values(draw, draw(st.sampled_from(classes)), m, lv, dom)
      col = [list(one) for _ in range(n)]
    elif rel == 'collinear':
      base = draw(st.lists(DYADIC, min_size=m, max_size=m))
      col = [[c * b + 0.0 for b in base] for c in
             (draw(st.sampled_from(COEFS)) for _ in range(n))]
    else:
      col = [draw_values(draw, draw(st.sampled_from(classes)), m, lv, dom) for _ in range(n)]
    per_leaf.append(col)
  return [[per_leaf[j][i] for j in range(len(per_leaf))] for i in range(n)]


def agg_levels(draw, kind):
  if kind == 'uniform':
    return draw(LEVELS)
  if kind == 'arith':
    return draw(st.sampled_from([2, 3, 4, 8, 16]))
  if kind == 'rotated':
    return draw(st.one_of(st.sampled_from([65536, 1024, 4096]),
                          st.sampled_from([2, 3, 4, 16, 64]), st.integers(2, 64)))
  return 2


@st.composite
def rounds_case(draw, tier, kinds=None):
  kind = draw(st.sampled_from(kinds or [
      'uniform', 'uniform', 'uniform', 'uniform', 'arith', 'rotated', 'rotated', 'rotated',
      'drive', 'drive', 'drive', 'terngrad', 'terngrad', 'terngrad']))
  levels = agg_levels(draw, kind)
  menu = ['two', 'nested', 'two', 'nested', 'vec3', 'p64']
  if tier == 'thorough':
    menu = menu + ['big']
  if kind == 'arith':
    menu = ['vec3', 'two', 'nested']
  template = draw(st.sampled_from(menu))
  nrounds = draw(st.sampled_from([1, 2] if kind == 'arith' else [1, 2, 2, 3, 3, 4]))
  rounds = []
  for _ in range(nrounds):
    mode = draw(st.sampled_from(['free', 'free', 'identical_equal', 'free', 'single_unit',
                                 'free']))
    if mode == 'identical_equal':
      # identical clients, equal weights: aggregate on the step/n-refined grid
      n = draw(st.sampled_from([2, 3, 4]))
      ws = [draw(st.sampled_from([1.0, 1.0, 2.0, 0.5]))] * n
      leaves = draw_clients(draw, kind, levels, template, n,
                            classes=['generic', 'generic', 'on_grid', 'two_valued'],
                            rel_all='same')
    elif mode == 'single_unit':
      n, ws = 1, [1.0]
      leaves = draw_clients(draw, kind, levels, template, n)
    else:
      n = draw(st.sampled_from([2, 1, 3, 2, 4, 5, 3]))
      ws = draw_weights(draw, n)
      leaves = draw_clients(draw, kind, levels, template, n)
    rounds.append({'clients': [{'w': w, 'leaves': l} for w, l in zip(ws, leaves)],
                   'scale': draw(st.sampled_from([1.0, 2.0, 0.5, 4.0, 0.25])),
                   'gen': draw(st.booleans())})
  return {'agg': kind, 'levels': levels, 'template': template, 'seed': draw(SEEDS),
          'rounds': rounds}


def rounds_labels(case):
  ls = ['agg:' + case['agg'], 'template:' + case['template'],
        'rounds:%d' % len(case['rounds'])]
  if len(TEMPLATES[case['template']]) > 1:
    ls.append('multi_leaf')
  if case['agg'] in ('uniform', 'arith', 'rotated'):
    lv = case['levels']
    ls.append('L:' + ('2' if lv == 2 else '3-16' if lv <= 16 else '17-64' if lv <= 64 else '>64'))
  seen = set()
  for rnd in case['rounds']:
    ws = [c['w'] for c in rnd['clients']]
    n = len(ws)
    seen.add('clients:' + ('1' if n == 1 else '2' if n == 2 else '>=3'))
    if any(w == 0 for w in ws) and any(w > 0 for w in ws):
      seen.add('weights:some_zero')
    if len({w for w in ws if w > 0}) >= 2:
      seen.add('weights:distinct_nonzero')
    if rnd.get('gen'):
      seen.add('input:generator')
    for j in range(len(TEMPLATES[case['template']])):
      leaf = [c['leaves'][j] for c in rnd['clients']]
      if any(not any(l) for l in leaf):
        seen.add('some_client_zero_leaf')
      if any(len(set(l)) == 1 and l[0] != 0 for l in leaf):
        seen.add('some_client_constant_leaf')
      if any(len(set(l)) >= 3 for l in leaf):
        seen.add('some_leaf_>=3_distinct')
  return ls + sorted(seen)


def rounds_nontrivial(case, ls):
  return 'multi_leaf' in ls and len(case['rounds']) >= 2


W_MENU = [[2.0, 3.0], [1.0, 0.0, 4.0], [1.0, 1.0], [5.0, 1.0, 2.5], [1.0]]


@st.composite
def agg_unbiased_case(draw, tier):
  kind = draw(st.sampled_from(['uniform', 'uniform', 'terngrad']))
  levels = draw(st.sampled_from([2, 3, 5, 16, 1024])) if kind == 'uniform' else 2
  template = draw(st.sampled_from(['two', 'two', 'nested'] if tier == 'thorough' else ['two', 'vec3']))
  ws = draw(st.sampled_from(W_MENU))
  leaves = draw_clients(draw, kind, levels, template, len(ws),
                        classes=['generic', 'generic', 'generic', 'constant', 'on_grid',
                                 'two_valued', 'outliers'])
  return {'agg': kind, 'levels': levels, 'template': template, 'seed': draw(SEEDS),
          'K': 4000 if tier == 'quick' else 20000,
          'clients': [{'w': w, 'leaves': l} for w, l in zip(ws, leaves)]}


def agg_unbiased_labels(case):
  ws = [c['w'] for c in case['clients']]
  ls = ['agg:' + case['agg'], 'template:' + case['template'], 'clients:%d' % len(ws)]
  if case['agg'] == 'uniform':
    ls.append('L:%d' % case['levels'])
  if len(set(ws)) > 1:
    ls.append('weights:distinct')
  return ls


@st.composite
def independence_case(draw, tier):
  kind = draw(st.sampled_from(['uniform', 'uniform', 'arith', 'rotated', 'rotated', 'drive',
                               'drive', 'terngrad', 'terngrad']))
  levels = 2
  if kind in ('uniform', 'rotated'):
    levels = draw(st.sampled_from([2, 3, 4, 16, 64]))
  elif kind == 'arith':
    levels = draw(st.sampled_from([2, 3, 4]))
  case = {'agg': kind, 'levels': levels, 'seed': draw(SEEDS),
          'a': draw(st.integers(-64, 64)), 'e': draw(st.integers(-20, 20)),
          'n': draw(st.sampled_from([2, 2, 3])),
          'rounds': draw(st.sampled_from([2, 2, 3] if tier == 'quick' else [2, 3, 4]))}
  if kind != 'arith' and draw(st.integers(0, 5)) == 0:
    # one round over a cohort of 150 clients (slots 64 and 128 apart compared)
    case.update({'n': 150, 'rounds': 1})
  return case


def independence_labels(case):
  return ['agg:' + case['agg'], 'clients:%d' % case['n'], 'rounds:%d' % case['rounds'],
          'L:%d' % case['levels']]


# ------------------------------------ explicit thresholds (v_min / v_max given)

@functools.lru_cache(maxsize=None)
def _threshold_vmapped(q, levels, given='both'):
  # (a threshold that is not given is passed as None: it defaults to the
  # vector's own minimum / maximum)
  pick = lambda lo, hi: (lo if given != 'hi_only' else None, hi if given != 'lo_only' else None)
  if q == 'uniform':
    f = lambda keys, v, lo, hi: jax.vmap(
        lambda k: C.uniform_stochastic_quantize(v, levels, k, *pick(lo, hi)))(keys)
  else:
    f = lambda keys, v, lo, hi: jax.vmap(
        lambda k: C.binary_stochastic_quantize(v, k, *pick(lo, hi)))(keys)
  return jax.jit(f)


def run_thresholds(case):
  """The documented v_min / v_max thresholds, narrower or wider than the data:
  every output lies in [v_min, v_max] on the grid between the thresholds, within
  one step of the input clipped to the thresholds, and its mean over the keys is
  that clipped input."""
  q, levels = case['q'], (case['levels'] if case['q'] == 'uniform' else 2)
  v = np.asarray(case['values'], F32)
  lo, hi = float(F32(case['lo'])), float(F32(case['hi']))
  given = case.get('given', 'both')
  if given == 'lo_only' and lo < float(v.max()):
    hi = float(v.max())            # only v_min is given: v_max is the data's own
  elif given == 'hi_only' and hi > float(v.min()):
    lo = float(v.min())
  else:
    given = 'both'
  k = case['K']
  out = np.asarray(_threshold_vmapped(q, levels, given)(
      keys_from(case['seed'], k), jnp.asarray(v), F32(lo), F32(hi)), np.float64)
  require(out.shape == (k, v.size), 'thresholds:output_shape', f'{out.shape}')
  require(bool(np.isfinite(out).all()), 'thresholds:nonfinite', f'lo={lo} hi={hi}')
  step = (hi - lo) / (levels - 1)
  eps = 16 * U * max(abs(lo), abs(hi)) + 2 * TINY + 8 * U * step * (levels - 1)
  require(bool((out >= lo - eps).all() and (out <= hi + eps).all()),
          'thresholds:output_outside_the_thresholds',
          lambda: f'{q} L={levels} thresholds [{lo}, {hi}]: outputs in '
                  f'[{out.min()!r}, {out.max()!r}] for input {v.tolist()}')
  c = np.clip(v.astype(np.float64), lo, hi)
  j = np.rint((out - lo) / step)
  require(bool((np.abs(out - (lo + j * step)) <= eps).all()), 'thresholds:off_the_grid',
          lambda: f'{q} L={levels} thresholds [{lo}, {hi}]')
  require(bool((np.abs(out - c[None, :]) <= step + eps).all()),
          'thresholds:more_than_one_step_from_the_clipped_input',
          lambda: f'{q} L={levels} thresholds [{lo}, {hi}] input {v.tolist()}')
  dev = np.abs(out.mean(axis=0) - c)
  tol = hoeffding_t(step + 2 * eps, k) + eps
  require(bool((dev <= tol).all()), 'thresholds:mean_differs_from_the_clipped_input',
          lambda: f'{q} L={levels} thresholds [{lo}, {hi}]: mean {out.mean(axis=0).tolist()} '
                  f'vs clipped input {c.tolist()} (tol {tol!r})')
  return []


@st.composite
def thresholds_case(draw, tier):
  q = draw(st.sampled_from(['uniform', 'uniform', 'binary']))
  n = draw(st.sampled_from([3, 8, 64]))
  vals = [draw(DYADIC) for _ in range(n)]
  lo8 = draw(st.integers(-72, 56))          # thresholds in eighths, -9 .. 7
  width8 = draw(st.sampled_from([1, 2, 8, 16, 40, 144]))
  return {'q': q, 'levels': draw(st.sampled_from([2, 3, 4, 5, 16, 64])), 'values': vals,
          'lo': lo8 / 8.0, 'hi': (lo8 + width8) / 8.0, 'seed': draw(SEEDS),
          'K': 2000 if tier == 'quick' else 8000,
          'given': draw(st.sampled_from(['both', 'both', 'lo_only', 'hi_only']))}


def thresholds_labels(case):
  v = np.asarray(case['values'])
  ls = ['q:' + case['q'], 'thresholds_given:' + case.get('given', 'both')]
  ls.append('data_beyond_thresholds' if (v.min() < case['lo'] or v.max() > case['hi'])
            else 'thresholds_wider_than_data')
  return ls


# ------------------------------- binary quantizer on bfloat16 / float16 inputs

@functools.lru_cache(maxsize=None)
def _binary_vmapped(dtype_name):
  return jax.jit(jax.vmap(lambda k, v: C.binary_stochastic_quantize(v, k),
                          in_axes=(0, None)))


def run_binary_low_precision(case):
  """Unbiasedness of the binary quantizer for low-precision inputs.  The vector is
  [lo, hi, x, x, ..., x] with x at relative position 2^-j (exactly representable
  in the dtype): each x must come out as hi with probability exactly 2^-j.  The
  number of ups, pooled over K keys and n-2 equal coordinates, is compared with
  Chernoff bounds at 1e-17."""
  dt = {'bfloat16': jnp.bfloat16, 'float16': jnp.float16, 'float32': jnp.float32}[case['dtype']]
  n, k, j = case['n'], case['K'], case['j']
  if case.get('offset'):
    # the same relative position on top of a large offset: lo = 2^E, the spread
    # hi - lo is 2^j ulps of lo and x sits one ulp above lo (all exact in
    # float32; thresholds formed near lo would be rounded to that ulp grid)
    lo = 2.0 ** (case['e'] + 24)
    ulp = lo * 2.0 ** -23
    hi, x = lo + ulp * 2.0 ** j, lo + ulp
  else:
    lo, hi = 0.0, 2.0 ** case['e']
    x = hi * 2.0 ** -j
  v = jnp.asarray([lo, hi] + [x] * (n - 2), dtype=dt)
  require(float(v[2]) == x, 'harness:position_not_representable', f'{x!r} in {case["dtype"]}')
  keys = keys_from(case['seed'], k)
  out = np.asarray(_binary_vmapped(case['dtype'])(keys, v).astype(jnp.float32), np.float64)
  require(out.shape == (k, n), 'output_shape_or_dtype', f'{out.shape}')
  require(bool(np.isin(out, [lo, hi]).all()), 'binary:output_not_min_or_max',
          lambda: f'{np.unique(out)[:6].tolist()}')
  require(bool((out[:, 0] == lo).all() and (out[:, 1] == hi).all()),
          'binary:extremes_moved', 'the minimum / maximum coordinate changed')
  ups = int((out[:, 2:] == hi).sum())
  total = k * (n - 2)
  mu = total * 2.0 ** -j
  up_bound = mu * (1 + math.sqrt(3 * 39.2 / mu))
  lo_bound = mu * (1 - math.sqrt(2 * 39.2 / mu))
  require(lo_bound <= ups <= up_bound, 'binary:biased_for_low_precision_input',
          f'{case["dtype"]} input at relative position 2^-{j}: rounded up {ups} times in '
          f'{total} draws, expected {mu:.0f} (accepted {lo_bound:.0f}..{up_bound:.0f}): '
          f'P(up) is {ups / total:.3e} instead of {2.0 ** -j:.3e}')
  return []


@st.composite
def binary_low_precision_case(draw, tier):
  if draw(st.integers(0, 2)) == 0:
    return {'dtype': 'float32', 'offset': True, 'j': draw(st.sampled_from([2, 3, 5, 1])),
            'e': draw(st.integers(-6, 6)), 'n': 258, 'K': 2000 if tier == 'quick' else 8000,
            'seed': draw(SEEDS)}
  dtype = draw(st.sampled_from(['bfloat16', 'float16', 'float32', 'bfloat16', 'float16']))
  return {'dtype': dtype, 'j': draw(st.sampled_from([9, 11] if dtype != 'bfloat16' else [9, 11, 7])),
          'e': draw(st.integers(-6, 6)), 'n': 258, 'K': 2000 if tier == 'quick' else 8000,
          'seed': draw(SEEDS)}


# ---------------------------------------------------- other random-bit layout

def child_rounds_batch(cases):
  """Runs in a child interpreter started with JAX_THREEFRY_PARTITIONABLE=0."""
  assert not jax.config.jax_threefry_partitionable
  for i, case in enumerate(cases):
    try:
      run_rounds(case)
    except Violation as v:
      return {'clause': v.clause, 'message': f'case {i}: {v.message}'}
  return {}


def run_rounds_legacy_rng(case):
  """aggregator_rounds for the rotating aggregators under the other documented
  layout of JAX's random bits (jax_threefry_partitionable=False): draws of
  different lengths from one key share no prefix there, so encoding and decoding
  must derive their signs in the same way."""
  from vf import child
  child.call('vf.props.c11', 'child_rounds_batch', case['cases'],
             {'JAX_THREEFRY_PARTITIONABLE': '0'}, 'legacy_rng')
  return []


@st.composite
def legacy_rng_case(draw, tier):
  return {'cases': [draw(rounds_case(tier, kinds=['rotated', 'drive'])) for _ in range(3)]}


def legacy_rng_labels(case):
  return sorted({l for c in case['cases'] for l in rounds_labels(c)})


CHECKS = [
    Check(name='quantize_grid', run=run_grid,
          strategy=lambda tier: q_case(tier, 'grid'),
          labels=q_labels, nontrivial=q_nontrivial,
          budget={'quick': 280, 'thorough': 4000}, time_share=2.0,
          doc='uniform / binary stochastic quantize, every one of K vmapped draws '
              'and 2 eager calls: each coordinate is (within float32 rounding) one '
              'of the two neighbouring levels of the float64 grid between min and '
              'max, error <= one step, inside [min, max], finite; binary outputs '
              'are exactly min or max'),
    Check(name='quantize_identity', run=run_identity,
          strategy=lambda tier: q_case(tier, 'identity'),
          labels=q_labels, nontrivial=identity_nontrivial,
          budget={'quick': 280, 'thorough': 3000}, time_share=1.0,
          doc='on-grid, constant and all-zero vectors pass through the uniform '
              'quantizer unchanged for every key; two-valued / constant / zero '
              'vectors through the binary quantizer exactly'),
    Check(name='quantize_unbiased', run=run_unbiased,
          strategy=lambda tier: q_case(tier, 'unbiased'),
          labels=q_labels, nontrivial=q_nontrivial,
          budget={'quick': 360, 'thorough': 5000}, time_share=0.8,
          doc='statistical: mean over K keys equals the input per coordinate '
              'within the Hoeffding bound step*sqrt(20/K) (false alarm 8.5e-18 '
              'per coordinate)'),
    Check(name='explicit_thresholds', run=run_thresholds, strategy=thresholds_case,
          labels=thresholds_labels,
          nontrivial=lambda c, ls: 'data_beyond_thresholds' in ls,
          budget={'quick': 96, 'thorough': 960}, time_share=0.8,
          doc='uniform / binary quantizer called with the documented v_min / v_max '
              'thresholds (narrower or wider than the data): outputs inside the '
              'thresholds, on their grid, within one step of the clipped input, '
              'unbiased for the clipped input'),
    Check(name='binary_low_precision_inputs', run=run_binary_low_precision,
          strategy=binary_low_precision_case,
          labels=lambda c: ['dtype:' + c['dtype'], 'position:2^-%d' % c['j']] +
          (['spread_of_few_ulps_on_a_large_offset'] if c.get('offset') else []),
          nontrivial=lambda c, ls: c['dtype'] != 'float32' or bool(c.get('offset')),
          budget={'quick': 48, 'thorough': 480}, time_share=0.6,
          doc='binary quantizer on bfloat16 / float16 / float32 vectors: a coordinate '
              'at relative position 2^-j rounds up with probability 2^-j (pooled '
              'binomial test over keys x equal coordinates, Chernoff bounds at 1e-17); '
              'also float32 vectors whose spread is 2^j ulps of a large offset'),
    Check(name='terngrad_quantize', run=run_terngrad,
          strategy=lambda tier: q_case(tier, 'terngrad'),
          labels=q_labels, nontrivial=q_nontrivial,
          budget={'quick': 280, 'thorough': 3000}, time_share=1.6,
          doc='TernGrad: outputs in {-s, 0, +s} with s = max|clip(v, 2.5 sigma)| '
              'of the float64 reference, signs preserved, finite, mean over K '
              'keys equals the clipped input (Hoeffding, width s)'),
    Check(name='aggregator_rounds', run=run_rounds, strategy=rounds_case,
          labels=rounds_labels, nontrivial=rounds_nontrivial,
          budget={'quick': 200, 'thorough': 3000}, time_share=2.6,
          doc='histories of 1-4 rounds over the five aggregators: aggregate '
              'inside the weighted hull of the per-client neighbouring levels '
              '(hence within sum w*step/sum w of the exact weighted mean), on the '
              '(refined) grid for one / identical clients, L2 bound for the '
              'rotated variant, <x_hat,x>=|x|^2 and norm bound for DRIVE, ternary '
              'hull for TernGrad; zero and constant leaves; zero total weight -> '
              'zeros; invariance to scaling all weights; finite; inputs and input '
              'state unharmed; state.rng advances; num_bits increment == formula'),
    Check(name='aggregator_rounds_legacy_rng', run=run_rounds_legacy_rng,
          strategy=legacy_rng_case, labels=legacy_rng_labels,
          nontrivial=lambda c, ls: any(rounds_nontrivial(x, rounds_labels(x)) for x in c['cases']),
          budget={'quick': 32, 'thorough': 480}, time_share=1.0,
          doc='three aggregator_rounds histories of the rotated / DRIVE aggregators per '
              'child interpreter started with JAX_THREEFRY_PARTITIONABLE=0: every clause '
              'of aggregator_rounds'),
    Check(name='aggregator_unbiased', run=run_agg_unbiased, strategy=agg_unbiased_case,
          labels=agg_unbiased_labels,
          nontrivial=lambda c, ls: len(c['clients']) >= 2,
          budget={'quick': 24, 'thorough': 320}, time_share=1.4,
          doc='uniform and TernGrad aggregators vmapped over K initial keys: every '
              'aggregate inside the weighted hull, and the mean over keys equals '
              'the exact weighted mean (of the clipped inputs for TernGrad) within '
              'the Hoeffding bound'),
    Check(name='aggregator_independence', run=run_independence, strategy=independence_case,
          labels=independence_labels, nontrivial=lambda c, ls: True,
          budget={'quick': 64, 'thorough': 800}, time_share=1.0,
          doc='designed 128-coordinate probes: identical clients must be quantized '
              'with different randomness (aggregate under weights (1,1,..) differs '
              'from the one under (1,3,..)), consecutive rounds on the same input '
              'differ, state.rng never repeats'),
]
