"""C20 -- Packaged dataset preprocessors and models agree with each other.

No dataset file exists offline, so every preprocessing function is called
directly on generated *raw* examples in the format its `load_split` docstring
documents (Shakespeare: object array of snippet bytes; StackOverflow: bytes
`tokens` / `type`; CIFAR-100: uint8 [N,32,32,3]; EMNIST: float pixels + client
id).  Clause families:

  shakespeare_tokenizer    inverse / round trip of preprocess_client
  shakespeare_table        exhaustive over the 256 byte values
  stackoverflow_tokenizer  StackoverflowTokenizer vs a pure-python tokenizer
  cifar_eval               eval preprocessing vs TensorFlow + float64 reference
  cifar_train_crops        training crops are (flipped) sub-windows
  emnist_domain_ids        exhaustive over numeric part x both id formats
  lm_metrics_agreement     packaged LM metrics / train loss on the DATASET's
                           output with generated logits vs numpy references
                           parameterised by the dataset's constants
  task_pairing             tasks.get_task with the download layer stubbed
  row_independence         apply_for_eval(batch)[i] == apply_for_eval(batch[i])
"""
import contextlib
import functools

import numpy as np
from hypothesis import strategies as st

import jax
import jax.numpy as jnp
import tensorflow as tf

import fedjax
from fedjax.core import client_datasets as cds
from fedjax.datasets import cifar100 as d_cifar
from fedjax.datasets import emnist as d_emnist
from fedjax.datasets import shakespeare as d_shk
from fedjax.datasets import stackoverflow as d_so
from fedjax.models import cifar100 as m_cifar
from fedjax.models import emnist as m_emnist
from fedjax.models import shakespeare as m_shk
from fedjax.models import stackoverflow as m_so
from fedjax.training import tasks

from vf.core import Check, require

PROPERTY_ID = 'C20'
LEVEL = 'exploration'
RULE = (
    'Raw examples are generated in the documented raw format and fed to the '
    'packaged preprocessors directly. Shakespeare: 0-6 snippets over '
    'in-vocabulary bytes, out-of-vocabulary bytes (printable and >=0x80/NUL) '
    'and empty snippets, L in 2..12 (thorough 2..40 and 80), last snippet '
    'resized so that (J-1) mod L hits {0,1,L-1} in half of the cases, direct '
    'call or through FederatedData.preprocess_client as load_data does. '
    'StackOverflow: '
    'explicit vocabularies of 3, 7 and 10000 words, 1 or 3 OOV buckets, '
    'sentences of vocabulary / OOV / non-ASCII words, irregular spacing, '
    'max_length 1..6 (thorough ..14) around the sentence length. CIFAR-100: '
    '1-3 uint8 images per batch from recipes {tiled random bytes, coordinate pattern, low '
    'contrast (2-3 adjacent values), constant, few deviating pixels incl. one '
    'pixel off by one}, crop sizes 1..32 biased to {1,2,23,24,31,32}; the '
    'global numpy RNG used by the training crops is seeded from the case. '
    'EMNIST: all numeric parts 0..9999 x both id formats (exhaustive). '
    'Agreement: the dataset output is batched exactly as evaluate_model sees '
    'it (padded_batch + mask) and each eval metric / train loss of the packaged '
    'model is evaluated on generated logits whose arg-max plan is one of '
    '{perfect, wrong exactly at EOS / BOS / OOV targets, right only at EOS, '
    'always PAD/BOS/EOS/OOV with the target second, random} (unique maxima by '
    'construction). Row independence: packaged constructors at the smallest '
    'widths, parameters filled from drawn dyadic values, inputs = dataset '
    'outputs, batches of 2-4 rows. Non-trivial: tokenizer case with >=1 '
    'snippet/sentence containing an OOV item and a padded or truncated row; '
    'image batch containing a low-contrast / constant / sparse image or a crop '
    '< 32; EMNIST id within 600 of a range boundary; agreement case with >=1 '
    'EOS target and a plan that is not `perfect`; model batch >= 2 rows with a '
    'non-identity permutation. distinct = distinct canonical case JSON.')
RULE += (
    ' '
    'Later widenings: train-loss row independence with per-row scale / shift; LM predictions '
    'with a common shift that makes every logit negative.')
ASSUMPTIONS = [
    'the download layer is out of scope: preprocessors are called on generated '
    'raw examples; in task_pairing `load_split` of the four dataset modules and '
    '`stackoverflow.default_vocab` (a gs:// read) are replaced by in-memory '
    'stand-ins, everything after them (load_data preprocessing, get_task '
    'wiring, model construction) is the tree under test',
    'Shakespeare vocabulary = the 86 bytes of the TFF text-generation tutorial '
    '(own copy in this module); only range + injectivity of character labels '
    'is asserted, not their order',
    'StackOverflow words are split on single spaces; exact ids are asserted '
    'for sentences of non-empty words separated by single spaces; for '
    'irregular spacing / the empty sentence only structure (BOS first, shift, '
    'label range, PAD suffix, order of the non-empty words) is asserted; with '
    '>1 OOV buckets only the bucket range and consistency are asserted; NUL '
    'bytes are not generated inside StackOverflow tokens',
    'standardisation tolerance against the float64 reference: '
    '|d| <= 2e-5/adjusted_std + 1e-5*|ref| + 1e-6 (float32 mean of values up '
    'to 255 is off by <= 7.6e-6, divided by adjusted_std >= 1/sqrt(N)); twice '
    'that against TensorFlow (both sides float32)',
    'training crops: only "each output image equals the standardised/'
    'normalised image restricted to some window of the requested shape, '
    'optionally mirrored left-right" is asserted; no crop distribution',
    'metric tolerances: counts and weights exact; losses 2e-5*max(1,|ref|) '
    'on the accumulated sum (float32 log-softmax of logits bounded by 52); '
    'result() = accum/weight within 1e-6*max(1,|ref|) (one float32 division)',
    'row independence tolerance 8*K*2^-24*S with K = longest dot product of '
    'the model (1728 CIFAR logistic, 9216 EMNIST conv, 784 other EMNIST; 64 '
    'for the width-2/3 LSTMs, whose dot products have <= 6 terms, to cover '
    'the recurrence) and S = max(1, max|output|, max|output of the model with all '
    'parameters and inputs replaced by absolute values|): the worst-case '
    'float32 bound for summing the same row in a different order (gemv vs '
    'gemm when the batch size changes); measured <= 766*2^-24*S. DESIGN '
    'planned rtol 1e-5 of the output, which is unsound under cancellation '
    '(4.6e-4 observed on outputs <= 1 whose summands add up to ~700)',
    'model parameters are not drawn from model.init (a 1-3 s compile per '
    'model) but filled into the shapes reported by jax.eval_shape(model.init) '
    'from drawn dyadic values in [-1, 1]',
    'EMNIST client ids are bytes (federated_data.ClientId)',
]

MASK = cds.EXAMPLE_MASK_KEY
BFIX = 4  # fixed padded batch size used for all metric evaluations


# =========================================================== small utilities

def h2b(h):
  return bytes.fromhex(h)


def obj_array(items):
  out = np.empty((len(items),), dtype=object)
  for i, v in enumerate(items):
    out[i] = v
  return out


def tiled(vals, n, stride, offset=0):
  vals = np.asarray(vals)
  idx = (np.arange(n, dtype=np.int64) * stride + offset) % len(vals)
  return vals[idx]


def close(got, want, tol):
  return bool(np.all(np.abs(np.asarray(got, np.float64) - want) <= tol))


# ================================================================ Shakespeare

SHK_VOCAB = (b'dhlptx@DHLPTX $(,048cgkoswCGKOSW[_#\'/37;?bfjnrvzBFJNRVZ"&*.26:'
             b'\naeimquyAEIMQUY]!%)-159\r')
SHK_IN = frozenset(SHK_VOCAB)
SHK_OOV_PRINTABLE = b'+<=>\\^`{|}~'
SHK_OOV_OTHER = bytes([0, 1, 9, 127, 128, 200, 255])


def shk_consts():
  return {'pad': int(d_shk.PAD), 'bos': int(d_shk.BOS), 'eos': int(d_shk.EOS),
          'oov': int(d_shk.OOV), 'V': int(d_shk.VOCAB_SIZE)}


def shk_char_label(b, c):
  """Label of byte b according to the dataset's table, validated."""
  lab = int(d_shk.TABLE[b])
  if b in SHK_IN:
    require(lab not in (c['pad'], c['bos'], c['eos'], c['oov']) and
            0 <= lab < c['V'], 'shakespeare:in_vocab_byte_label',
            lambda: f'byte {b} -> {lab}')
  else:
    require(lab == c['oov'], 'shakespeare:oov_byte_label',
            lambda: f'byte {b} -> {lab}, OOV={c["oov"]}')
  return lab


def shk_stream(snippets, c):
  out = []
  for s in snippets:
    out.append(c['bos'])
    out.extend(shk_char_label(b, c) for b in s)
    out.append(c['eos'])
  return out


def shk_preprocess(snippets, length, via):
  arr = obj_array(list(snippets))
  raw = {'snippets': arr}
  if via == 'federated':
    # The path load_data() takes.
    fd = fedjax.InMemoryFederatedData({b'client': raw}).preprocess_client(
        functools.partial(d_shk.preprocess_client, sequence_length=length))
    out = fd.get_client(b'client').all_examples()
  else:
    out = d_shk.preprocess_client(b'client', raw, length)
  require(list(arr) == list(snippets), 'shakespeare:input_mutated')
  return out


def check_shk_output(out, snippets, length, c):
  """The inverse / round-trip oracle of DESIGN C20.O."""
  require(set(out) == {'x', 'y'}, 'shakespeare:features', lambda: sorted(out))
  x, y = np.asarray(out['x']), np.asarray(out['y'])
  stream = shk_stream(snippets, c)
  j = len(stream)
  n = max(j - 1, 0)
  rows = -(-n // length)
  for name, v in (('x', x), ('y', y)):
    require(v.dtype == np.int32, 'shakespeare:dtype', lambda: f'{name}: {v.dtype}')
    require(v.shape == (rows, length), 'shakespeare:shape',
            lambda: f'{name}: {v.shape}, want {(rows, length)} for J={j}')
    require(v.size == 0 or (int(v.min()) >= 0 and int(v.max()) < c['V']),
            'shakespeare:label_outside_vocabulary', lambda: f'{name}: {v.tolist()}')
  fx, fy = x.reshape(-1), y.reshape(-1)
  require(not fx[n:].any() and not fy[n:].any() and c['pad'] == 0,
          'shakespeare:padding_not_pad', lambda: f'x {x.tolist()} y {y.tolist()}')
  require(c['pad'] not in fx[:n].tolist() and c['pad'] not in fy[:n].tolist(),
          'shakespeare:pad_inside_stream', lambda: f'x {x.tolist()} y {y.tolist()}')
  # Padding removed, y is exactly chars..,EOS,BOS,chars..,EOS.
  require(fy[:n].tolist() == stream[1:], 'shakespeare:target_stream',
          lambda: f'y {fy[:n].tolist()} want {stream[1:]}')
  require(fx[:n].tolist() == stream[:-1], 'shakespeare:input_stream',
          lambda: f'x {fx[:n].tolist()} want {stream[:-1]}')
  # Targets are inputs shifted by one.
  require(fy[:max(n - 1, 0)].tolist() == fx[1:n].tolist(),
          'shakespeare:targets_not_shifted_inputs')
  return x, y


def run_shk_tokenizer(case):
  c = shk_consts()
  snippets = [h2b(s) for s in case['snippets']]
  out = shk_preprocess(snippets, case['L'], case['via'])
  check_shk_output(out, snippets, case['L'], c)


def run_shk_table(case):
  c = shk_consts()
  b = case['byte']
  require(d_shk.TABLE.shape == (256,) and d_shk.TABLE.dtype == np.int32,
          'shakespeare:table_type')
  require(len({c['pad'], c['bos'], c['eos'], c['oov']}) == 4 and
          c['oov'] == c['V'] - 1, 'shakespeare:reserved_labels', lambda: c)
  lab = shk_char_label(b, c)
  if b in SHK_IN:
    same = [o for o in SHK_IN if o != b and int(d_shk.TABLE[o]) == lab]
    require(not same, 'shakespeare:labels_not_injective',
            lambda: f'bytes {b} and {same} -> {lab}')
  # The model is built for exactly this many character labels.
  require(c['V'] == len(SHK_IN) + 4, 'shakespeare:vocab_size',
          lambda: f'VOCAB_SIZE {c["V"]} for {len(SHK_IN)} characters')


# Byte palettes: one st.binary draw per snippet (cheap), mapped through a
# palette so that vocabulary bytes, printable OOV bytes and NUL / >=0x80 bytes
# all stay frequent.  'raw' keeps the drawn bytes (2/3 of all byte values are OOV).
_VOC = sorted(SHK_IN)
SHK_PALETTES = {
    'raw': bytes(range(256)),
    'mixed': bytes((_VOC[b % 86] if b < 200 else
                    (SHK_OOV_PRINTABLE + SHK_OOV_OTHER)[b % 18]) for b in range(256)),
    'vocab_only': bytes(_VOC[b % 86] for b in range(256)),
}


@st.composite
def shk_snippets(draw, length, max_snippets=6, max_len=None, min_total=None):
  """Snippet list whose joined length lands around multiples of `length`."""
  max_len = max_len or 2 * length
  k = draw(st.integers(0, max_snippets) if min_total is None else
           st.integers(1, max_snippets))
  lens = [draw(st.one_of(st.just(0), st.integers(0, max_len), st.integers(0, 3)))
          for _ in range(k)]
  if k:
    j = sum(lens) + 2 * k
    snap = draw(st.sampled_from([None, None, None, 0, 1, length - 1]))
    if snap is not None:
      lens[-1] += (snap - (j - 1)) % length
    if min_total is not None:
      j = sum(lens) + 2 * k
      if j - 1 < min_total:
        lens[-1] += min_total - (j - 1)
  palette = SHK_PALETTES[draw(st.sampled_from(['mixed', 'mixed', 'raw', 'vocab_only']))]
  return [draw(st.binary(min_size=n, max_size=n)).translate(palette).hex() for n in lens]


@st.composite
def shk_tokenizer_strategy(draw, tier):
  lmax = 12 if tier == 'quick' else 40
  length = draw(st.one_of(st.integers(2, lmax), st.sampled_from([2, 3, 80 if tier != 'quick' else 5])))
  return {'snippets': draw(shk_snippets(length, max_len=min(2 * length, 40))),
          'L': length, 'via': draw(st.sampled_from(['direct', 'direct', 'federated']))}


def shk_labels(case):
  snippets = [h2b(s) for s in case['snippets']]
  length = case['L']
  j = sum(len(s) + 2 for s in snippets)
  ls = ['via:' + case['via']]
  if not snippets:
    ls.append('no_snippets')
    return ls
  r = (j - 1) % length
  ls.append('rem=0' if r == 0 else 'rem=1' if r == 1 else
            'rem=L-1' if r == length - 1 else 'rem=other')
  if any(not s for s in snippets):
    ls.append('empty_snippet')
  if all(not s for s in snippets):
    ls.append('only_empty_snippets')
  if any(b not in SHK_IN for s in snippets for b in s):
    ls.append('has_oov')
  if any(b >= 128 or b == 0 for s in snippets for b in s):
    ls.append('has_non_ascii_or_nul')
  if len(snippets) >= 2:
    ls.append('snippets>=2')
  rows = -(-(j - 1) // length)
  ls.append('rows=1' if rows == 1 else 'rows>=2')
  if length == 2:
    ls.append('L=2')
  return ls


def shk_nontrivial(case, ls):
  return 'has_oov' in ls and 'rem=0' not in ls and 'no_snippets' not in ls


# ============================================================== StackOverflow

SO_VOCABS = {
    'v3': ['a', 'b', 'c'],
    'v7': ['the', 'to', 'i', 'a', 'is', 'in', 'c++'],
    # The size the packaged model / default tokenizer use.
    'v10000': ['w%d' % i for i in range(10000)],
}
SO_INDEX = {k: {w.encode(): i for i, w in enumerate(v)} for k, v in SO_VOCABS.items()}
SO_OOV_WORDS = [b'zz', b'A', b'w10000', b'a.', b'ab', b'The', b'\xc3\xa9t\xc3\xa9',
                b'\xff\xfe', b'-', b'w']


@functools.lru_cache(maxsize=None)
def so_tokenizer(vocab, buckets):
  return d_so.StackoverflowTokenizer(vocab=list(SO_VOCABS[vocab]),
                                     num_oov_buckets=buckets)


@functools.lru_cache(maxsize=None)
def so_preprocess_batch(vocab, buckets, max_length):
  return so_tokenizer(vocab, buckets).as_preprocess_batch(max_length)


@functools.lru_cache(maxsize=None)
def so_token_to_ids(vocab, buckets, max_length):
  return so_tokenizer(vocab, buckets).create_token_to_ids_fn(max_length)


def so_consts(vocab):
  n = len(SO_VOCABS[vocab])
  t = d_so.StackoverflowTokenizer
  return {'pad': int(t.PAD), 'bos': int(t.BOS), 'eos': int(t.EOS),
          'oov': n + 3, 'V': n + 4}


def so_is_regular(sentence):
  return bool(sentence) and all(sentence.split(b' '))


def check_so_rows(x, y, sentences, vocab, buckets, max_length):
  n = len(SO_VOCABS[vocab])
  c = so_consts(vocab)
  index = SO_INDEX[vocab]
  for name, v in (('x', x), ('y', y)):
    require(isinstance(v, np.ndarray) and v.dtype == np.int32,
            'stackoverflow:dtype', lambda: f'{name}: {type(v)} {getattr(v, "dtype", None)}')
    require(v.shape == (len(sentences), max_length), 'stackoverflow:shape',
            lambda: f'{name}: {v.shape} want {(len(sentences), max_length)}')
    require(v.size == 0 or (int(v.min()) >= 0 and int(v.max()) < n + 3 + buckets),
            'stackoverflow:label_outside_vocabulary', lambda: f'{name}: {v.tolist()}')
  seen_oov = {}
  for r, s in enumerate(sentences):
    xr, yr = x[r].tolist(), y[r].tolist()
    where = f'sentence {s!r} max_length {max_length}: x {xr} y {yr}'
    words = s.split(b' ')
    # Structure that holds under any white-space convention.
    require(xr[0] == c['bos'], 'stackoverflow:x_does_not_start_with_bos', where)
    real = sum(1 for v in yr if v != c['pad'])
    require(all(v != c['pad'] for v in yr[:real]) and not any(yr[real:]) and
            not any(xr[real:]) and all(v != c['pad'] for v in xr[:real]),
            'stackoverflow:pad_not_a_suffix', where)
    require(yr[:real - 1] == xr[1:real], 'stackoverflow:targets_not_shifted_inputs', where)
    require(c['bos'] not in yr and c['eos'] not in xr and c['bos'] not in xr[1:] and
            c['eos'] not in yr[:real - 1], 'stackoverflow:bos_eos_position', where)
    if so_is_regular(s):
      want = []
      for w in words:
        if w in index:
          want.append(index[w] + 3)
        elif buckets == 1:
          want.append(c['oov'])
        else:
          want.append(None)
      seq = [c['bos']] + want + [c['eos']]
      wx = (seq[:-1] + [0] * max_length)[:max_length]
      wy = (seq[1:] + [0] * max_length)[:max_length]
      for got, wanted, nm in ((xr, wx, 'x'), (yr, wy, 'y')):
        for t, (g, w_) in enumerate(zip(got, wanted)):
          if w_ is None:
            require(n + 3 <= g < n + 3 + buckets, 'stackoverflow:oov_bucket_range',
                    lambda: f'{where}: {nm}[{t}]={g}')
          else:
            require(g == w_, 'stackoverflow:ids', lambda: f'{where}: want {nm} {wanted}')
      # The same OOV word always lands in the same bucket.
      for t, w in enumerate(words):
        if w not in index and t < max_length:
          g = yr[t]
          require(seen_oov.setdefault(w, g) == g, 'stackoverflow:oov_bucket_unstable', where)
    else:
      ids = [index[w] + 3 for w in words if w and w in index]
      body = [v for v in yr if 3 <= v < n + 3]
      # Non-empty vocabulary words appear in order (a prefix of them if truncated).
      require(body == ids[:len(body)] and (len(body) == len(ids) or real == max_length),
              'stackoverflow:ids', lambda: f'{where}: vocabulary words {ids}')


def run_so_tokenizer(case):
  vocab, buckets, max_length = case['vocab'], case['oov_buckets'], case['max_length']
  sentences = [h2b(s) for s in case['sentences']]
  types = [b'answer' if t else b'question' for t in case['answer']]
  raw = {
      'tokens': obj_array(sentences),
      'type': obj_array(types),
      'score': np.arange(len(sentences), dtype=np.int64),
      'title': obj_array([b'title'] * len(sentences)),
  }
  pre = d_so.preprocess_client(b'cid', raw)
  require(set(pre) == {'domain_id', 'tokens'}, 'stackoverflow:client_features',
          lambda: sorted(pre))
  dom = np.asarray(pre['domain_id'])
  require(dom.dtype == np.int32 and dom.tolist() == [int(t) for t in case['answer']],
          'stackoverflow:domain_id', lambda: f'{dom.dtype} {dom.tolist()}')
  require(list(pre['tokens']) == sentences, 'stackoverflow:tokens_changed')
  if case['call'] == 'token_to_ids':
    with tf.device('cpu'):
      x, y = so_token_to_ids(vocab, buckets, max_length)(tf.constant(sentences, tf.string)
                                                         if sentences else
                                                         tf.zeros([0], tf.string))
    x, y = x.numpy(), y.numpy()
  else:
    examples = dict(pre)
    if case['call'] == 'no_domain':
      del examples['domain_id']
    out = so_preprocess_batch(vocab, buckets, max_length)(examples)
    want_keys = {'x', 'y'} | ({'domain_id'} if 'domain_id' in examples else set())
    require(set(out) == want_keys, 'stackoverflow:batch_features', lambda: sorted(out))
    if 'domain_id' in out:
      require(np.array_equal(out['domain_id'], dom), 'stackoverflow:domain_id')
    x, y = out['x'], out['y']
  check_so_rows(x, y, sentences, vocab, buckets, max_length)
  require(list(raw['tokens']) == sentences, 'stackoverflow:input_mutated')


@st.composite
def so_sentence(draw, vocab, regular_only=False, max_words=9):
  words_in = SO_VOCABS[vocab]
  if vocab == 'v10000':
    in_word = st.sampled_from(['w0', 'w1', 'w2', 'w4999', 'w9998', 'w9999']) | st.integers(
        0, 9999).map(lambda i: 'w%d' % i)
  else:
    in_word = st.sampled_from(words_in)
  word = st.one_of(in_word.map(lambda w: w.encode()), in_word.map(lambda w: w.encode()),
                   st.sampled_from(SO_OOV_WORDS))
  irregular = not regular_only and draw(st.sampled_from([False, False, True]))
  if irregular:
    word = st.one_of(word, word, word, st.just(b''))
  min_words = 0 if irregular else 1
  words = draw(st.lists(word, min_size=min_words, max_size=max_words))
  return b' '.join(words).hex()


@st.composite
def so_tokenizer_strategy(draw, tier):
  # Every (vocab, buckets, max_length) is a fresh tf.function trace (~0.3 s):
  # four tokenizers x max_length 1..6 (quick).
  vocab, buckets = draw(st.sampled_from([('v3', 1), ('v7', 1), ('v7', 1), ('v7', 3),
                                         ('v10000', 1)]))
  sentences = draw(st.lists(so_sentence(vocab), min_size=draw(st.sampled_from([0, 1, 1, 2])),
                            max_size=5))
  nwords = [len(h2b(s).split(b' ')) for s in sentences] or [1]
  lmax = 6 if tier == 'quick' else 14
  around = sorted({min(max(1, n + d), lmax) for n in nwords for d in (-1, 0, 1, 2)})
  max_length = draw(st.one_of(st.sampled_from(around), st.integers(1, lmax)))
  calls = ['preprocess_batch', 'preprocess_batch', 'no_domain']
  if (vocab, buckets) == ('v7', 1):
    calls.append('token_to_ids')
  return {'vocab': vocab, 'oov_buckets': buckets, 'max_length': max_length,
          'sentences': sentences,
          'answer': [draw(st.booleans()) for _ in sentences],
          'call': draw(st.sampled_from(calls))}


def so_labels(case):
  ls = ['vocab:' + case['vocab'], 'buckets:%d' % case['oov_buckets'], 'call:' + case['call']]
  sentences = [h2b(s) for s in case['sentences']]
  index = SO_INDEX[case['vocab']]
  if not sentences:
    ls.append('no_sentences')
  seen = set()
  for s in sentences:
    words = s.split(b' ')
    n = len(words)  # y holds n words + EOS
    if not so_is_regular(s):
      seen.add('irregular_spacing' if s else 'empty_sentence')
    if any(w and w not in index for w in words):
      seen.add('has_oov')
    if any(b >= 128 for b in s):
      seen.add('non_ascii')
    ml = case['max_length']
    seen.add('truncated' if n + 1 > ml else 'exact_fit' if n + 1 == ml else 'padded')
    if n == ml:
      seen.add('eos_just_cut')
  return ls + sorted(seen)


def so_nontrivial(case, ls):
  return 'has_oov' in ls and ('truncated' in ls or 'padded' in ls)


# ================================================================== CIFAR-100

def build_image(rec):
  """uint8 [32,32,3] from a JSON recipe."""
  n = 32 * 32 * 3
  kind = rec['kind']
  if kind == 'const':
    img = np.full((n,), rec['base'], np.int64)
  elif kind == 'tile':
    img = tiled(rec['vals'], n, rec['stride'], rec['offset'])
  elif kind == 'low':
    img = rec['base'] + tiled(rec['pattern'], n, rec['stride'], rec['offset'])
  elif kind == 'coord':
    i, j, c = np.meshgrid(np.arange(32), np.arange(32), np.arange(3), indexing='ij')
    a, b, d, e = rec['coef']
    img = (a * i + b * j + d * c + e) % rec['mod']
  elif kind == 'sparse':
    img = np.full((32, 32, 3), rec['base'], np.int64)
    for i, j, c, v in rec['points']:
      img[i, j, c] = v
  else:
    raise ValueError(kind)
  img = np.asarray(img).reshape(32, 32, 3)
  assert img.min() >= 0 and img.max() <= 255, rec
  return img.astype(np.uint8)


_u8 = st.integers(0, 255)
_odd = st.integers(0, 200).map(lambda k: 2 * k + 1)


def image_recipe():
  return st.one_of(
      st.fixed_dictionaries({'kind': st.just('tile'),
                             'vals': st.lists(_u8, min_size=2, max_size=40),
                             'stride': _odd, 'offset': st.integers(0, 50)}),
      st.fixed_dictionaries({'kind': st.just('coord'),
                             'coef': st.lists(st.integers(0, 40), min_size=4, max_size=4),
                             'mod': st.sampled_from([256, 251, 97, 7, 2])}),
      st.fixed_dictionaries({'kind': st.just('low'), 'base': st.integers(0, 253),
                             'pattern': st.lists(st.integers(0, 2), min_size=2, max_size=12),
                             'stride': _odd, 'offset': st.integers(0, 11)}),
      st.fixed_dictionaries({'kind': st.just('const'),
                             'base': st.one_of(_u8, st.sampled_from([0, 1, 127, 255]))}),
      st.fixed_dictionaries({
          'kind': st.just('sparse'), 'base': st.integers(1, 254),
          'points': st.lists(st.tuples(
              st.integers(0, 31), st.integers(0, 31), st.integers(0, 2),
              st.one_of(_u8, st.sampled_from([0, 255]))).map(list), min_size=1, max_size=3),
          'off_by_one': st.booleans()}).map(_fix_sparse))


def _fix_sparse(rec):
  # Half of the sparse images deviate from the base by exactly one grey level:
  # their std sits right at TensorFlow's 1/sqrt(N) floor.
  if rec.pop('off_by_one'):
    rec['points'] = [[i, j, c, rec['base'] + (1 if k % 2 == 0 else -1)]
                     for k, (i, j, c, _) in enumerate(rec['points'])]
  return rec


_crop = st.one_of(st.integers(1, 32), st.sampled_from([1, 2, 3, 16, 23, 24, 25, 31, 32]))


def std_ref64(win):
  """TensorFlow's per_image_standardization in float64 over the last 3 axes."""
  win = np.asarray(win, np.float64)
  n = win.shape[-1] * win.shape[-2] * win.shape[-3]
  mean = win.mean(axis=(-1, -2, -3), keepdims=True)
  std = win.std(axis=(-1, -2, -3), keepdims=True)
  adj = np.maximum(std, 1.0 / np.sqrt(n))
  ref = (win - mean) / adj
  return ref, 2e-5 / adj + 1e-5 * np.abs(ref) + 1e-6


def pytorch_ref64(img):
  mean = np.array([0.4914, 0.4822, 0.4465])
  std = np.array([0.2023, 0.1994, 0.2010])
  return (np.asarray(img, np.float64) / 255 - mean) / std


def centre(images, h, w):
  top, left = (32 - h) // 2, (32 - w) // 2
  return images[:, top:top + h, left:left + w, :]


def run_cifar_eval(case):
  images = np.stack([build_image(r) for r in case['images']])
  before = images.copy()
  labels = np.asarray(case['labels'], np.int32)
  h, w, call = case['h'], case['w'], case['call']
  if call == 'pytorch_eval':
    out = d_cifar.preprocess_batch({'x': images, 'y': labels}, is_train=False)
    require(set(out) == {'x', 'y'} and out['y'] is labels, 'cifar:batch_features')
    got = np.asarray(out['x'])
    require(got.dtype == np.float32 and got.shape == images.shape, 'cifar:pytorch_shape',
            lambda: f'{got.dtype} {got.shape}')
    ref = pytorch_ref64(images)
    require(close(got, ref, 1e-5), 'cifar:pytorch_eval_normalisation',
            lambda: f'max abs dev {np.abs(got - ref).max()}')
    require(np.array_equal(images, before), 'cifar:input_mutated')
    return
  if call == 'image':
    got = d_cifar.preprocess_image_tff(images, h, w, False)
  else:
    kwargs = {} if call == 'batch_default' else {'crop_height': h, 'crop_width': w}
    if call == 'batch_default':
      h = w = 24
    out = d_cifar.preprocess_batch_tff({'x': images, 'y': labels}, **kwargs)
    require(set(out) == {'x', 'y'} and np.array_equal(out['y'], labels) and
            np.asarray(out['y']).dtype == np.int32, 'cifar:batch_features')
    got = out['x']
  got = np.asarray(got)
  require(got.dtype == np.float32 and got.shape == (len(images), h, w, 3),
          'cifar:eval_shape', lambda: f'{got.dtype} {got.shape} for crop {h}x{w}')
  require(bool(np.isfinite(got).all()), 'cifar:eval_not_finite')
  ref, tol = std_ref64(centre(images, h, w))
  dev = np.abs(got - ref)
  require(bool((dev <= tol).all()), 'cifar:eval_vs_float64_reference',
          lambda: f'crop {h}x{w}: max abs dev {dev.max()} (tol there '
                  f'{tol.reshape(-1)[dev.argmax()] if tol.size == dev.size else tol.max()})')
  with tf.device('cpu'):
    want = tf.image.per_image_standardization(
        tf.image.resize_with_crop_or_pad(tf.constant(images), h, w)).numpy()
  require(want.shape == got.shape, 'cifar:eval_vs_tensorflow',
          lambda: f'shape {got.shape} vs TF {want.shape}')
  dev = np.abs(got - want.astype(np.float64))
  require(bool((dev <= 2 * tol).all()), 'cifar:eval_vs_tensorflow',
          lambda: f'crop {h}x{w}: max abs dev {dev.max()}')
  require(np.array_equal(images, before), 'cifar:input_mutated')
  return ['tf_bit_equal'] if np.array_equal(got, want) else ['tf_within_tolerance']


def run_cifar_train(case):
  images = np.stack([build_image(r) for r in case['images']])
  before = images.copy()
  h, w = case['h'], case['w']
  # The code under test draws from the global numpy RNG: seeded from the case.
  np.random.seed(case['np_seed'])
  if case['fn'] == 'pytorch':
    h = w = 32
    got = np.asarray(d_cifar.preprocess_image(images, is_train=True))
    padded = np.pad(images, [(0, 0), (4, 4), (4, 4), (0, 0)], mode='constant')
    refs = [(pytorch_ref64(p), 1e-5) for p in padded]
  elif case['fn'] == 'tff_batch':
    out = d_cifar.preprocess_batch_tff({'x': images, 'y': np.zeros(len(images), np.int32)},
                                       crop_height=h, crop_width=w, distort=True)
    got = np.asarray(out['x'])
    refs = None
  else:
    got = np.asarray(d_cifar.preprocess_image_tff(images, h, w, True))
    refs = None
  require(got.dtype == np.float32 and got.shape == (len(images), h, w, 3),
          'cifar:train_crop_shape', lambda: f'{got.dtype} {got.shape} for crop {h}x{w}')
  require(np.array_equal(images, before), 'cifar:input_mutated')
  extra = set()
  for n, img in enumerate(images):
    g = got[n].astype(np.float64)
    if refs is None:
      wins = np.lib.stride_tricks.sliding_window_view(
          img.astype(np.float64), (h, w, 3))[:, :, 0]
      ref, tol = std_ref64(wins)
    else:
      full, tol = refs[n]
      ref = np.lib.stride_tricks.sliding_window_view(full, (h, w, 3))[:, :, 0]
    plain = (np.abs(ref - g) <= tol).all(axis=(-1, -2, -3))
    mirrored = (np.abs(ref - g[:, ::-1, :]) <= tol).all(axis=(-1, -2, -3))
    require(bool(plain.any() or mirrored.any()), 'cifar:train_crop_not_a_sub_window',
            lambda: f'image {n} ({case["images"][n]["kind"]}), crop {h}x{w}, '
                    f'np_seed {case["np_seed"]}: no window of the '
                    f'{"zero-padded " if refs else ""}image (plain or mirrored) matches')
    if plain.sum() + mirrored.sum() == 1:
      extra.add('window_identified_uniquely')
      extra.add('mirrored' if mirrored.any() else 'not_mirrored')
  return sorted(extra)


@st.composite
def cifar_eval_strategy(draw, tier):
  images = draw(st.lists(image_recipe(), min_size=1, max_size=3))
  call = draw(st.sampled_from(['image', 'image', 'batch', 'batch_default', 'pytorch_eval']))
  return {'images': images, 'labels': [draw(st.integers(0, 99)) for _ in images],
          'h': draw(_crop), 'w': draw(_crop), 'call': call}


@st.composite
def cifar_train_strategy(draw, tier):
  images = draw(st.lists(image_recipe(), min_size=1, max_size=2))
  return {'images': images, 'h': draw(_crop), 'w': draw(_crop),
          'fn': draw(st.sampled_from(['tff', 'tff', 'tff_batch', 'pytorch'])),
          'np_seed': draw(st.integers(0, 2**32 - 1))}


def cifar_labels(case):
  ls = [case.get('call') or ('fn:' + case['fn'])]
  for r in case['images']:
    ls.append('img:' + r['kind'])
    if r['kind'] == 'sparse' and all(abs(p[3] - r['base']) == 1 for p in r['points']):
      ls.append('img:std_at_floor')
    if r['kind'] == 'tile' and len(set(r['vals'])) == 1:
      ls.append('img:const')
  uses_crop = case.get('call') in ('image', 'batch') or case.get('fn') in ('tff', 'tff_batch')
  if uses_crop:
    h, w = case['h'], case['w']
    ls.append('crop=32x32' if (h, w) == (32, 32) else 'crop=1x1' if (h, w) == (1, 1) else
              'crop<32')
    if (32 - h) % 2 or (32 - w) % 2:
      ls.append('odd_margin')
    if h != w:
      ls.append('h!=w')
  return ls


def cifar_nontrivial(case, ls):
  return any(l in ls for l in ('img:low', 'img:const', 'img:sparse', 'crop<32', 'crop=1x1'))


# ===================================================================== EMNIST

def emnist_id(n, long_format, salt):
  short = b'f%04d_%02d' % (n, (n * 7 + salt) % 100)
  if not long_format:
    return short
  h = (n * 0x9E3779B97F4A7C15 + salt * 0x1234567) & (2**64 - 1)
  return b'%016x:' % h + short


def emnist_ref_domain(n):
  """NIST SD19: writers f2100..f2599 are the high-school partition (hsf_4)."""
  return 0 if 2100 <= n <= 2599 else 1


def emnist_cases(tier):
  for n in range(10000):
    for long_format in (False, True):
      yield {'n': n, 'long': long_format, 'salt': (n * 31 + 5) % 97}


def run_emnist_id(case):
  n = case['n']
  cid = emnist_id(n, case['long'], case['salt'])
  assert len(cid) == (25 if case['long'] else 8)
  got = d_emnist.domain_id(cid)
  want = emnist_ref_domain(n)
  require(got == want and isinstance(got, (int, np.integer)),
          'emnist:domain_id', lambda: f'{cid!r}: {got!r} want {want}')
  if n % 25 == 0 or 2090 <= n <= 2610:
    rows = 1 + n % 3
    raw = {'pixels': (tiled(np.arange(17), rows * 784, 5, n) / 16.0).astype(
        np.float32).reshape(rows, 28, 28),
           'label': ((np.arange(rows) * 13 + n) % 62).astype(np.int32)}
    out = d_emnist.preprocess_batch(d_emnist.preprocess_client(cid, raw))
    check_emnist_batch(out, raw, want)


def check_emnist_batch(out, raw, domain):
  require(set(out) == {'x', 'y', 'domain_id'}, 'emnist:features', lambda: sorted(out))
  rows = len(raw['label'])
  x = np.asarray(out['x'])
  require(x.shape == (rows, 28, 28, 1) and x.dtype == np.float32, 'emnist:x_shape',
          lambda: f'{x.dtype} {x.shape}')
  require(np.array_equal(x[..., 0], (1 - raw['pixels'].astype(np.float64)).astype(np.float32)),
          'emnist:x_not_flipped_pixels')
  require(np.array_equal(out['y'], raw['label']) and
          np.asarray(out['y']).dtype == raw['label'].dtype, 'emnist:y')
  dom = np.asarray(out['domain_id'])
  require(dom.shape == (rows,) and dom.dtype == raw['label'].dtype and
          bool((dom == domain).all()), 'emnist:domain_id_feature',
          lambda: f'{dom.dtype} {dom.tolist()} want {domain}')


def emnist_labels(case):
  n = case['n']
  ls = ['long_id' if case['long'] else 'short_id', 'domain:%d' % emnist_ref_domain(n)]
  if n in (2099, 2100, 2599, 2600):
    ls.append('boundary')
  return ls


# ========================================== logits plans + numpy references

def lm_plan(y, c, mode, ks):
  """(k1, k2): index of the top logit / of the best non-special logit."""
  v = c['V']
  special = {c['pad'], c['bos'], c['eos'], c['oov']}
  chars = [i for i in range(v) if i not in special]
  flat = y.reshape(-1)
  k1 = np.zeros_like(flat)
  k2 = np.zeros_like(flat)

  def char(q, avoid):
    ch = chars[q % len(chars)]
    if ch == avoid:
      ch = chars[(q + 1) % len(chars)]
    return ch

  for p, t in enumerate(flat.tolist()):
    q = ks[p % len(ks)] + p
    wrong = char(q, t)
    if mode == 'perfect':
      a = t
    elif mode == 'wrong_at_eos':
      a = wrong if t == c['eos'] else t
    elif mode == 'wrong_at_bos':
      a = wrong if t == c['bos'] else t
    elif mode == 'wrong_at_oov':
      a = wrong if t == c['oov'] else t
    elif mode == 'only_eos_right':
      a = t if t == c['eos'] else wrong
    elif mode in ('always_pad', 'always_bos', 'always_eos', 'always_oov'):
      a = c[mode[7:]]
    elif mode == 'special_over_target':
      a = sorted(special)[q % 4]
    elif mode == 'random':
      a = q % v
    else:
      raise ValueError(mode)
    # Best non-special logit: the target when it is an ordinary label and not
    # already the top one, otherwise some other ordinary label.
    b = t if (t not in special and t != a and mode != 'random') else char(q + 7, a)
    if b == a:
      b = char(q + 8, a)
    k1[p], k2[p] = a, b
  return k1.reshape(y.shape), k2.reshape(y.shape)


LM_MODES = ['wrong_at_eos', 'perfect', 'wrong_at_bos', 'wrong_at_oov', 'only_eos_right',
            'always_pad', 'always_bos', 'always_eos', 'always_oov',
            'special_over_target', 'random', 'wrong_at_eos', 'random']


def lm_logits(y, c, mode, ks, noise, stride, shift=0):
  b, length = y.shape
  v = c['V']
  base = tiled(np.asarray(noise, np.float32) / 2, b * length * v, stride).reshape(b, length, v)
  k1, k2 = lm_plan(y, c, mode, ks)
  logits = base.copy()
  bi, ti = np.meshgrid(np.arange(b), np.arange(length), indexing='ij')
  logits[bi, ti, k2] += 16.0
  logits[bi, ti, k1] += 32.0
  # (a common shift changes neither softmax nor arg-max; with shift >= 64 every
  # logit -- the best ordinary label included -- is negative)
  return (logits - float(shift)).astype(np.float32)


def cross_entropy64(logits, targets):
  z = np.asarray(logits, np.float64)
  m = z.max(axis=-1, keepdims=True)
  lse = m[..., 0] + np.log(np.exp(z - m).sum(axis=-1))
  return lse - np.take_along_axis(z, targets[..., None], axis=-1)[..., 0]


def unique_argmax(z):
  top = z.max(axis=-1, keepdims=True)
  assert ((z == top).sum(axis=-1) == 1).all(), 'generator bug: tied maximum'
  return z.argmax(axis=-1)


def lm_reference(batches, c):
  """numpy/float64 definition of the packaged LM metrics, from the DATASET's ids.

  batches: list of (y [B,L] int, logits [B,L,V], mask [B] bool).
  Returns name -> (accum, weight-or-None).
  """
  acc = {k: [0.0, 0.0] for k in (
      'accuracy_in_vocab', 'accuracy_no_eos', 'sequence_length', 'sequence_loss',
      'token_loss', 'token_oov_rate', 'truncation_rate')}
  num_tokens = 0.0
  for y, logits, mask in batches:
    y = y[mask]
    z = np.asarray(logits, np.float64)[mask]
    if not len(y):
      continue
    non_pad = y != c['pad']
    scored = non_pad & (y != c['eos'])
    ce = cross_entropy64(z, y)
    pred = unique_argmax(z)
    zin = z.copy()
    for s in (c['pad'], c['bos'], c['eos'], c['oov']):
      zin[..., s] = -np.inf
    pred_in = unique_argmax(zin)
    non_empty = non_pad.any(axis=-1)
    num_tokens += non_pad.sum()
    acc['accuracy_no_eos'][0] += ((pred == y) & scored).sum()
    acc['accuracy_no_eos'][1] += scored.sum()
    acc['accuracy_in_vocab'][0] += ((pred_in == y) & scored).sum()
    acc['accuracy_in_vocab'][1] += scored.sum()
    acc['sequence_length'][0] += non_pad.sum()
    acc['sequence_length'][1] += non_empty.sum()
    acc['sequence_loss'][0] += (ce * non_pad).sum()
    acc['sequence_loss'][1] += non_empty.sum()
    acc['token_loss'][0] += (ce * non_pad).sum()
    acc['token_loss'][1] += non_pad.sum()
    acc['token_oov_rate'][0] += ((y == c['oov']) & non_pad).sum()
    acc['token_oov_rate'][1] += non_pad.sum()
    acc['truncation_rate'][0] += (non_empty & ~(y == c['eos']).any(axis=-1)).sum()
    acc['truncation_rate'][1] += non_empty.sum()
  out = {k: (float(a), float(w)) for k, (a, w) in acc.items()}
  out['num_tokens'] = (float(num_tokens), None)
  return out


def cls_reference(batches):
  loss = [0.0, 0.0]
  accuracy = [0.0, 0.0]
  for y, logits, mask in batches:
    y = y[mask]
    z = np.asarray(logits, np.float64)[mask]
    if not len(y):
      continue
    loss[0] += cross_entropy64(z, y).sum()
    accuracy[0] += (unique_argmax(z) == y).sum()
    loss[1] += len(y)
    accuracy[1] += len(y)
  return {'loss': tuple(map(float, loss)), 'accuracy': tuple(map(float, accuracy))}


LOSSY = ('sequence_loss', 'token_loss', 'loss')


def evaluate_metrics(model, batches):
  """What evaluate_model does per batch, with given predictions."""
  stats = {k: m.zero() for k, m in model.eval_metrics.items()}
  for batch, logits in batches:
    mask = np.asarray(batch[MASK], np.bool_)
    for k, m in model.eval_metrics.items():
      stats[k] = stats[k].merge(fedjax.metrics.evaluate_batch(m, batch, logits, mask))
  return stats


def compare_stats(stats, ref, names, prefix):
  missing = [n for n in names if n not in stats]
  require(not missing, f'{prefix}:metric_missing', lambda: f'{missing}')
  for name in names:
    stat = stats[name]
    want_accum, want_weight = ref[name]
    accum = float(np.asarray(stat.accum))
    tol = 2e-5 * max(1.0, abs(want_accum)) if name in LOSSY else 0.0
    desc = lambda: (f'{name}: accum {accum} weight '
                    f'{float(np.asarray(getattr(stat, "weight", np.nan)))} want '
                    f'({want_accum}, {want_weight})')
    require(abs(accum - want_accum) <= tol, f'{prefix}:{name}', desc)
    if want_weight is not None:
      require(float(np.asarray(stat.weight)) == want_weight, f'{prefix}:{name}', desc)
      want = want_accum / want_weight if want_weight else 0.0
      got = float(np.asarray(stat.result()))
      # result() is one float32 division of the two (exactly compared) sums.
      require(abs(got - want) <= (2e-5 if name in LOSSY else 1e-6) * max(1.0, abs(want)),
              f'{prefix}:{name}', lambda: f'{name}: result {got} want {want}')


LM_NAMES = ['accuracy_in_vocab', 'accuracy_no_eos', 'num_tokens', 'sequence_length',
            'sequence_loss', 'token_loss', 'token_oov_rate']


@functools.lru_cache(maxsize=None)
def lm_model(ds, vocab, expected_length):
  if ds == 'shakespeare':
    return m_shk.create_lstm_model()
  n = len(SO_VOCABS[vocab])
  return m_so.create_lstm_model(vocab_size=n, expected_length=expected_length)


def lm_agreement(model, batches, c, names, prefix, train_loss_kind, plan):
  """batches: padded batches of the dataset's output.  `plan` makes logits."""
  ref_in, ev_in = [], []
  for batch in batches:
    y = np.asarray(batch['y'])
    require(y.size == 0 or (0 <= int(y.min()) and int(y.max()) < c['V']),
            f'{prefix}:label_outside_vocabulary', lambda: y.tolist())
    logits = plan(y)
    ref_in.append((y, logits, np.asarray(batch[MASK], np.bool_)))
    ev_in.append((batch, logits))
    # The model's training loss on the same predictions.
    got = np.asarray(model.train_loss(batch, logits), np.float64)
    ce = cross_entropy64(logits, y) * (y != c['pad'])
    if train_loss_kind[0] == 'mean':
      want = ce.mean(axis=-1)
    else:
      want = ce.sum(axis=-1) * (1.0 if train_loss_kind[1] is None else
                                1.0 / train_loss_kind[1])
    require(got.shape == want.shape and close(got, want, 2e-5 * np.maximum(1.0, np.abs(want))),
            f'{prefix}:train_loss', lambda: f'{got.tolist()} want {want.tolist()}')
  stats = evaluate_metrics(model, ev_in)
  compare_stats(stats, lm_reference(ref_in, c), names, prefix)


def padded_batches(examples, preprocessor=None):
  ds = fedjax.ClientDataset(examples, preprocessor) if preprocessor is not None else (
      fedjax.ClientDataset(examples))
  return list(ds.padded_batch(batch_size=BFIX, num_batch_size_buckets=1))


def run_lm_agreement(case):
  mode = case['mode']
  if case['ds'] == 'shakespeare':
    c = shk_consts()
    snippets = [h2b(s) for s in case['snippets']]
    out = d_shk.preprocess_client(b'client', {'snippets': obj_array(snippets)}, case['L'])
    batches = padded_batches(out)
    model = lm_model('shakespeare', None, None)
    names, kind, prefix = LM_NAMES, ('mean', None), 'shakespeare_model'
  else:
    c = so_consts(case['vocab'])
    sentences = [h2b(s) for s in case['sentences']]
    raw = {'tokens': obj_array(sentences),
           'domain_id': np.zeros(len(sentences), np.int32)}
    batches = padded_batches(raw, cds.BatchPreprocessor(
        [so_preprocess_batch(case['vocab'], 1, case['L'])]))
    model = lm_model('stackoverflow', case['vocab'], case['expected_length'])
    names, kind = LM_NAMES + ['truncation_rate'], ('sum', case['expected_length'])
    prefix = 'stackoverflow_model'
  plan = lambda y: lm_logits(y, c, mode, case['ks'], case['noise'], case['stride'],
                              case.get('shift', 0))
  lm_agreement(model, batches, c, names, prefix, kind, plan)
  extra = set()
  for b in batches:
    y = np.asarray(b['y'])[np.asarray(b[MASK], bool)]
    for nm in ('eos', 'bos', 'oov', 'pad'):
      if (y == c[nm]).any():
        extra.add('target:' + nm)
  return sorted(extra)


_plan_fields = {
    'ks': st.lists(st.integers(0, 9999), min_size=1, max_size=8),
    'noise': st.lists(st.integers(-8, 8), min_size=2, max_size=24),
    'stride': _odd,
    'shift': st.sampled_from([0, 0, 64, 1024]),
}


@st.composite
def lm_agreement_strategy(draw, tier):
  plan = {k: draw(v) for k, v in _plan_fields.items()}
  mode = draw(st.sampled_from(LM_MODES))
  if draw(st.booleans()):
    length = draw(st.sampled_from([2, 3, 5] if tier == 'quick' else [2, 3, 5, 8, 13]))
    return {'ds': 'shakespeare', 'L': length, 'mode': mode,
            'snippets': draw(shk_snippets(length, max_snippets=4, max_len=min(2 * length, 12),
                                          min_total=draw(st.sampled_from([None] + [1] * 7)))),
            **plan}
  vocab = draw(st.sampled_from(['v7', 'v7', 'v10000']))
  sentences = draw(st.lists(so_sentence(vocab, regular_only=draw(st.booleans()), max_words=7),
                            min_size=draw(st.sampled_from([0] + [1] * 8 + [2])), max_size=6))
  return {'ds': 'stackoverflow', 'vocab': vocab,
          'L': draw(st.sampled_from([1, 3, 6] if tier == 'quick' else [1, 2, 3, 6, 9])),
          'expected_length': draw(st.sampled_from([None, 13.3, 0.5])),
          'mode': mode, 'sentences': sentences, **plan}


def lm_agreement_labels(case):
  ls = ['ds:' + case['ds'], 'mode:' + case['mode'], 'L=%d' % case['L']]
  if case['ds'] == 'shakespeare':
    snippets = [h2b(s) for s in case['snippets']]
    if not snippets:
      ls.append('no_rows')
    else:
      ls.append('eos_target')
      if len(snippets) > 1:
        ls.append('bos_target')
      if any(b not in SHK_IN for s in snippets for b in s):
        ls.append('oov_target')
      j = sum(len(s) + 2 for s in snippets)
      if (j - 1) % case['L']:
        ls.append('pad_target')
      if -(-(j - 1) // case['L']) > BFIX:
        ls.append('batches>=2')
  else:
    ls.append('vocab:' + case['vocab'])
    sentences = [h2b(s) for s in case['sentences']]
    index = SO_INDEX[case['vocab']]
    if not sentences:
      ls.append('no_rows')
    if len(sentences) > BFIX:
      ls.append('batches>=2')
    for s in sentences:
      words = s.split(b' ')
      if len(words) + 1 <= case['L']:
        ls.append('eos_target')
      else:
        ls.append('truncated_row')
      if len(words) + 1 < case['L']:
        ls.append('pad_target')
      if any(w not in index for w in words[:case['L']]):
        ls.append('oov_target')
    ls = sorted(set(ls))
  return ls


def lm_agreement_nontrivial(case, ls):
  return 'eos_target' in ls and case['mode'] != 'perfect'


# ============================================================== task pairing

@contextlib.contextmanager
def stubbed_download_layer(raw_clients, so_vocab):
  """Replaces only what needs the network: load_split and the gs:// vocabulary."""
  def fake_load_split(split, *args, **kwargs):
    del args, kwargs
    assert split in ('train', 'test', 'held_out'), split
    return fedjax.InMemoryFederatedData(dict(raw_clients))
  mods = (d_emnist, d_shk, d_so, d_cifar)
  saved = [m.load_split for m in mods]
  saved_vocab = d_so.default_vocab
  try:
    for m in mods:
      m.load_split = fake_load_split
    d_so.default_vocab = lambda size: list(so_vocab)[:size]
    yield
  finally:
    for m, f in zip(mods, saved):
      m.load_split = f
    d_so.default_vocab = saved_vocab


def cls_logits(y, num_classes, mode, ks, noise, stride):
  b = len(y)
  base = tiled(np.asarray(noise, np.float32) / 2, b * num_classes, stride).reshape(b, num_classes)
  logits = base.copy()
  for r, t in enumerate(y.tolist()):
    q = ks[r % len(ks)] + r
    wrong = (t + 1 + q % (num_classes - 1)) % num_classes
    a = t if mode == 'perfect' or (mode == 'random' and q % 2) else wrong
    logits[r, a] += 32.0
  return logits.astype(np.float32)


def model_output_shape(model, batch):
  params = jax.eval_shape(model.init, jax.random.PRNGKey(0))
  return tuple(jax.eval_shape(model.apply_for_eval, params, batch).shape)


TASK_INFO = {
    'EMNIST_CONV': ('emnist', 62), 'EMNIST_LOGISTIC': ('emnist', 62),
    'EMNIST_DENSE': ('emnist', 62), 'CIFAR100_LOGISTIC': ('cifar', 100),
    'SHAKESPEARE_CHARACTER': ('shakespeare', None), 'STACKOVERFLOW_WORD': ('stackoverflow', None),
}


def task_raw_clients(case):
  kind = TASK_INFO[case['task']][0]
  out = {}
  for ci, cl in enumerate(case['clients']):
    rows = cl['rows']
    if kind == 'emnist':
      cid = emnist_id(cl['n'], cl['long'], ci)
      out[cid] = {
          'pixels': (tiled(np.arange(17), rows * 784, 2 * ci + 3, cl['n']) / 16.0).astype(
              np.float32).reshape(rows, 28, 28),
          'label': np.asarray(cl['labels'][:rows], np.int32)}
    elif kind == 'cifar':
      out[b'c%d' % ci] = {
          'image': np.stack([build_image(r) for r in cl['images']]),
          'label': np.asarray(cl['labels'], np.int64),
          'coarse_label': np.asarray(cl['labels'], np.int64) // 5}
    elif kind == 'shakespeare':
      out[b'c%d' % ci] = {'snippets': obj_array([h2b(s) for s in cl['snippets']])}
    else:
      n = len(cl['sentences'])
      out[b'c%d' % ci] = {
          'tokens': obj_array([h2b(s) for s in cl['sentences']]),
          'type': obj_array([b'answer' if (i + ci) % 2 else b'question' for i in range(n)]),
          'score': np.arange(n, dtype=np.int64),
          'title': obj_array([b't'] * n), 'tags': obj_array([b'a|b'] * n),
          'creation_date': obj_array([b'2018-02-28 19:06:18.34 UTC'] * n)}
  return out


def run_task_pairing(case):
  name = case['task']
  kind, num_classes = TASK_INFO[name]
  raw = task_raw_clients(case)
  with stubbed_download_layer(raw, SO_VOCABS['v10000']):
    train, test, model = tasks.get_task(name)
  plan_args = (case['mode'], case['ks'], case['noise'], case['stride'])
  extra = set()
  for split_name, fd in (('train', train), ('test', test)):
    got_ids = sorted(fd.client_ids())
    require(got_ids == sorted(raw), 'task:client_ids', lambda: f'{split_name}: {got_ids}')
    for cid in sorted(raw):
      batches = list(fd.get_client(cid).padded_batch(batch_size=BFIX,
                                                     num_batch_size_buckets=1))
      if not batches:
        extra.add('client_without_rows')
        continue
      prefix = f'task:{kind}'
      for batch in batches:
        require('x' in batch and 'y' in batch, f'{prefix}:features', lambda: sorted(batch))
      shape = model_output_shape(model, batches[0])
      x0 = np.asarray(batches[0]['x'])
      if kind in ('emnist', 'cifar'):
        require(shape == (BFIX, num_classes), f'{prefix}:model_output_shape',
                lambda: f'{shape} for x {x0.shape}')
        if kind == 'emnist':
          want = emnist_ref_domain(int(cid[-7:-3]))
          for bi, batch in enumerate(batches):
            m = np.asarray(batch[MASK], bool)
            rows = raw[cid]['label'][bi * BFIX:(bi + 1) * BFIX]
            pix = raw[cid]['pixels'][bi * BFIX:(bi + 1) * BFIX]
            check_emnist_batch({k: np.asarray(v)[m] for k, v in batch.items() if k != MASK},
                               {'pixels': pix, 'label': rows}, want)
        else:
          require(x0.shape[1:] == (24, 24, 3) and x0.dtype == np.float32,
                  f'{prefix}:x_shape', lambda: f'{x0.dtype} {x0.shape}')
          labels = np.concatenate([np.asarray(b['y'])[np.asarray(b[MASK], bool)]
                                   for b in batches])
          require(labels.dtype == np.int32 and
                  labels.tolist() == raw[cid]['label'].tolist(), f'{prefix}:y')
        ref_in, ev_in = [], []
        for batch in batches:
          y = np.asarray(batch['y'])
          require(0 <= int(y.min()) and int(y.max()) < num_classes,
                  f'{prefix}:label_outside_model_classes', lambda: y.tolist())
          logits = cls_logits(y, num_classes, *plan_args)
          ref_in.append((y, logits, np.asarray(batch[MASK], bool)))
          ev_in.append((batch, logits))
          got = np.asarray(model.train_loss(batch, logits), np.float64)
          want_loss = cross_entropy64(logits, y)
          require(close(got, want_loss, 2e-5 * np.maximum(1.0, want_loss)),
                  f'{prefix}:train_loss', lambda: f'{got.tolist()} want {want_loss.tolist()}')
        compare_stats(evaluate_metrics(model, ev_in), cls_reference(ref_in),
                      ['loss', 'accuracy'], prefix)
      else:
        if kind == 'shakespeare':
          c, length = shk_consts(), 80
          names, loss_kind = LM_NAMES, ('mean', None)
          snippets = list(raw[cid]['snippets'])
          rows = {k: np.concatenate([np.asarray(b[k])[np.asarray(b[MASK], bool)]
                                     for b in batches]) for k in ('x', 'y')}
          check_shk_output(rows, snippets, length, c)
        else:
          c, length = so_consts('v10000'), 20
          names, loss_kind = LM_NAMES + ['truncation_rate'], ('sum', 13.3)
          m_all = [np.asarray(b[MASK], bool) for b in batches]
          check_so_rows(np.concatenate([np.asarray(b['x'])[m] for b, m in zip(batches, m_all)]),
                        np.concatenate([np.asarray(b['y'])[m] for b, m in zip(batches, m_all)]),
                        list(raw[cid]['tokens']), 'v10000', 1, length)
          dom = np.concatenate([np.asarray(b['domain_id'])[m] for b, m in zip(batches, m_all)])
          require(dom.tolist() == [int(t == b'answer') for t in raw[cid]['type']],
                  f'{prefix}:domain_id')
        require(shape == (BFIX, length, c['V']), f'{prefix}:model_output_shape',
                lambda: f'{shape}, dataset rows {x0.shape}, dataset vocabulary {c["V"]}')
        plan = lambda y: lm_logits(y, c, *plan_args, case.get('shift', 0))
        lm_agreement(model, batches, c, names, prefix, loss_kind, plan)
  return sorted(extra)


@st.composite
def task_pairing_strategy(draw, tier):
  task = draw(st.sampled_from(sorted(TASK_INFO)))
  kind = TASK_INFO[task][0]
  nclients = draw(st.integers(1, 2))
  clients = []
  for _ in range(nclients):
    if kind == 'emnist':
      rows = draw(st.integers(1, 5))
      clients.append({'n': draw(st.sampled_from([0, 2099, 2100, 2350, 2599, 2600, 9999]) |
                                st.integers(0, 9999)),
                      'long': draw(st.booleans()), 'rows': rows,
                      'labels': [draw(st.sampled_from([0, 9, 10, 35, 36, 61]) |
                                      st.integers(0, 61)) for _ in range(rows)]})
    elif kind == 'cifar':
      images = draw(st.lists(image_recipe(), min_size=1, max_size=3))
      clients.append({'images': images, 'rows': len(images),
                      'labels': [draw(st.sampled_from([0, 99]) | st.integers(0, 99))
                                 for _ in images]})
    elif kind == 'shakespeare':
      clients.append({'rows': 0, 'snippets': draw(
          shk_snippets(80, max_snippets=3, max_len=90, min_total=draw(st.sampled_from([1, 60, 81]))))})
    else:
      clients.append({'rows': 0, 'sentences': draw(st.lists(
          so_sentence('v10000', regular_only=True, max_words=24), min_size=1, max_size=5))})
  mode = draw(st.sampled_from(LM_MODES if kind in ('shakespeare', 'stackoverflow')
                              else ['perfect', 'wrong', 'random']))
  return {'task': task, 'clients': clients, 'mode': mode,
          **{k: draw(v) for k, v in _plan_fields.items()}}


def task_labels(case):
  return ['task:' + case['task'], 'mode:' + case['mode'], 'clients:%d' % len(case['clients'])]


# =========================================================== row independence

MODEL_BUILDERS = {
    'shakespeare_lstm': lambda: m_shk.create_lstm_model(
        embed_size=2, lstm_hidden_size=3, lstm_num_layers=1),
    'shakespeare_lstm_2layers': lambda: m_shk.create_lstm_model(
        embed_size=2, lstm_hidden_size=3, lstm_num_layers=2),
    'stackoverflow_lstm': lambda: m_so.create_lstm_model(
        vocab_size=7, embed_size=2, lstm_hidden_size=3),
    'stackoverflow_lstm_shared': lambda: m_so.create_lstm_model(
        vocab_size=7, embed_size=3, lstm_hidden_size=2, share_input_output_embeddings=True),
    'cifar100_logistic': m_cifar.create_logistic_model,
    'emnist_conv': lambda: m_emnist.create_conv_model(only_digits=False),
    'emnist_dense': lambda: m_emnist.create_dense_model(only_digits=False, hidden_units=4),
    'emnist_logistic': lambda: m_emnist.create_logistic_model(only_digits=True),
    'emnist_stax_dense': lambda: m_emnist.create_stax_dense_model(only_digits=True,
                                                                  hidden_units=4),
}
MODEL_WIDTH = {
    'shakespeare_lstm': None, 'shakespeare_lstm_2layers': None,
    'stackoverflow_lstm': None, 'stackoverflow_lstm_shared': None,
    'cifar100_logistic': 100, 'emnist_conv': 62, 'emnist_dense': 62,
    'emnist_logistic': 10, 'emnist_stax_dense': 10,
}


# Longest dot product inside each model (float32 summation-order bound).
MODEL_FAN_IN = {
    'shakespeare_lstm': 64, 'shakespeare_lstm_2layers': 64,
    'stackoverflow_lstm': 64, 'stackoverflow_lstm_shared': 64,
    'cifar100_logistic': 24 * 24 * 3, 'emnist_conv': 12 * 12 * 64, 'emnist_dense': 784,
    'emnist_logistic': 784, 'emnist_stax_dense': 784,
}


@functools.lru_cache(maxsize=None)
def small_model(name):
  model = MODEL_BUILDERS[name]()
  shapes = jax.eval_shape(model.init, jax.random.PRNGKey(0))
  return model, shapes


def fill_params(shapes, vals, stride):
  leaves, treedef = jax.tree_util.tree_flatten(shapes)
  out = []
  for i, leaf in enumerate(leaves):
    n = int(np.prod(leaf.shape)) if leaf.shape else 1
    v = tiled(np.asarray(vals, np.float32) / 8, n, stride, 3 * i).reshape(leaf.shape)
    out.append(v.astype(leaf.dtype))
  return jax.tree_util.tree_unflatten(treedef, out)


def model_inputs(case):
  """The packaged dataset's output for generated raw examples."""
  name, b = case['model'], case['B']
  if name.startswith('shakespeare'):
    out = d_shk.preprocess_client(
        b'c', {'snippets': obj_array([h2b(s) for s in case['snippets']])}, case['L'])
    x, y = out['x'][:b], out['y'][:b]
    assert x.shape == (b, case['L']), (x.shape, b)
    return {'x': x, 'y': y}, shk_consts()['V']
  if name.startswith('stackoverflow'):
    out = so_preprocess_batch('v7', 1, case['L'])(
        {'tokens': obj_array([h2b(s) for s in case['sentences']])})
    return out, so_consts('v7')['V']
  if name.startswith('cifar'):
    images = np.stack([build_image(r) for r in case['images']])
    out = d_cifar.preprocess_batch_tff({'x': images, 'y': np.zeros(b, np.int32)})
    return out, MODEL_WIDTH[name]
  pix = np.stack([(tiled(case['pixels'], 784, case['stride'], 5 * r) + r * (np.arange(784) % 3)) % 17
                  for r in range(b)])
  raw = {'pixels': (pix / 16.0).astype(np.float32).reshape(b, 28, 28),
         'label': np.zeros(b, np.int32)}
  out = d_emnist.preprocess_batch(d_emnist.preprocess_client(emnist_id(2100, True, 0), raw))
  return {'x': out['x'], 'y': out['y']}, MODEL_WIDTH[name]


EPS32 = 2.0 ** -24


def abs_forward_scale(model, params, batch):
  """max |output| of the model with every parameter and float input replaced
  by its absolute value: for the feed-forward models (matmul / conv / relu /
  max-pool are monotone) this bounds the sum of the absolute values of all
  summands behind any output unit."""
  aparams = jax.tree_util.tree_map(np.abs, params)
  abatch = {k: (np.abs(v) if v.dtype.kind == 'f' else v) for k, v in batch.items()}
  return float(np.abs(np.asarray(model.apply_for_eval(aparams, abatch), np.float64)).max())


def run_row_independence(case):
  name, b = case['model'], case['B']
  model, shapes = small_model(name)
  params = fill_params(shapes, case['param_vals'], case['stride'])
  batch, width = model_inputs(case)
  batch = {k: np.asarray(v) for k, v in batch.items() if k in ('x', 'y')}
  full = np.asarray(model.apply_for_eval(params, batch), np.float64)
  want_shape = (b,) + ((case['L'],) if 'L' in case else ()) + (width,)
  require(full.shape == want_shape, 'rows:model_output_shape',
          lambda: f'{name}: {full.shape} want {want_shape}')
  require(bool(np.isfinite(full).all()), 'rows:output_not_finite', name)
  # Worst-case float32 dot-product bound: the same row may be summed in a
  # different order when the batch size changes (gemv vs gemm, conv tiling).
  scale = max(1.0, float(np.abs(full).max()), abs_forward_scale(model, params, batch))
  tol = 8 * MODEL_FAN_IN[name] * EPS32 * scale
  for i in range(b):
    one = {k: v[i:i + 1] for k, v in batch.items()}
    single = np.asarray(model.apply_for_eval(params, one), np.float64)
    require(single.shape == (1,) + want_shape[1:], 'rows:model_output_shape',
            lambda: f'{name}: single row -> {single.shape}')
    dev = float(np.abs(single[0] - full[i]).max())
    require(dev <= tol, 'rows:row_depends_on_rest_of_batch',
            lambda: f'{name}: row {i} of {b}: max abs dev {dev} (tol {tol}, scale {scale})')
  perm = case['perm'][:b]
  permuted = {k: v[perm] for k, v in batch.items()}
  out_p = np.asarray(model.apply_for_eval(params, permuted), np.float64)
  dev = float(np.abs(out_p - full[perm]).max())
  require(dev <= tol, 'rows:not_permutation_equivariant',
          lambda: f'{name}: perm {perm}: max abs dev {dev} (tol {tol}, scale {scale})')
  # The train loss scores rows independently too -- also when the predictions of
  # the rows live on very different scales (a confident model next to an
  # untrained one): row i of train_loss(batch, preds) depends on (batch[i],
  # preds[i]) only.  Predictions are synthetic: the model output, scaled and
  # shifted per row.
  if case.get('row_scale'):
    preds = full.astype(np.float32)
    for i in range(b):
      preds[i] = preds[i] * np.float32(case['row_scale'][i % len(case['row_scale'])]) \
          - np.float32(case['row_shift'][i % len(case['row_shift'])])
    loss_full = np.asarray(model.train_loss(batch, jnp.asarray(preds)), np.float64)
    require(loss_full.shape[0] == b and bool(np.isfinite(loss_full).all()),
            'rows:train_loss_shape_or_not_finite', lambda: f'{name}: {loss_full.shape}')
    for i in range(b):
      one = {k: v[i:i + 1] for k, v in batch.items()}
      li = np.asarray(model.train_loss(one, jnp.asarray(preds[i:i + 1])), np.float64)
      dev = float(np.abs(li[0] - loss_full[i]).max())
      lim = 1e-4 * (1.0 + float(np.abs(loss_full[i]).max()))
      require(dev <= lim, 'rows:train_loss_row_depends_on_rest_of_batch',
              lambda: f'{name}: row {i} of {b}: loss alone {li[0].tolist()} vs in the batch '
                      f'{loss_full[i].tolist()} (row scales {case["row_scale"]}, shifts '
                      f'{case["row_shift"]})')
  rows = batch['x'].reshape(b, -1)
  if len({r.tobytes() for r in rows}) == b:
    return ['rows_distinct']
  return ['duplicate_rows']


@st.composite
def row_independence_strategy(draw, tier):
  name = draw(st.sampled_from(sorted(MODEL_BUILDERS)))
  b = draw(st.sampled_from([2, 3, 4]))
  perm = draw(st.permutations(list(range(b))))
  case = {'model': name, 'B': b, 'perm': list(perm),
          'param_vals': draw(st.lists(st.integers(-8, 8), min_size=3, max_size=16)),
          'stride': draw(_odd)}
  if draw(st.booleans()):
    case['row_scale'] = draw(st.lists(st.sampled_from([1, 1, 50, 1000]), min_size=b, max_size=b))
    case['row_shift'] = draw(st.lists(st.sampled_from([0, 0, 300, 1000]), min_size=b, max_size=b))
  if name.startswith('shakespeare'):
    length = draw(st.sampled_from([3, 6]))
    case['L'] = length
    snippets = draw(shk_snippets(length, max_snippets=3, max_len=length,
                                 min_total=b * length))
    case['snippets'] = snippets
  elif name.startswith('stackoverflow'):
    case['L'] = draw(st.sampled_from([3, 6]))
    case['sentences'] = [draw(so_sentence('v7', max_words=6)) for _ in range(b)]
  elif name.startswith('cifar'):
    case['images'] = [draw(image_recipe()) for _ in range(b)]
  else:
    case['pixels'] = draw(st.lists(st.integers(0, 16), min_size=2, max_size=24))
  return case


def row_labels(case):
  ls = ['model:' + case['model'], 'B=%d' % case['B']]
  if case['perm'] != sorted(case['perm']):
    ls.append('permuted')
  return ls


def row_nontrivial(case, ls):
  return 'permuted' in ls


# ===================================================================== checks

CHECKS = [
    Check(name='shakespeare_tokenizer', run=run_shk_tokenizer,
          strategy=shk_tokenizer_strategy, labels=shk_labels, nontrivial=shk_nontrivial,
          budget={'quick': 3000, 'thorough': 60000}, time_share=1.5,
          doc='preprocess_client: padding removed, y is exactly the BOS/chars/EOS '
              'stream of the snippets, x the same stream one step earlier, shapes '
              '[ceil((J-1)/L), L], labels inside the vocabulary'),
    Check(name='shakespeare_table', run=run_shk_table,
          cases=lambda tier: ({'byte': b} for b in range(256)),
          labels=lambda c: ['in_vocab' if c['byte'] in SHK_IN else 'oov'],
          nontrivial=lambda c, ls: True, time_share=0.2,
          doc='all 256 bytes: vocabulary bytes map injectively to ordinary labels, '
              'every other byte to OOV = VOCAB_SIZE-1; reserved ids distinct'),
    Check(name='stackoverflow_tokenizer', run=run_so_tokenizer,
          strategy=so_tokenizer_strategy, labels=so_labels, nontrivial=so_nontrivial,
          budget={'quick': 800, 'thorough': 12000}, time_share=4.0,
          doc='preprocess_client + StackoverflowTokenizer vs a pure-python '
              'tokenizer: BOS/EOS, shift, truncation / padding to max_length, '
              'ids = 3 + vocabulary index, OOV buckets after the vocabulary'),
    Check(name='cifar_eval', run=run_cifar_eval, strategy=cifar_eval_strategy,
          labels=cifar_labels, nontrivial=cifar_nontrivial,
          budget={'quick': 900, 'thorough': 14000}, time_share=1.0,
          doc='preprocess_image_tff / preprocess_batch_tff (distort=False) vs '
              'tf.image.per_image_standardization(resize_with_crop_or_pad) and a '
              'float64 reference; preprocess_batch(is_train=False) vs its formula'),
    Check(name='cifar_train_crops', run=run_cifar_train, strategy=cifar_train_strategy,
          labels=cifar_labels, nontrivial=cifar_nontrivial,
          budget={'quick': 600, 'thorough': 9000}, time_share=1.0,
          doc='distort=True / is_train=True with the global numpy RNG seeded from '
              'the case: every output image is the standardised (normalised) image '
              'restricted to a window of the requested shape, possibly mirrored'),
    Check(name='emnist_domain_ids', run=run_emnist_id, cases=emnist_cases,
          labels=emnist_labels,
          nontrivial=lambda c, ls: 1500 <= c['n'] <= 3200, time_share=0.5,
          doc='exhaustive: numeric part 0..9999 x both documented id formats vs '
              'the NIST range rule; preprocess_client/preprocess_batch features'),
    Check(name='lm_metrics_agreement', run=run_lm_agreement,
          strategy=lm_agreement_strategy, labels=lm_agreement_labels,
          nontrivial=lm_agreement_nontrivial,
          budget={'quick': 400, 'thorough': 6000}, time_share=6.0,
          doc='eval_metrics and train_loss of the packaged Shakespeare / '
              'StackOverflow models on the dataset output with generated logits vs '
              'numpy references built from the DATASET ids (PAD/BOS/EOS/OOV, size)'),
    Check(name='task_pairing', run=run_task_pairing, strategy=task_pairing_strategy,
          labels=task_labels, nontrivial=lambda c, ls: c['mode'] != 'perfect',
          budget={'quick': 48, 'thorough': 700}, time_share=4.5,
          doc='tasks.get_task for all six tasks with only the download layer '
              'stubbed: dataset rows fit the model input, model output width = '
              'dataset vocabulary / class count, metrics agree with the references'),
    Check(name='row_independence', run=run_row_independence,
          strategy=row_independence_strategy, labels=row_labels, nontrivial=row_nontrivial,
          budget={'quick': 72, 'thorough': 1000}, time_share=3.0,
          doc='every packaged model at its smallest widths: row i of '
              'apply_for_eval(batch) equals apply_for_eval(row i alone), and '
              'permuting the batch permutes the output'),
]
