"""C10 -- A training round is a pure function of (server state, clients).

A case is a *history generated as data*: the name of a system (one of the seven
built-in federated algorithms, or one of the compression aggregators), a
hyper-parameter variant from a small menu, a pool of 4-6 tiny clients and a
list of operations

  ["apply", [client indices], [key seeds]]   one round from the current state
  ["branch", k]                              continue from the k-th earlier state
  ["roundtrip"]                              fedjax.serialization.save_state /
                                             load_state into a per-case temp dir,
                                             continue from the restored copy

`run_history` interprets the list.  At every apply

  * the argument state (and the client keys / client data) is deep-snapshotted
    (structure, dict keys, list lengths, every leaf as numpy bytes) BEFORE,
  * apply is called; its output (new state + diagnostics) is snapshotted
    IMMEDIATELY (a mutating implementation can make both results alias one
    mutated container, so comparing the two live results proves nothing),
  * the argument state must equal its snapshot and every leaf must be readable,
  * apply is called again with the very same arguments: the output must be
    bit-equal to the first snapshot, the first output must still have its value,
    the argument state must still have its value,
  * if the current state descends from a restored copy, the same round is also
    applied to the original lineage: the successor must be bit-equal.

At the end every state ever produced (all are kept alive for `branch`) must still
equal the snapshot taken when it was produced.
"""
import dataclasses as py_dataclasses
import collections.abc
import functools
import json
import os
import shutil
import tempfile

import numpy as np
from hypothesis import strategies as st

import jax
import jax.numpy as jnp

import fedjax
from fedjax.aggregators import compression
from fedjax.algorithms import agnostic_fed_avg
from fedjax.algorithms import apfl
from fedjax.algorithms import fed_avg
from fedjax.algorithms import fed_prox
from fedjax.algorithms import hyp_cluster
from fedjax.algorithms import mime
from fedjax.algorithms import mime_lite
from fedjax.core import serialization
from fedjax.training import checkpoint as checkpoint_lib

from vf.core import Check, Violation, require

PROPERTY_ID = 'C10'
NEEDS_TF = True
LEVEL = 'exploration'
RULE = (
    'Histories generated as data. Hypothesis draws, per algorithm (FedAvg, '
    'FedProx, Mime, MimeLite, AgnosticFedAvg, HypCluster with 2-3 clusters, '
    'APFL; default jit for_each_client backend): one of 3 hyper-parameter '
    'variants (client/server/base optimizer in {sgd, momentum, nesterov, adam}, '
    'batch_size 2-3, num_epochs 1-2, num_steps, drop_remainder, skip_shuffle, '
    'fixed integer batching seed, proximal weight, server learning rate, clip '
    'norm, domain window 1-3 / domains 2-3 / eg|none, client coefficient), '
    'dyadic initial params, a pool of 4-6 clients with 0-5 rows (k/8 values, '
    'domain ids), and 3-5 (quick) / 3-8 (thorough) applies (cohort of 1-4 '
    'distinct pool clients with integer key seeds, often re-using earlier '
    'clients or repeating the previous cohort and keys) with 1-2 / 1-4 '
    '"branch k" (mostly to a state other than the current one, often the '
    'initial state) or "roundtrip" operations placed before some of them '
    '(<= 6 / 12 operations; the last one is always an apply). The loss '
    'depends on the client rng. For the compression aggregators (uniform, '
    'uniform+arithmetic, rotated uniform, structured DRIVE, TernGrad): levels '
    'in {2,3,16} ({2,3} with arithmetic coding), key seed, one of 2 tree '
    'shapes, a pool of 4-6 client trees (generic / constant / all-zero dyadic '
    'values) with weights, same operations. Half of the histories also run 1-3 '
    'of their rounds (later rounds preferred) on a second algorithm / aggregator '
    'object constructed with the same hyper-parameters, which lives through a '
    'different sequence of calls, and demand the identical result (a round may '
    'depend on nothing but its arguments). Non-trivial: >= 3 applies, some client '
    'takes part in >= 2 applies, and the history contains an effective branch '
    '(to a state other than the current one, followed by an apply) or a '
    'roundtrip followed by an apply; distinct = distinct canonical case JSON.')
RULE += (
    ' '
    'Later widenings: cohorts may list one client twice (not for HypCluster / APFL); the mode'
    'l weight is a matrix and the initial parameters are host NumPy arrays (C or Fortran orde'
    'r) in half of the cases; round trips go through save_state/load_state, msgpack of the st'
    "ate leaves or the checkpoint module's latest-state slot; an AgnosticFedAvg state may car"
    "ry a shorter window; a quarter of the histories edit the clients' examples in place betw"
    'een rounds and compare with fresh datasets; FedAvg over haiku-style params with a frozen'
    ' module; aggregator weights as 0-d NumPy arrays; a check that restarts in a new process.')
RULE += (
    ' '
    'Also: constructing the compression aggregators is part of the unrelated activity between'
    ' repeated rounds.')
ASSUMPTIONS = [
    'batching seeds are fixed integers (seed=None draws OS entropy by '
    'documented design and is outside the claim)',
    'every cohort has >= 1 client (Mime cannot average an empty cohort); a '
    'cohort may list one id twice except for HypCluster and APFL, whose '
    'per-client outputs are keyed by id (HypCluster raises IndexError for such '
    'a cohort on the unchanged tree); zero-example clients are in the domain '
    'except for HypCluster, which cannot assign a client without examples to a '
    'cluster',
    'num_epochs is always set, so batching a zero-example client terminates',
    'equality is exact: dtype, shape and bytes of every leaf, container types, '
    'dataclass/namedtuple names, dict key sets (dict order is not compared), '
    'list lengths; no tolerance -- two executions of the same XLA:CPU program '
    'on the same inputs in one single-threaded process are bit-identical',
    'array flavour (jax.Array vs numpy) and weak-typedness of a leaf are not '
    'compared; a difference that matters shows up in the successors',
    'only the default jit for_each_client backend is exercised (the backend is '
    'not in the quantifier; C01/C02 compare backends)',
    'states are round-tripped through fedjax.serialization.save_state / '
    'load_state, msgpack of their leaves, or the checkpoint module (tf.io.gfile) '
    'in a per-case mkdtemp under /var/tmp, removed afterwards; a haiku FlatMap '
    'and a dict count as one container kind (FlatMap unpickles as dict)',
    'learning problems are tiny least-squares models with dyadic data and '
    'client step sizes <= 1/4 so trajectories stay finite; non-finite states are '
    'counted (label nonfinite_state) but not asserted on',
]

ALGS = ['fed_avg', 'fed_prox', 'mime', 'mime_lite', 'agnostic', 'hyp_cluster',
        'apfl', 'fed_avg_frozen']
AGGS = ['uniform', 'uniform_arith', 'rotated', 'drive', 'terngrad']
CLIENT_IDS = [b'c0', b'c1\x00', b'c2', b'c3', b'c4', b'c5']
D = 2  # model input dimension


# ------------------------------------------------------------------ snapshots

class _Deleted(Exception):

  def __init__(self, path):
    super().__init__(path)
    self.path = path


def _leaf(x, path):
  if isinstance(x, jax.Array):
    if x.is_deleted():
      raise _Deleted(path)
    a = np.asarray(x)
  else:
    a = np.asarray(x)
  return ('leaf', str(a.dtype), tuple(a.shape), a.tobytes())


def flat(x, path='$', out=None):
  """Deep value snapshot: {path: descriptor} for every container and leaf."""
  if out is None:
    out = {}
  if x is None:
    out[path] = ('none',)
  elif py_dataclasses.is_dataclass(x) and not isinstance(x, type):
    names = [f.name for f in py_dataclasses.fields(x)]
    out[path] = ('dataclass', type(x).__name__, tuple(names))
    for n in names:
      flat(getattr(x, n), f'{path}.{n}', out)
  elif isinstance(x, (dict, collections.abc.Mapping)):   # (haiku FlatMap: a Mapping)
    keys = sorted(x, key=repr)
    # (haiku's immutable FlatMap unpickles as a plain dict -- haiku's own
    # __reduce__, nothing fedjax decides -- so the two count as one kind)
    tname = 'dict' if type(x).__name__ in ('FlatMap', 'FlatMapping') else type(x).__name__
    out[path] = ('dict', tname, tuple(repr(k) for k in keys))
    for k in keys:
      flat(x[k], f'{path}[{k!r}]', out)
  elif isinstance(x, (list, tuple)):
    out[path] = ('seq', type(x).__name__, len(x))
    for i, v in enumerate(x):
      flat(v, f'{path}[{i}]', out)
  elif isinstance(x, (bool, int, float, bytes, str)):
    out[path] = ('py', type(x).__name__, repr(x))
  elif isinstance(x, (jax.Array, np.ndarray, np.generic)):
    out[path] = _leaf(x, path)
  else:
    raise TypeError(f'snapshot: unsupported node {type(x)} at {path}')
  return out


def _show(d):
  if d is None:
    return '<absent>'
  if d[0] == 'leaf':
    arr = np.frombuffer(d[3], dtype=d[1]).reshape(d[2])
    return f'{d[1]}{list(d[2])} {arr.tolist()}'
  return repr(d)


def first_diff(a, b):
  for k in a:
    if k not in b:
      return f'{k}: {_show(a[k])} vs <absent>'
    if a[k] != b[k]:
      return f'{k}: {_show(a[k])} vs {_show(b[k])}'
  for k in b:
    if k not in a:
      return f'{k}: <absent> vs {_show(b[k])}'
  return None


def snapshot(x, clause_deleted, where):
  try:
    return flat(x)
  except _Deleted as d:
    raise Violation(clause_deleted, f'{where}: leaf {d.path} is deleted '
                    '(its buffer was donated)')


def require_same(got, want, clause, where):
  if got != want:
    raise Violation(clause, f'{where}: {first_diff(want, got)}')


def nonfinite(snap):
  for d in snap.values():
    if d[0] == 'leaf' and d[1].startswith('float'):
      if not np.all(np.isfinite(np.frombuffer(d[3], dtype=d[1]))):
        return True
  return False


# --------------------------------------------------------------- model / data

def per_example_loss(params, batch, rng):
  # 'w' is a (D, 2) matrix: a leaf with a memory layout of its own
  pred = (batch['x'] @ params['w']) @ jnp.asarray([1.0, 0.5], jnp.float32) + params['b']
  # the rng-dependent term shifts the w-gradient by a dyadic number
  g = jax.random.randint(rng, (), -4, 5).astype(jnp.float32) / 4.0
  return (pred - batch['y']) ** 2 + g * jnp.sum(params['w'])


def l2_regularizer(params):
  return 0.125 * (jnp.sum(params['w'] ** 2) + params['b'] ** 2)


GRAD = fedjax.grad(per_example_loss)


# 'fed_avg_frozen': FedAvg over haiku-style params {module: {name: leaf}} given
# as a PLAIN nested dict, with a frozen module whose entries the server
# optimizer is told to ignore (fedjax.optimizers.ignore_grads_haiku).
def nested_loss(params, batch, rng):
  return per_example_loss(params['lin'], batch, rng) + 0.0 * jnp.sum(params['emb']['t'])


def nest(p):
  return {'lin': dict(p), 'emb': {'t': p['w'] * 2}}


NESTED_GRAD = fedjax.grad(nested_loss)


def optimizer(name):
  if name == 'sgd':
    return fedjax.optimizers.sgd(0.125)
  if name == 'sgd1':
    return fedjax.optimizers.sgd(1.0)
  if name == 'mom':
    return fedjax.optimizers.sgd(0.125, momentum=0.5)
  if name == 'nesterov':
    return fedjax.optimizers.sgd(0.25, momentum=0.5, nesterov=True)
  if name == 'adam':
    return fedjax.optimizers.adam(0.0625, b1=0.5, b2=0.75, eps=1e-3)
  raise ValueError(name)


# Three fixed hyper-parameter variants (index = case['variant']).
BATCH = [
    dict(batch_size=2, num_epochs=1, num_steps=None, drop_remainder=False,
         seed=3, skip_shuffle=False),
    dict(batch_size=3, num_epochs=2, num_steps=None, drop_remainder=False,
         seed=2**31 - 1, skip_shuffle=False),
    dict(batch_size=2, num_epochs=2, num_steps=3, drop_remainder=True,
         seed=0, skip_shuffle=True),
]
OPTS = [('sgd', 'sgd1'), ('mom', 'adam'), ('adam', 'nesterov')]
NUM_DOMAINS = [3, 2, 3]


def train_hparams(v):
  return fedjax.ShuffleRepeatBatchHParams(**BATCH[v])


def eval_hparams(v):
  return fedjax.PaddedBatchHParams(batch_size=[4, 2, 3][v],
                                   num_batch_size_buckets=[1, 1, 2][v])


@functools.lru_cache(maxsize=None)
def build_algorithm(alg, v):
  """One construction per process per (algorithm, variant): jitted closures."""
  copt, sopt = optimizer(OPTS[v][0]), optimizer(OPTS[v][1])
  if alg == 'fed_avg':
    return fed_avg.federated_averaging(GRAD, copt, sopt, train_hparams(v))
  if alg == 'fed_avg_frozen':
    return fed_avg.federated_averaging(
        NESTED_GRAD, copt,
        fedjax.optimizers.ignore_grads_haiku(sopt, [('emb', 't'), ('lin', 'b')][:1 + v % 2]),
        train_hparams(v))
  if alg == 'fed_prox':
    return fed_prox.fed_prox(per_example_loss, copt, sopt, train_hparams(v),
                             proximal_weight=[0.5, 0.0, 1.0][v])
  if alg == 'mime':
    return mime.mime(per_example_loss, optimizer(['mom', 'adam', 'sgd'][v]),
                     train_hparams(v), eval_hparams(v),
                     server_learning_rate=[1.0, 0.5, 0.25][v],
                     regularizer=[None, l2_regularizer, None][v])
  if alg == 'mime_lite':
    return mime_lite.mime_lite(
        per_example_loss, optimizer(['adam', 'mom', 'sgd'][v]),
        train_hparams(v), eval_hparams(v),
        server_learning_rate=[0.5, 1.0, 0.25][v],
        regularizer=[None, None, l2_regularizer][v],
        client_delta_clip_norm=[None, 0.25, 4.0][v])
  if alg == 'agnostic':
    nd = NUM_DOMAINS[v]
    weights = {3: [0.25, 0.25, 0.5], 2: [0.75, 0.25]}[nd]
    window = {3: [1., 2., 4.], 2: [2., 1.]}[nd]
    return agnostic_fed_avg.agnostic_federated_averaging(
        per_example_loss, copt, sopt, train_hparams(v), eval_hparams(v),
        init_domain_weights=np.asarray(weights, np.float32),
        domain_learning_rate=[0.125, 0.5, 0.25][v],
        domain_algorithm=['eg', 'eg', 'none'][v],
        domain_window_size=[2, 1, 3][v],
        init_domain_window=np.asarray(window, np.float32),
        regularizer=[None, None, l2_regularizer][v])
  if alg == 'hyp_cluster':
    return hyp_cluster.hyp_cluster(
        per_example_loss, copt, sopt, eval_hparams(v), train_hparams(v),
        regularizer=[None, l2_regularizer, None][v])
  if alg == 'apfl':
    return apfl.adaptive_personalized_federated_learning(
        GRAD, copt, sopt, train_hparams(v),
        client_coefficient=[0.5, 0.25, 1.0][v])
  raise ValueError(alg)


def make_dataset(rows, num_domains):
  a = np.asarray(rows, dtype=np.int64).reshape((-1, D + 2))
  return fedjax.ClientDataset({
      'x': (a[:, :D] / 8.0).astype(np.float32),
      'y': (a[:, D] / 8.0).astype(np.float32),
      'domain_id': (a[:, D + 1] % num_domains).astype(np.int32),
  })


def init_params(p, host=None):
  w = np.stack([np.asarray(p[:D], np.float32) / 8.0,
                np.asarray(p[:D][::-1], np.float32) / 16.0], axis=1)
  b = np.float32(p[D] / 8.0)
  if host is None:
    return {'w': jnp.asarray(w), 'b': jnp.asarray(b)}
  # model parameters as the user holds them on the host: NumPy arrays, the
  # matrix possibly column-major (a transposed weight matrix)
  w = np.asfortranarray(w) if host == 'F' else np.ascontiguousarray(w)
  return {'w': w, 'b': np.asarray(b)}


def build_other_instance(alg, v):
  """A second, separately constructed algorithm object with the same
  hyper-parameters, built anew for every case that asks for it (~0.6 s).  A
  round whose result depends on anything remembered inside the algorithm object
  -- rather than on (server state, clients) -- gives a different answer on it,
  because it has lived through a different sequence of calls: exactly one
  warm-up round on a shifted initial state (see AlgorithmSystem)."""
  return build_algorithm.__wrapped__(alg, v)


class AlgorithmSystem:
  """Adapter: init() / make_args(op) / apply(state, args) / observe(args)."""

  def __init__(self, case):
    self.alg, self.v = case['system'], case['variant']
    self.algorithm = build_algorithm(self.alg, self.v)
    nd = NUM_DOMAINS[self.v] if self.alg == 'agnostic' else 3
    self.datasets = [make_dataset(c['rows'], nd) for c in case['pool']]
    self.init_list = case['init']
    self.host = case.get('host_params')
    self.short_window = case.get('short_window')
    self.other = None
    if case.get('other_instance'):
      # The other object's past: one round from the initial parameters shifted
      # by +1 over the first three pool clients (a deterministic function of
      # the case, so that a replay file reproduces on its own).
      self.other = build_other_instance(self.alg, self.v)
      shifted = [[x + 8 for x in p] for p in self.init_list]
      if self.alg == 'hyp_cluster':
        warm = self.other.init([init_params(p) for p in shifted])
      else:
        warm = self.other.init(nest(init_params(shifted[0])) if self.alg == 'fed_avg_frozen'
                               else init_params(shifted[0]))
      self.other.apply(warm, self.make_args(['apply', [0, 1, 2], [11, 12, 13]]))

  def init(self):
    if self.alg == 'hyp_cluster':
      return self.algorithm.init([init_params(p, self.host) for p in self.init_list])
    p0 = init_params(self.init_list[0], self.host)
    state = self.algorithm.init(nest(p0) if self.alg == 'fed_avg_frozen' else p0)
    if self.alg == 'agnostic' and self.short_window:
      # a state carried over from a run with a shorter domain window (the
      # window is a plain list inside the public ServerState dataclass)
      state = state.replace(domain_window=list(state.domain_window[-1:]))
    return state

  def make_args(self, op):
    return [(CLIENT_IDS[i], self.datasets[i], jax.random.PRNGKey(s))
            for i, s in zip(op[1], op[2])]

  def observe_args(self, args):
    return [(cid, dict(ds.raw_examples), key) for cid, ds, key in args]

  def apply(self, state, args):
    new_state, diagnostics = self.algorithm.apply(state, args)
    return new_state, {'state': new_state, 'diagnostics': diagnostics}

  def apply_other(self, state, args):
    new_state, diagnostics = self.other.apply(state, args)
    return {'state': new_state, 'diagnostics': diagnostics}

  def check_output(self, args, out):
    # Which clients appear in the diagnostics is C01's business, not C10's.
    pass


# ----------------------------------------------------------------- aggregators

TREES = {
    'A': [('w', (4,)), ('b', ())],
    'B': [('k', (2, 3)), ('v', (5,))],
}


def tree_size(shape_name):
  return sum(int(np.prod(s)) for _, s in TREES[shape_name])


def make_tree(shape_name, values, dtype='f32'):
  out, pos = {}, 0
  for name, shape in TREES[shape_name]:
    n = int(np.prod(shape))
    out[name] = jnp.asarray(
        (np.asarray(values[pos:pos + n], np.float32) / 8.0).reshape(shape))
    if dtype == 'bf16':
      # low-precision client updates (k/8 with |k| <= 64 is exact in bfloat16)
      out[name] = out[name].astype(jnp.bfloat16)
    pos += n
  return out


def build_aggregator(name, levels, seed):
  rng = jax.random.PRNGKey(seed)
  if name == 'uniform':
    return compression.uniform_stochastic_quantizer(levels, rng)
  if name == 'uniform_arith':
    return compression.uniform_stochastic_quantizer(levels, rng, 'arithmetic')
  if name == 'rotated':
    return compression.rotated_uniform_stochastic_quantizer(levels, rng)
  if name == 'drive':
    return compression.structured_drive_quantizer(rng)
  if name == 'terngrad':
    return compression.terngrad_quantizer(rng)
  raise ValueError(name)


class AggregatorSystem:

  def __init__(self, case):
    self.aggregator = build_aggregator(case['system'], case['levels'],
                                       case['seed'])
    self.trees = [make_tree(case['tree'], c['values'], case.get('dtype', 'f32'))
                  for c in case['pool']]
    # weights as Python floats or, per case, as the caller's own 0-d NumPy
    # arrays (np.asarray(num_examples, np.float32)): arguments like any other
    wk = case.get('weight_kind', 'float')
    self.weights = [float(c['weight']) if wk == 'float' else
                    np.asarray(c['weight'], np.float32 if wk == 'np0d' else np.float64)
                    for c in case['pool']]
    self.other = None
    if case.get('other_instance'):
      self.other = build_aggregator(case['system'], case['levels'], case['seed'])
      # its past: one round over the first two pool clients
      self.other.apply(self.make_args(['apply', [0, 1]]), self.other.init())

  def init(self):
    return self.aggregator.init()

  def make_args(self, op):
    return [(CLIENT_IDS[i], self.trees[i], self.weights[i]) for i in op[1]]

  def observe_args(self, args):
    return [(cid, tree, w) for cid, tree, w in args]

  def apply(self, state, args, as_generator=False):
    # Aggregator.apply takes any Iterable of (id, params, weight): a list and a
    # one-pass generator over the same triples are the same clients
    clients = (t for t in list(args)) if as_generator else args
    aggregated, new_state = self.aggregator.apply(clients, state)
    return new_state, {'aggregated': aggregated, 'state': new_state}

  def apply_other(self, state, args):
    aggregated, new_state = self.other.apply(args, state)
    return {'aggregated': aggregated, 'state': new_state}

  def check_output(self, args, out):
    pass


# ----------------------------------------------------------------- interpreter

class _Disturbance(Exception):
  pass


def disturb_other_algorithm():
  """One FedAvg round of an unrelated algorithm object on fixed data."""
  alg = build_algorithm('fed_avg', 2)
  ds = make_dataset([1, 2, 3, 0, -1, 0, 2, 1], 3)
  alg.apply(alg.init(init_params([1, -1, 2])), [(b'zz', ds, jax.random.PRNGKey(3))])
  # ... and the mere construction of every compression aggregator (setting up an
  # object is not an event a later round may notice)
  for name in AGGS:
    build_aggregator(name, 2, 1)


class Entry:

  def __init__(self, state, snap, shadow=None, origin='init'):
    self.state = state      # kept alive for the whole history
    self.snap = snap        # its value when it was produced
    self.shadow = shadow    # same point of the never-serialised lineage
    self.origin = origin


def run_history(case):
  system = (AggregatorSystem(case) if case['system'] in AGGS
            else AlgorithmSystem(case))
  tmp = None
  extra = set()
  try:
    s0 = system.init()
    entries = [Entry(s0, snapshot(s0, 'state_leaf_deleted', 'init state'))]
    shadows = []  # (state, snapshot, where) of the shadow lineage
    cur = 0
    for step, op in enumerate(case['ops']):
      kind = op[0]
      where = f'step {step} {op}'
      if kind == 'branch':
        cur = op[1] % len(entries)
        continue
      e = entries[cur]
      # The state we are about to use must still be what it was when produced.
      before = snapshot(e.state, 'held_state_leaf_deleted',
                        f'{where}: state #{cur} ({e.origin})')
      require_same(before, e.snap, 'held_state_changed_later',
                   f'{where}: state #{cur} ({e.origin}) no longer has the '
                   'value it had when it was returned')
      if kind == 'roundtrip':
        if tmp is None:
          tmp = tempfile.mkdtemp(dir='/var/tmp', prefix='C10-')
        path = os.path.join(tmp, f'state_{step}')
        if len(op) > 1 and op[1] == 'msgpack':
          # the other serialiser of fedjax.serialization: the state's leaves as
          # a msgpack list, put back into the same tree structure
          leaves, treedef = jax.tree_util.tree_flatten(e.state)
          data = serialization.msgpack_serialize(leaves)
          copy = jax.tree_util.tree_unflatten(
              treedef, serialization.msgpack_deserialize(data))
        elif len(op) > 1 and op[1] == 'checkpoint':
          # the training package's checkpoint files with their default round
          # number: one directory per history, used as a 'latest state' slot
          ckdir = os.path.join(tmp, 'latest')
          os.makedirs(ckdir, exist_ok=True)   # (the experiment loop creates its root_dir)
          checkpoint_lib.save_checkpoint(ckdir, e.state)
          loaded = checkpoint_lib.load_latest_checkpoint(ckdir)
          require(loaded is not None, 'roundtrip_copy_differs', f'{where}: no checkpoint found')
          copy = loaded[0]
        else:
          serialization.save_state(e.state, path)
          copy = serialization.load_state(path)
        csnap = snapshot(copy, 'roundtrip_copy_leaf_deleted', where)
        require_same(csnap, before, 'roundtrip_copy_differs', where)
        require_same(snapshot(e.state, 'argument_leaf_deleted', where), before,
                     'argument_state_changed', f'{where} (by save_state)')
        shadow = e.shadow if e.shadow is not None else e.state
        entries.append(Entry(copy, csnap, shadow, f'copy of #{cur}'))
        cur = len(entries) - 1
        continue
      assert kind == 'apply', kind
      edited = bool(case.get('edit_data')) and isinstance(system, AlgorithmSystem)
      if edited:
        # The caller relabels the examples of this round's clients IN PLACE
        # (the same ClientDataset objects took part in earlier rounds): a round
        # is a function of the values it is handed, also of these.
        for i in sorted(set(op[1])):
          y = system.datasets[i].raw_examples['y']
          y += np.float32(0.125 * (1 + step % 3))
      args = system.make_args(op)
      args_before = flat(system.observe_args(args))

      new1, out1 = system.apply(e.state, args)
      snap1 = snapshot(out1, 'output_leaf_deleted', f'{where}: first call')
      system.check_output(args, out1)
      if edited:
        fresh = [(cid, fedjax.ClientDataset({k: np.array(v, copy=True)
                                            for k, v in ds.raw_examples.items()}), key)
                 for cid, ds, key in args]
        _, out_f = system.apply(e.state, fresh)
        require_same(snapshot(out_f, 'output_leaf_deleted', f'{where}: fresh datasets'), snap1,
                     'round_over_datasets_in_use_differs_from_fresh_datasets_with_the_same_values',
                     where)
      after1 = snapshot(e.state, 'argument_leaf_deleted',
                        f'{where}: argument state after the call')
      require_same(after1, before, 'argument_state_changed',
                   f'{where}: argument state after the call')
      require_same(
          snapshot(system.observe_args(args), 'clients_leaf_deleted', where),
          args_before, 'clients_argument_changed', where)

      if isinstance(system, AggregatorSystem):
        new2, out2 = system.apply(e.state, args, as_generator=True)
      else:
        new2, out2 = system.apply(e.state, args)
      snap2 = snapshot(out2, 'output_leaf_deleted', f'{where}: second call')
      require_same(snap2, snap1, 'duplicate_call_differs',
                   f'{where}: second identical call vs first')
      require_same(snapshot(out1, 'output_leaf_deleted',
                            f'{where}: first output after the second call'),
                   snap1, 'first_output_changed_by_second_call', where)
      require_same(snapshot(e.state, 'argument_leaf_deleted',
                            f'{where}: argument state after the second call'),
                   before, 'argument_state_changed',
                   f'{where}: argument state after the second call')
      del new2, out2

      if system.other is not None and step in case.get('other_steps', ()):
        # the same (state, clients) on another object built with the same
        # hyper-parameters: nothing but the arguments may influence a round
        out_o = system.apply_other(e.state, args)
        require_same(snapshot(out_o, 'output_leaf_deleted',
                              f'{where}: other instance'),
                     snap1, 'other_instance_of_the_algorithm_differs',
                     f'{where}: same state and clients on a second algorithm '
                     'object constructed with the same hyper-parameters')
        require_same(snapshot(e.state, 'argument_leaf_deleted',
                              f'{where}: argument state after the other '
                              'instance ran'),
                     before, 'argument_state_changed',
                     f'{where}: argument state after the other instance ran')
        extra.add('compared_with_other_instance')
        del out_o

      new_shadow = None
      if e.shadow is not None:
        new_shadow, out_s = system.apply(e.shadow, args)
        require_same(snapshot(out_s, 'output_leaf_deleted',
                              f'{where}: original lineage'),
                     snap1, 'roundtrip_successor_differs',
                     f'{where}: continuing from the restored copy vs from the '
                     'original')
        shadows.append((new_shadow, flat(new_shadow), where))
        extra.add('compared_with_original_lineage')
      nsnap = snapshot(new1, 'output_leaf_deleted', where)
      if nonfinite(nsnap):
        extra.add('nonfinite_state')
      entries.append(Entry(new1, nsnap, new_shadow, f'result of step {step}'))
      cur = len(entries) - 1
      if step in case.get('disturb_after', ()):
        # Unrelated activity in the process, then the same round once more: a
        # backend context that is left by an exception (it must restore the
        # thread's backend), and a round of ANOTHER algorithm object.
        from fedjax.core import for_each_client as _fec
        backend_before = type(_fec.get_for_each_client_backend()).__name__
        try:
          with fedjax.for_each_client_backend('debug'):
            raise _Disturbance()
        except _Disturbance:
          pass
        backend_after = type(_fec.get_for_each_client_backend()).__name__
        # (tiny dyadic problems give the same bits on every backend, so the
        # process state a later round would run under is compared directly)
        require(backend_after == backend_before,
                'same_round_repeated_after_unrelated_activity_differs',
                f'{where}: a backend context left by an exception switched the '
                f'thread from {backend_before} to {backend_after}: later rounds of '
                'every algorithm object run on another backend')
        disturb_other_algorithm()
        _, out3 = system.apply(e.state, args)
        require_same(snapshot(out3, 'output_leaf_deleted', f'{where}: repeated later'),
                     snap1, 'same_round_repeated_after_unrelated_activity_differs',
                     f'{where}: the same (state, clients) after a backend context was '
                     'left by an exception and another algorithm ran a round')
        extra.add('repeated_after_unrelated_activity')
        del out3

    # Every state ever handed to the caller still has its value.
    for i, e in enumerate(entries):
      require_same(snapshot(e.state, 'held_state_leaf_deleted',
                            f'end: state #{i} ({e.origin})'),
                   e.snap, 'held_state_changed_later',
                   f'end of history: state #{i} ({e.origin})')
    for state, snap, where in shadows:
      require_same(snapshot(state, 'held_state_leaf_deleted', f'end: {where}'),
                   snap, 'held_state_changed_later',
                   f'end of history: original-lineage result of {where}')
  finally:
    if tmp is not None:
      shutil.rmtree(tmp, ignore_errors=True)
  return sorted(extra)


# ---------------------------------------------------------------------- labels

def plan(case):
  """Structure of a history, from the data alone."""
  n_states, cur = 1, 0
  copies = set()         # state indices descending from a restored copy
  applies = 0
  seen_clients = {}
  info = {'effective_branch': False, 'roundtrip_then_apply': 0,
          'repeat_client': False, 'duplicate_round': False,
          'returning_after_branch': False, 'branch_to_init': False,
          'roundtrip_of_init': False, 'double_roundtrip': False}
  pending_branch = False
  last_apply = {}        # state index -> (clients, seeds) applied from it
  for op in case['ops']:
    if op[0] == 'branch':
      target = op[1] % n_states
      pending_branch = target != cur
      if pending_branch and target == 0:
        info['branch_to_init'] = True
      cur = target
    elif op[0] == 'roundtrip':
      if cur == 0:
        info['roundtrip_of_init'] = True
      if cur in copies:
        info['double_roundtrip'] = True
      copies.add(n_states)
      cur = n_states
      n_states += 1
    else:
      applies += 1
      if pending_branch:
        info['effective_branch'] = True
        if any(i in seen_clients for i in op[1]):
          info['returning_after_branch'] = True
      pending_branch = False
      if cur in copies:
        info['roundtrip_then_apply'] += 1
        copies.add(n_states)
      if last_apply.get(cur) == (op[1], op[2]):
        info['duplicate_round'] = True
      last_apply[cur] = (op[1], op[2])
      for i in op[1]:
        seen_clients[i] = seen_clients.get(i, 0) + 1
      cur = n_states
      n_states += 1
  info['applies'] = applies
  info['repeat_client'] = any(v >= 2 for v in seen_clients.values())
  return info


def labels(case):
  info = plan(case)
  ls = ['system:' + case['system'], 'applies:%d' % min(info['applies'], 6)]
  if 'variant' in case:
    ls.append('variant:%d' % case['variant'])
  else:
    ls.append('levels:%d' % case['levels'])
    ls.append('tree:' + case['tree'])
    ls.append('leaves:' + case.get('dtype', 'f32'))
  for k in ('effective_branch', 'repeat_client', 'duplicate_round',
            'returning_after_branch', 'branch_to_init', 'roundtrip_of_init',
            'double_roundtrip'):
    if info[k]:
      ls.append(k)
  if case.get('other_instance'):
    ls.append('other_instance')
  if case.get('disturb_after'):
    ls.append('repeated_after_unrelated_activity')
  if info['roundtrip_then_apply'] >= 1:
    ls.append('roundtrip_then_apply')
  if info['roundtrip_then_apply'] >= 2:
    ls.append('roundtrip_then_>=2_applies')
  if any(op[0] == 'roundtrip' and len(op) > 1 and op[1] == 'msgpack' for op in case['ops']):
    ls.append('roundtrip_via_msgpack_leaves')
  if case.get('host_params'):
    ls.append('host_numpy_params:' + case['host_params'])
  if case.get('short_window'):
    ls.append('agnostic_state_with_shorter_window')
  if case.get('weight_kind', 'float') != 'float':
    ls.append('weights_are_numpy_0d_arrays')
  if case.get('edit_data'):
    ls.append('client_examples_edited_in_place_between_rounds')
  if any(op[0] == 'apply' and len(set(op[1])) < len(op[1]) for op in case['ops']):
    ls.append('client_twice_in_one_round')
  if case['system'] in ALGS:
    sizes = [len(c['rows']) // (D + 2) for c in case['pool']]
    if any(sizes[i] == 0 for op in case['ops'] if op[0] == 'apply' for i in op[1]):
      ls.append('zero_example_client_in_cohort')
    if any(all(sizes[i] == 0 for i in op[1]) for op in case['ops'] if op[0] == 'apply'):
      ls.append('all_empty_cohort')
    if case['system'] == 'hyp_cluster':
      ls.append('clusters:%d' % len(case['init']))
  return ls


def nontrivial(case, ls):
  return (plan(case)['applies'] >= 3 and 'repeat_client' in ls and
          ('effective_branch' in ls or 'roundtrip_then_apply' in ls))


# ------------------------------------------------------------------ strategies

@st.composite
def ops_strategy(draw, tier, npool, allowed, repeats=True):
  """3-5 (quick) / 3-8 (thorough) applies with 1-2 / 1-4 branch or roundtrip
  operations placed between them; at most 6 / 12 operations."""
  if tier == 'quick':
    n_apply = draw(st.integers(3, 5))
    n_extra = draw(st.integers(1, min(2, 6 - n_apply)))
  else:
    n_apply = draw(st.integers(3, 8))
    n_extra = draw(st.integers(1, 4))
  # slot s = before the s-th apply; slot 0 acts on the initial state
  # (listed so that Hypothesis' preference for early elements favours a
  # branch / roundtrip after the first or second round over one on init)
  slot_menu = [k for k in (1, 2, 0, 3, 1, 4, 2, 5, 6, 7) if k < n_apply]
  slots = sorted(draw(st.sampled_from(slot_menu)) for _ in range(n_extra))
  ops = []
  n_states, cur = 1, 0
  prev_apply = None
  used = []
  for a in range(n_apply):
    for _ in range(slots.count(a)):
      kind = draw(st.sampled_from(['branch', 'roundtrip']))
      if kind == 'branch' and n_states >= 2:
        others = [k for k in range(n_states) if k != cur]
        # usually another state (0 = init is a frequent target), rarely a no-op
        target = draw(st.sampled_from(others + [0, cur]))
        ops.append(['branch', target])
        cur = target
      else:
        ops.append(['roundtrip', draw(st.sampled_from(['pickle', 'pickle', 'msgpack', 'checkpoint']))])
        cur = n_states
        n_states += 1
    how = draw(st.sampled_from(['fresh', 'fresh', 'returning', 'same']))
    if how == 'same' and prev_apply is not None:
      members, seeds = list(prev_apply[0]), list(prev_apply[1])
    else:
      members = draw(st.lists(st.sampled_from(allowed), min_size=1,
                              max_size=min(4, len(allowed)), unique=True))
      if how == 'returning' and used:
        back = draw(st.sampled_from(used))
        if back not in members:
          members[draw(st.integers(0, len(members) - 1))] = back
      if repeats and draw(st.integers(0, 5)) == 0:
        # sampled with replacement: one client a second time in the same round
        members.insert(draw(st.integers(0, len(members))), draw(st.sampled_from(members)))
      seeds = [draw(st.integers(0, 2**20)) for _ in members]
    prev_apply = (members, seeds)
    for i in members:
      if i not in used:
        used.append(i)
    ops.append(['apply', list(members), list(seeds)])
    cur = n_states
    n_states += 1
  return ops


@st.composite
def other_instance_fields(draw, ops):
  """Half of the histories also run some of their rounds (later ones first in
  the menu: the interesting rounds are those after the object has a past) on a
  second object built with the same hyper-parameters."""
  applies = [i for i, o in enumerate(ops) if o[0] == 'apply']
  out = {}
  if draw(st.integers(0, 3)) == 0:
    out['disturb_after'] = [draw(st.sampled_from(applies))]
  if not draw(st.booleans()):
    return out
  menu = applies[1:][::-1] + applies[:1]
  steps = draw(st.lists(st.sampled_from(menu), min_size=1, max_size=3,
                        unique=True))
  out.update({'other_instance': True, 'other_steps': sorted(steps)})
  return out


def algorithm_strategy(alg):

  @st.composite
  def strategy(draw, tier):
    npool = draw(st.integers(4, 6))
    min_rows = 1 if alg == 'hyp_cluster' else 0
    pool = []
    for _ in range(npool):
      n = draw(st.sampled_from([3, 2, 5, 0, 1, 4]))
      n = max(n, min_rows)
      rows = []
      for _ in range(n):
        rows += [draw(st.integers(-8, 8)) for _ in range(D)]
        rows.append(draw(st.integers(-16, 16)))
        rows.append(draw(st.integers(0, 2)))
      pool.append({'rows': rows})
    k = draw(st.integers(2, 3)) if alg == 'hyp_cluster' else 1
    init = [[draw(st.integers(-8, 8)) for _ in range(D + 1)] for _ in range(k)]
    case = {'system': alg, 'variant': draw(st.integers(0, 2)), 'init': init,
            'pool': pool,
            # (a cohort that lists one id twice: not for the two algorithms
            # whose per-client outputs are keyed by id -- HypCluster collects
            # its per-cluster losses per id and cannot place two occurrences)
            'ops': draw(ops_strategy(tier, npool, list(range(npool)),
                                     repeats=alg not in ('hyp_cluster', 'apfl')))}
    case.update(draw(other_instance_fields(case['ops'])))
    case['host_params'] = draw(st.sampled_from([None, None, 'F', 'C']))
    case['edit_data'] = draw(st.integers(0, 3)) == 0
    if alg == 'agnostic':
      case['short_window'] = draw(st.sampled_from([False, False, True]))
    return case

  return strategy


@st.composite
def aggregator_strategy(draw, tier):
  # arithmetic coding differs from 'uniform' only in the bit accounting (its
  # entropy kernel re-compiles per number of unique values): drawn less often
  name = draw(st.sampled_from(['uniform', 'rotated', 'drive', 'terngrad',
                               'uniform', 'rotated', 'drive', 'terngrad',
                               'uniform_arith']))
  tree = draw(st.sampled_from(sorted(TREES)))
  size = tree_size(tree)
  npool = draw(st.integers(4, 6))
  pool = []
  for _ in range(npool):
    kind = draw(st.sampled_from(['generic', 'generic', 'generic', 'constant',
                                 'zero']))
    if kind == 'generic':
      values = [draw(st.integers(-64, 64)) for _ in range(size)]
    elif kind == 'constant':
      values = [draw(st.integers(-64, 64))] * size
    else:
      values = [0] * size
    pool.append({'values': values, 'weight': draw(st.integers(1, 5))})
  ops = draw(ops_strategy(tier, npool, list(range(npool))))
  ops = [[o[0], o[1]] if o[0] == 'apply' else o for o in ops]
  # arithmetic coding re-compiles its entropy kernel for every distinct number
  # of unique values: keep that number small there
  levels = draw(st.sampled_from([2, 3] if name == 'uniform_arith' else [2, 3, 16]))
  case = {'system': name, 'levels': levels,
          'seed': draw(st.integers(0, 2**20)), 'tree': tree, 'pool': pool,
          'ops': ops}
  if draw(st.integers(0, 3)) == 0:
    case['dtype'] = 'bf16'
  case['weight_kind'] = draw(st.sampled_from(['float', 'float', 'np0d', 'np0d_f64']))
  case.update(draw(other_instance_fields(ops)))
  return case


def _agg_plan_adapter(fn):
  """Aggregator applies carry no key seeds; give plan() a uniform shape."""

  def wrapped(case, *rest):
    c = dict(case)
    c['ops'] = [[o[0], o[1], []] if o[0] == 'apply' else o for o in case['ops']]
    return fn(c, *rest)

  return wrapped


# ------------------------------------------------- restart in a new process

def digest(x):
  """Process-independent fingerprint of a deep value snapshot."""
  import hashlib
  h = hashlib.sha1()
  for path, d in sorted(flat(x).items()):
    h.update(repr((path, d)).encode())
  return h.hexdigest()


def _system_of(case):
  return AggregatorSystem(case) if case['system'] in AGGS else AlgorithmSystem(case)


def _linear_applies(case):
  return [op for op in case['ops'] if op[0] == 'apply']


def _child_continue(spec):
  """Runs in a fresh interpreter: restore the pickled state, run the last round."""
  case = spec['case']
  system = _system_of(case)
  state = serialization.load_state(spec['state_path'])
  applies = _linear_applies(case)
  new_state, out = system.apply(state, system.make_args(applies[-1]))
  return {'restored': digest(state), 'after': digest(out)}


def run_cross_process(case):
  """Serialise after some rounds, restore in a NEW PROCESS, continue: the next
  round must be what the original process computes from the original state.  A
  restart is a new interpreter: nothing process-specific -- e.g. the hash
  randomisation of str/bytes, which reorders sets and changes which key a leaf
  or a client is paired with -- may influence a round."""
  import subprocess
  import sys
  from vf import env as _env
  system = _system_of(case)
  applies = _linear_applies(case)
  if case['system'] in AGGS:
    # what else this process may have done before: a round of an unrelated
    # aggregator of the same kind over float32 trees of the same shapes (the
    # process that restarts from the pickled state has no such past)
    other = dict(case, dtype='f32')
    warm = AggregatorSystem(other)
    warm.apply(warm.init(), warm.make_args(['apply', [0, 1]]))
  state = system.init()
  for op in applies[:-1]:
    state, _ = system.apply(state, system.make_args(op))
  tmp = tempfile.mkdtemp(dir='/var/tmp', prefix='C10x-')
  try:
    path = os.path.join(tmp, 'state')
    serialization.save_state(state, path)
    _, out = system.apply(state, system.make_args(applies[-1]))
    here = {'restored': digest(state), 'after': digest(out)}
    for hs in case['hashseeds']:
      env = _env.worker_env()
      env['PYTHONHASHSEED'] = str(hs)
      p = subprocess.run(
          [sys.executable, '-m', 'vf.props.c10',
           json.dumps({'case': case, 'state_path': path})],
          env=env, cwd=_env.VERIF_DIR, capture_output=True, text=True, timeout=1800)
      line = [l for l in p.stdout.splitlines() if l.startswith('@@C10@@')]
      if p.returncode != 0 or not line:
        raise Violation('restart:child_process_failed', p.stderr[-1500:])
      there = json.loads(line[0][7:])
      require(there['restored'] == here['restored'], 'restart_in_new_process:restored_state_differs',
              f'PYTHONHASHSEED={hs}: the state loaded in the new process is not the saved one')
      require(there['after'] == here['after'], 'restart_in_new_process:successor_differs',
              f'PYTHONHASHSEED={hs}: round {len(applies) - 1} continued from the restored '
              f'state in a new process differs from the same round in the original process '
              f'({case["system"]})')
  finally:
    shutil.rmtree(tmp, ignore_errors=True)
  return []


@st.composite
def cross_process_strategy(draw, tier):
  which = draw(st.sampled_from(ALGS + AGGS + ['rotated', 'drive']))
  if which in AGGS:
    case = draw(aggregator_strategy(tier))
    case['system'] = which
    if which == 'uniform_arith':
      case['levels'] = min(case['levels'], 3)
    if draw(st.booleans()):
      case['dtype'] = 'bf16'
    else:
      case.pop('dtype', None)
  else:
    case = draw(algorithm_strategy(which)(tier))
  case['ops'] = _linear_applies(case)[:3]
  case.pop('other_instance', None)
  case.pop('other_steps', None)
  case['hashseeds'] = draw(st.lists(st.integers(1, 10**6), min_size=2, max_size=2, unique=True))
  return case


QUICK = {'fed_avg_frozen': 64, 'fed_avg': 128, 'fed_prox': 128, 'mime': 128, 'mime_lite': 128,
         'agnostic': 128, 'hyp_cluster': 128, 'apfl': 144}
# relative shares of the per-shard soft time cap, proportional to measured cost
# (fed_avg runs first and also pays for the first-use warm-up of jax)
SHARE = {'fed_avg_frozen': 0.8, 'fed_avg': 1.5, 'fed_prox': 1.0, 'mime': 1.5, 'mime_lite': 1.5,
         'agnostic': 2.0, 'hyp_cluster': 2.5, 'apfl': 3.0}
DOC = ('generated histories of apply / branch / roundtrip for %s: duplicate '
       'call bit-equal, argument state and client keys unchanged and readable, '
       'restored copy gives bit-equal successors, every held state keeps its '
       'value')

CHECKS = [
    Check(name=alg, run=run_history, strategy=algorithm_strategy(alg),
          labels=labels, nontrivial=nontrivial,
          budget={'quick': QUICK[alg], 'thorough': 20 * QUICK[alg]},
          time_share=SHARE[alg],
          doc=DOC % alg)
    for alg in ALGS
] + [
    Check(name='aggregators', run=run_history, strategy=aggregator_strategy,
          labels=_agg_plan_adapter(labels),
          nontrivial=_agg_plan_adapter(nontrivial),
          budget={'quick': 320, 'thorough': 6400}, time_share=3.5,
          doc=DOC % 'the five compression aggregators (output = aggregated '
              'params + new CompressionState)'),
    Check(name='restart_in_new_process', run=run_cross_process,
          strategy=cross_process_strategy,
          labels=lambda c: ['system:' + c['system'], 'applies:%d' % len(c['ops'])],
          nontrivial=lambda c, ls: len(c['ops']) >= 2,
          budget={'quick': 16, 'thorough': 320}, time_share=2.0,
          doc='2-3 rounds of an algorithm / aggregator: the state is pickled before '
              'the last round and that round is run again from the restored state in '
              'two fresh interpreter processes with different PYTHONHASHSEED; the '
              'restored state and the successor are bit-identical to this process\'s'),
]


if __name__ == '__main__':
  import sys as _sys
  print('@@C10@@' + json.dumps(_child_continue(json.loads(_sys.argv[1]))))
