"""C16 -- Serialization round-trips every supported value exactly.

Four clause families:
  msgpack_roundtrip   deserialize(serialize(tree)) == tree for supported leaves
  reject_or_equal     unsupported leaves: an error at some stage or an equal
                      result, never a silently different value
  sqlite_roundtrip    SQLiteFederatedDataBuilder -> SQLiteFederatedData
  state_roundtrip     save_state/load_state and save_checkpoint/
                      load_latest_checkpoint on server-state-like pytrees

Cases are JSON: every leaf is described as data (kind, dtype name, shape,
layout, byte order, element values as ints / bit patterns / hex strings) and
the numpy / jax object is built inside run().  Float payloads are raw bit
patterns (so NaN payloads, -0.0 and infinities are covered) with subnormals
mapped to signed zero by construction.
"""
import contextlib
import dataclasses
import io
import itertools
import os
import shutil
import struct
import tempfile
from typing import Any

import jax
import jax.numpy as jnp
import ml_dtypes
import numpy as np
import optax
from hypothesis import strategies as st

import fedjax
from fedjax.algorithms import agnostic_fed_avg
from fedjax.algorithms import fed_avg
from fedjax.algorithms import hyp_cluster
from fedjax.core import serialization
from fedjax.core import sqlite_federated_data
from fedjax.training import checkpoint

from vf.core import Check, Discard, Violation, require

PROPERTY_ID = 'C16'
NEEDS_TF = True
FUZZ_CHECKS = ['msgpack_roundtrip', 'reject_or_equal']
FUZZ_INSTRUMENT = ['fedjax.core.serialization']
FUZZ_RUNS = {'quick': 3000, 'thorough': 300000}
LEVEL = 'exploration'
RULE = (
    'Hypothesis draws recursive dict(str/bytes keys)/list trees (<= 8 leaves '
    'quick, <= 14 thorough) whose leaves are described as data: ndarrays of 15 '
    'dtypes (bool, (u)int8-64, float16/32/64, bfloat16, complex64/128) x 16 '
    'shapes (0-d, empty, rank 1-5) x layout {C, F, strided, negstride, '
    'broadcast} x byte order {native, swapped}, jax arrays, object arrays of '
    'bytes (incl. empty arrays, b"" and NUL bytes), numpy scalars, Python '
    'int/float/bool/complex/None/bytes/str; float values are raw bit patterns '
    '(NaN payloads, +-0, +-inf; subnormals flushed to signed zero by '
    'construction). The negative family plants >= 1 unsupported leaf (tuple, '
    'S/U/V string arrays, aligned/unaligned structured dtypes, object arrays '
    'with a non-bytes element at any position, datetime64/timedelta64) in such '
    'a tree. SQLite cases: 0-5 clients with unique byte ids, 0-4 examples, 1-3 '
    'features from the same leaf space, written in 1-3 add_many calls. State '
    'cases: 1-3 saves of pytrees built from the fed_avg / agnostic / '
    'hyp_cluster ServerState dataclasses, a fedjax.dataclass, optax state '
    'namedtuples, tuples, dicts keyed by bytes, lists, numpy + jax leaves. '
    'Non-trivial: msgpack -- some leaf is non-contiguous, byte-swapped, 0-d, '
    'empty or an object array, or nesting depth >= 2; negative -- the planted '
    'leaf is reached (always) ; sqlite -- >= 2 clients or such a leaf; state -- '
    'depth >= 2 or a dataclass / namedtuple node. distinct = distinct canonical '
    'case JSON.')
RULE += (
    ' '
    'Later widenings: failing saves; reads inside open walks; a stale database at the output '
    'path; one reader object following a build; a damaged blob handed to the deserialiser bef'
    'ore the valid one; consumer edits of a read client followed by re-reads.')
RULE += (
    ' '
    'Also: add_many fed by a producer that refills one scratch dict.')
ASSUMPTIONS = [
    'equal dtype is judged up to byte order (dtype.name): the msgpack wire '
    'format stores the dtype name only, so results are native-endian by design',
    'values are compared bit-exactly on a native C-order copy; a difference '
    'confined to positions where both sides are NaN would be tolerated (label '
    'nan_payload_changed) because the statement promises equal values, not '
    'equal NaN payloads -- never observed',
    'Python ints are restricted to msgpack\'s range [-2**63, 2**64-1]; str '
    'leaves and keys are valid unicode (no lone surrogates); dict keys are '
    'str or bytes (msgpack strict_map_key)',
    'jax array leaves may come back as numpy arrays (documented for msgpack; '
    'accepted for pickle as well)',
    'negative class: any Exception from msgpack_serialize or '
    'msgpack_deserialize counts as "rejected with an error"; an equal result '
    '(same container types, dtype, shape, values) is accepted too',
    'float payloads exclude subnormals; long double / complex256 are not '
    'generated (padding bytes are platform dependent)',
    'SQLite: client ids are unique, every client has >= 1 feature; '
    'client_ids()/client_sizes() order is not asserted (documented as '
    'unspecified); a lookup of an id never written must raise',
    'checkpoints: round numbers are non-decreasing within a directory and in '
    '[0, 10**8); the checkpoint directory name is drawn from a menu that '
    'includes regex/glob metacharacters (a+b, sweep[lr=0.1], x^y$, run(2)): the '
    'saved state must load back from any of them (defect fixed in ed0907a)',
    'needs TensorFlow for tf.io.gfile (save_state/load_state/checkpoint)',
]

# ------------------------------------------------------------------ dtypes

BF16 = np.dtype(ml_dtypes.bfloat16)
INT_DTYPES = ['int8', 'int16', 'int32', 'int64',
              'uint8', 'uint16', 'uint32', 'uint64']
FLOAT_FMT = {'float16': (16, 5), 'bfloat16': (16, 8), 'float32': (32, 8),
             'float64': (64, 11)}
COMPLEX_PART = {'complex64': 'float32', 'complex128': 'float64'}
DTYPES = ['bool'] + INT_DTYPES + list(FLOAT_FMT) + list(COMPLEX_PART)
JAX_DTYPES = ['bool', 'int8', 'int16', 'int32', 'uint8', 'uint16', 'uint32',
              'float16', 'bfloat16', 'float32', 'complex64']
UINT_OF_BITS = {16: np.uint16, 32: np.uint32, 64: np.uint64}
LAYOUTS = ['C', 'F', 'strided', 'negstride', 'broadcast']
SHAPES = [[], [0], [0, 3], [3, 0], [1], [2], [5], [2, 3], [3, 2], [1, 4],
          [4, 1], [2, 2, 2], [2, 0, 2], [2, 1, 3, 2], [1, 2, 1, 2],
          [1, 1, 2, 1, 2]]


def np_dtype(name):
  return BF16 if name == 'bfloat16' else np.dtype(name)


def native(dt):
  """dt in native byte order (bfloat16 has no byte-order variants)."""
  if dt == BF16 or dt.isnative:
    return dt
  return dt.newbyteorder('=')


def flat_from_vals(name, flat):
  """1-d native array of dtype `name` from the case's element values."""
  n = len(flat)
  if name == 'bool':
    return np.array([bool(v & 1) for v in flat], dtype=np.bool_).reshape(n)
  if name in INT_DTYPES:
    info = np.iinfo(name)
    span = int(info.max) - int(info.min) + 1
    vals = [((int(v) - int(info.min)) % span) + int(info.min) for v in flat]
    return np.array(vals, dtype=name).reshape(n)
  if name in FLOAT_FMT:
    bits = FLOAT_FMT[name][0]
    u = np.array([int(v) & ((1 << bits) - 1) for v in flat],
                 dtype=UINT_OF_BITS[bits]).reshape(n)
    return u.view(np_dtype(name))
  if name in COMPLEX_PART:
    bits = FLOAT_FMT[COMPLEX_PART[name]][0]
    u = np.array([[int(p) & ((1 << bits) - 1) for p in v] for v in flat],
                 dtype=UINT_OF_BITS[bits]).reshape(n, 2)
    return u.reshape(2 * n).view(np.dtype(name)).reshape(n)
  raise ValueError(name)


def cycle(vals, size, default):
  vals = vals or [default]
  return [vals[i % len(vals)] for i in range(size)]


def logical_array(spec):
  """The value the leaf denotes: native, C-contiguous."""
  shape = tuple(spec['shape'])
  size = int(np.prod(shape, dtype=np.int64))
  if spec['t'] in ('objarr', 'objbad'):
    a = np.empty((size,), dtype=object)
    for i, it in enumerate(cycle(spec['items'], size, '')):
      a[i] = build_obj_item(it)
    a = a.reshape(shape)
  else:
    default = [0, 0] if spec['dtype'] in COMPLEX_PART else 0
    a = flat_from_vals(spec['dtype'], cycle(spec['vals'], size, default))
    a = a.reshape(shape)
  if spec.get('layout') == 'broadcast' and a.ndim:
    ax = spec.get('baxis', 0) % a.ndim
    if shape[ax]:
      a = np.ascontiguousarray(np.broadcast_to(a.take([0], axis=ax), shape))
  return a


def build_obj_item(it):
  """hex string -> bytes; {'s': str} / {'i': int} / {'f': float} / {'n': 0} /
  {'t': [hex...]} -> a non-bytes element (negative class only)."""
  if isinstance(it, str):
    return bytes.fromhex(it)
  if 's' in it:
    return it['s']
  if 'i' in it:
    return int(it['i'])
  if 'f' in it:
    return float(it['f'])
  if 't' in it:
    return tuple(bytes.fromhex(h) for h in it['t'])
  return None


def apply_layout(a0, layout, dt, baxis=0):
  """An array equal to a0 with dtype dt and the requested memory layout."""
  src = a0.astype(dt) if dt != a0.dtype else a0.copy()
  nd, shape = src.ndim, src.shape
  if layout == 'C' or nd == 0:
    return src
  if layout == 'F':
    return np.asfortranarray(src)
  if layout == 'strided':
    big = np.empty(tuple(2 * s + 1 for s in shape), dtype=dt)
    if dt == object:
      big.fill(b'\xab')
    elif dt.kind == 'b':
      big.fill(True)
    else:
      big.view(np.uint8).fill(0xAB)
    v = big[tuple(slice(1, None, 2) for _ in shape)]
    v[...] = src
    return v
  if layout == 'negstride':
    rev = (slice(None, None, -1),) * nd
    return src[rev].copy()[rev]
  if layout == 'broadcast':
    ax = baxis % nd
    if not shape[ax]:
      return src
    return np.broadcast_to(src.take([0], axis=ax), shape)
  raise ValueError(layout)


def build_arr(spec):
  a0 = logical_array(spec)
  if spec['t'] in ('objarr', 'objbad'):
    return apply_layout(a0, spec.get('layout', 'C'), np.dtype(object),
                        spec.get('baxis', 0))
  dt = a0.dtype
  if spec.get('order') == 'swapped' and dt != BF16:
    dt = dt.newbyteorder('S')
  return apply_layout(a0, spec.get('layout', 'C'), dt, spec.get('baxis', 0))


def py_float(bits):
  return struct.unpack('<d', struct.pack('<Q', int(bits) & (2**64 - 1)))[0]


def float_bits(x):
  return struct.unpack('<Q', struct.pack('<d', x))[0]


# ------------------------------------------------- pickled state node types


@fedjax.dataclass
class LocalState:
  """A fedjax.dataclass like the ones algorithms define for their state."""
  params: Any
  aux: Any


DATACLASSES = {
    'fedavg': (fed_avg.ServerState, ['params', 'opt_state']),
    'agnostic': (agnostic_fed_avg.ServerState,
                 ['params', 'opt_state', 'domain_weights', 'domain_window']),
    'hypcluster': (hyp_cluster.ServerState, ['cluster_params', 'opt_states']),
    'localdc': (LocalState, ['params', 'aux']),
}
NAMEDTUPLES = {
    'adam': (optax.ScaleByAdamState, 3),
    'trace': (optax.TraceState, 1),
    'rss': (optax.ScaleByRssState, 1),
    'empty': (optax.EmptyState, 0),
}


def qualname(tp):
  return f'{tp.__module__}.{tp.__qualname__}'


# ------------------------------------------------------------ build / expect


def build(spec):
  """The Python object a case node denotes."""
  t = spec['t']
  if t == 'dict':
    return {build_key(k): build(v) for k, v in spec['items']}
  if t == 'list':
    return [build(c) for c in spec['items']]
  if t == 'tuple':
    return tuple(build(c) for c in spec['items'])
  if t in DATACLASSES:
    cls, names = DATACLASSES[t]
    return cls(**{n: build(c) for n, c in zip(names, spec['items'])})
  if t in NAMEDTUPLES:
    return NAMEDTUPLES[t][0](*[build(c) for c in spec['items']])
  if t in ('arr', 'objarr', 'objbad'):
    return build_arr(spec)
  if t == 'jaxarr':
    return jax.device_put(logical_array(spec))
  if t == 'npscalar':
    return flat_from_vals(spec['dtype'], spec['vals'][:1])[0]
  if t == 'py':
    return build_py(spec)
  if t == 'strarr':
    items = cycle(spec['items'], int(np.prod(spec['shape'], dtype=np.int64)), '')
    if spec['kind'] == 'U':
      a = np.array([str(s) for s in items] or [], dtype='U4')
    elif spec['kind'] == 'S':
      a = np.array([bytes.fromhex(s) for s in items] or [], dtype='S4')
    else:
      a = np.array([bytes.fromhex(s).ljust(3, b'\0')[:3] for s in items] or [],
                   dtype='V3')
    return a.reshape(spec['shape'])
  if t == 'structarr':
    dt = np.dtype([(f'f{i}', np.dtype(n)) for i, n in enumerate(spec['fields'])],
                  align=bool(spec['aligned']))
    if spec.get('order') == 'swapped':
      dt = dt.newbyteorder('S')
    size = int(np.prod(spec['shape'], dtype=np.int64))
    a = np.zeros((size,), dtype=dt)
    col = np.array(cycle(spec['vals'], size, 0), dtype=np.int64).reshape(size)
    for j, n in enumerate(spec['fields']):
      # small exact integers in every numeric field type
      a[f'f{j}'] = ((col + j) % 100).astype(np.dtype(n))
    return a.reshape(spec['shape'])
  if t == 'timearr':
    size = int(np.prod(spec['shape'], dtype=np.int64))
    a = np.array(cycle(spec['vals'], size, 0), dtype=np.int64).reshape(
        spec['shape']).view(spec['dtype'])
    if spec.get('order') == 'swapped':
      a = a.astype(a.dtype.newbyteorder('S'))
    return a
  raise ValueError(t)


def build_key(k):
  return k['v'] if k['k'] == 'str' else bytes.fromhex(k['v'])


def build_py(spec):
  tp = spec['type']
  if tp == 'int':
    return int(spec['v'])
  if tp == 'bool':
    return bool(spec['v'])
  if tp == 'none':
    return None
  if tp == 'float':
    return py_float(spec['bits'])
  if tp == 'complex':
    return complex(py_float(spec['bits'][0]), py_float(spec['bits'][1]))
  if tp == 'bytes':
    return bytes.fromhex(spec['v'])
  if tp == 'str':
    return spec['v']
  raise ValueError(tp)


# A description is a plain, comparable rendering of a value:
#   ('dict', {key: desc}) ('list', [..]) ('tuple', [..]) ('dc', name, {..})
#   ('nt', name, [..]) ('arr', dtype_name, shape, native C array)
#   ('objarr', shape, [elem...]) ('npscalar', dtype_name, bytes)
#   ('py', type_name, payload)


def expected(spec):
  """Description of the value a node denotes, derived from the case only."""
  t = spec['t']
  if t == 'dict':
    return ('dict', {build_key(k): expected(v) for k, v in spec['items']})
  if t in ('list', 'tuple'):
    return (t, [expected(c) for c in spec['items']])
  if t in DATACLASSES:
    cls, names = DATACLASSES[t]
    return ('dc', qualname(cls),
            {n: expected(c) for n, c in zip(names, spec['items'])})
  if t in NAMEDTUPLES:
    return ('nt', qualname(NAMEDTUPLES[t][0]),
            [expected(c) for c in spec['items']])
  if t in ('arr', 'jaxarr'):
    a = logical_array(spec)
    return ('arr', a.dtype.name, a.shape, a)
  if t == 'objarr':
    a = logical_array(spec)
    return ('objarr', a.shape, [describe_elem(e) for e in a.reshape(-1)])
  if t == 'npscalar':
    a = flat_from_vals(spec['dtype'], spec['vals'][:1])
    return ('npscalar', a.dtype.name, a.tobytes())
  if t == 'py':
    return describe(build_py(spec))
  raise ValueError(t)


def describe_elem(e):
  if type(e) is bytes:  # pylint: disable=unidiomatic-typecheck
    return ('bytes', e)
  return ('other', type(e).__name__, repr(e))


def describe(x):
  """Description of an actual object (used on results, and on both sides for
  the negative class)."""
  # pylint: disable=unidiomatic-typecheck
  tp = type(x)
  if tp is dict:
    return ('dict', {k: describe(v) for k, v in x.items()})
  if tp is list:
    return ('list', [describe(v) for v in x])
  if tp is tuple:
    return ('tuple', [describe(v) for v in x])
  if isinstance(x, tuple) and hasattr(x, '_fields'):
    return ('nt', qualname(tp), [describe(v) for v in x])
  if dataclasses.is_dataclass(x) and not isinstance(x, type):
    return ('dc', qualname(tp),
            {f.name: describe(getattr(x, f.name)) for f in dataclasses.fields(x)})
  if isinstance(x, jax.Array):
    x = np.asarray(x)
    tp = np.ndarray
  if isinstance(x, np.ndarray):
    if tp is not np.ndarray:
      return ('ndarray_subclass', qualname(tp))
    if x.dtype == object:
      return ('objarr', x.shape, [describe_elem(e) for e in x.reshape(-1)])
    if x.dtype.kind in 'SUVMm' and x.dtype != BF16:
      nat = x.astype(x.dtype.newbyteorder('=')) if x.dtype.kind != 'S' else x
      return ('rawarr', str(nat.dtype), x.shape,
              np.ascontiguousarray(nat).tobytes())
    a = np.ascontiguousarray(x)
    a = a.astype(native(a.dtype)) if a.dtype != native(a.dtype) else a
    return ('arr', a.dtype.name, x.shape, a.reshape(x.shape))
  if isinstance(x, np.generic):
    if x.dtype.kind in 'SUVMmO' and x.dtype != BF16:
      return ('npscalar_raw', str(x.dtype), repr(x))
    return ('npscalar', x.dtype.name, np.asarray(x).tobytes())
  if tp is bool:
    return ('py', 'bool', x)
  if tp is int:
    return ('py', 'int', x)
  if tp is float:
    return ('py', 'float', float_bits(x))
  if tp is complex:
    return ('py', 'complex', (float_bits(x.real), float_bits(x.imag)))
  if x is None:
    return ('py', 'none', None)
  if tp is bytes:
    return ('py', 'bytes', x)
  if tp is str:
    return ('py', 'str', x)
  return ('unknown', qualname(tp), repr(x)[:80])


def _nan_only_difference(a, b):
  """True iff a and b differ only where both are NaN (same dtype/shape)."""
  name = a.dtype.name
  part = COMPLEX_PART.get(name, name)
  if part not in FLOAT_FMT:
    return False
  fa = np.ascontiguousarray(a).reshape(-1).view(np_dtype(part))
  fb = np.ascontiguousarray(b).reshape(-1).view(np_dtype(part))
  u = UINT_OF_BITS[FLOAT_FMT[part][0]]
  diff = fa.view(u) != fb.view(u)
  both_nan = np.isnan(fa.astype(np.float64)) & np.isnan(fb.astype(np.float64))
  return bool(np.all(~diff | both_nan))


def compare(exp, got, path, notes):
  """Raises Violation at the first difference between two descriptions."""
  where = '/'.join(path) or '<root>'
  require(exp[0] == got[0], 'kind_changed',
          lambda: f'{where}: expected {exp[0]} got {got[:2]!r}')
  k = exp[0]
  if k == 'dict':
    require(set(exp[1]) == set(got[1]), 'dict_keys_differ',
            lambda: f'{where}: {sorted(map(repr, exp[1]))} vs {sorted(map(repr, got[1]))}')
    for key in exp[1]:
      compare(exp[1][key], got[1][key], path + [repr(key)], notes)
  elif k in ('list', 'tuple'):
    require(len(exp[1]) == len(got[1]), 'length_differs',
            lambda: f'{where}: {len(exp[1])} vs {len(got[1])}')
    for i, (e, g) in enumerate(zip(exp[1], got[1])):
      compare(e, g, path + [str(i)], notes)
  elif k == 'nt':
    require(exp[1] == got[1] and len(exp[2]) == len(got[2]), 'node_type_changed',
            lambda: f'{where}: {exp[1]} vs {got[1]}')
    for i, (e, g) in enumerate(zip(exp[2], got[2])):
      compare(e, g, path + [str(i)], notes)
  elif k == 'dc':
    require(exp[1] == got[1] and set(exp[2]) == set(got[2]), 'node_type_changed',
            lambda: f'{where}: {exp[1]} vs {got[1]}')
    for name in exp[2]:
      compare(exp[2][name], got[2][name], path + [name], notes)
  elif k == 'arr':
    require(exp[1] == got[1], 'array_dtype_differs',
            lambda: f'{where}: {exp[1]} vs {got[1]}')
    require(tuple(exp[2]) == tuple(got[2]), 'array_shape_differs',
            lambda: f'{where}: {tuple(exp[2])} vs {tuple(got[2])}')
    if exp[3].tobytes() != got[3].tobytes():
      require(_nan_only_difference(exp[3], got[3]), 'array_values_differ',
              lambda: f'{where}: {exp[1]}{tuple(exp[2])} expected '
                      f'{exp[3].reshape(-1).tolist()[:12]} got '
                      f'{got[3].reshape(-1).tolist()[:12]}')
      notes.append('nan_payload_changed')
  elif k == 'objarr':
    require(tuple(exp[1]) == tuple(got[1]), 'object_array_shape_differs',
            lambda: f'{where}: {tuple(exp[1])} vs {tuple(got[1])}')
    require(exp[2] == got[2], 'object_array_elements_differ',
            lambda: f'{where}: {exp[2][:8]} vs {got[2][:8]}')
  elif k == 'npscalar':
    require(exp[1] == got[1], 'scalar_dtype_differs',
            lambda: f'{where}: {exp[1]} vs {got[1]}')
    if exp[2] != got[2]:
      a = np.frombuffer(exp[2], dtype=np_dtype(exp[1]))
      b = np.frombuffer(got[2], dtype=np_dtype(got[1]))
      require(_nan_only_difference(a, b), 'scalar_value_differs',
              lambda: f'{where}: {a.tolist()} vs {b.tolist()}')
      notes.append('nan_payload_changed')
  elif k == 'py':
    require(exp[1] == got[1], 'python_scalar_type_changed',
            lambda: f'{where}: {exp[1]} vs {got[1]}')
    if exp[2] != got[2]:
      ok = False
      if exp[1] in ('float', 'complex'):
        e = exp[2] if exp[1] == 'complex' else (exp[2],)
        g = got[2] if got[1] == 'complex' else (got[2],)
        ok = all(x == y or (py_float(x) != py_float(x) and py_float(y) != py_float(y))
                 for x, y in zip(e, g))
      require(ok, 'python_scalar_value_differs',
              lambda: f'{where}: {exp[2]!r} vs {got[2]!r}')
      notes.append('nan_payload_changed')
  else:
    require(exp == got, 'value_differs', lambda: f'{where}: {exp!r} vs {got!r}')


def self_check_input(spec, obj):
  """Harness self-check: the object handed to fedjax denotes the case value."""
  if spec['t'] in ('arr', 'jaxarr'):
    got = describe(obj)
    want = logical_array(spec)
    if (got[0] != 'arr' or got[1] != want.dtype.name or
        tuple(got[2]) != want.shape or got[3].tobytes() != want.tobytes()):
      raise RuntimeError(f'harness built a wrong input for {spec}')
  elif spec['t'] in ('dict',):
    for (_, c), v in zip(spec['items'], obj.values()):
      self_check_input(c, v)
  elif spec['t'] in ('list', 'tuple') or spec['t'] in DATACLASSES or spec['t'] in NAMEDTUPLES:
    children = (obj if isinstance(obj, (list, tuple)) else
                [getattr(obj, f.name) for f in dataclasses.fields(obj)])
    for c, v in zip(spec['items'], children):
      self_check_input(c, v)


@contextlib.contextmanager
def quiet():
  # serialization._msgpack_ext_pack print()s every object it cannot encode.
  with contextlib.redirect_stdout(io.StringIO()):
    yield


@contextlib.contextmanager
def scratch_dir():
  d = tempfile.mkdtemp(prefix='C16-', dir='/var/tmp')
  try:
    yield d
  finally:
    shutil.rmtree(d, ignore_errors=True)


# -------------------------------------------------------------------- runs


def run_msgpack(case):
  tree = case['tree']
  obj = build(tree)
  self_check_input(tree, obj)
  with quiet():
    data = serialization.msgpack_serialize(obj)
  require(type(data) is bytes, 'serialize_not_bytes', type(data).__name__)
  notes = []
  bad = case.get('bad_blob_first')
  if bad and len(data) > 1:
    # A damaged blob was handed to the deserialiser just before (a truncated
    # download, a blob with trailing bytes): whatever it does with that one --
    # raise, most likely -- the valid blob that follows is read on its own.
    broken = {'cut': data[:max(1, len(data) * 2 // 3)], 'tail': data + data[:3],
              'head': data[1:]}[bad]
    try:
      with quiet():
        serialization.msgpack_deserialize(broken)
    except Exception:  # pylint: disable=broad-except
      notes.append('damaged_blob_rejected')
  got = serialization.msgpack_deserialize(data)
  compare(expected(tree), describe(got), [], notes)
  if case.get('twice'):
    # the result is itself a supported tree: a second trip must be the identity
    with quiet():
      again = serialization.msgpack_deserialize(
          serialization.msgpack_serialize(got))
    compare(expected(tree), describe(again), ['second_trip'], notes)
  return sorted(set(notes))


def run_reject(case):
  tree = case['tree']
  obj = build(tree)
  want = describe(obj)
  try:
    with quiet():
      data = serialization.msgpack_serialize(obj)
  except Exception:  # pylint: disable=broad-except
    return ['rejected_at_serialize']
  try:
    got = serialization.msgpack_deserialize(data)
  except Exception:  # pylint: disable=broad-except
    return ['rejected_at_deserialize']
  notes = []
  try:
    compare(want, describe(got), [], notes)
  except Violation as v:
    raise Violation('silently_altered:' + v.clause, v.message)
  return ['roundtrip_equal'] + sorted(set(notes))


def client_examples(client):
  return {f['name']: build(dict(f['leaf'], shape=[client['n']] + f['leaf']['trail']))
          for f in client['features']}


def client_expected(client):
  return ('dict', {
      f['name']: expected(dict(f['leaf'], shape=[client['n']] + f['leaf']['trail']))
      for f in client['features']})


def run_sqlite(case):
  clients = case['clients']
  ids = [bytes.fromhex(c['id']) for c in clients]
  if len(set(ids)) != len(ids) or any(not c['features'] for c in clients):
    raise Discard('malformed case')
  by_id = dict(zip(ids, clients))
  notes = []
  with scratch_dir() as d:
    path = os.path.join(d, 'data.sqlite')
    pairs = [(i, client_examples(c)) for i, c in zip(ids, clients)]
    if case.get('stale_file'):
      # A database from an earlier build already sits at the output path.  The
      # new build either refuses (then the caller removes the file and builds
      # again) or replaces it: what is read back are the clients of THIS build.
      stale_id = b'stale-' + (ids[0] if ids else b'x')
      with sqlite_federated_data.SQLiteFederatedDataBuilder(path) as old:
        old.add_many([(stale_id, {'z': np.arange(3, dtype=np.int32)})])
      try:
        probe = sqlite_federated_data.SQLiteFederatedDataBuilder(path)
      except Exception:  # pylint: disable=broad-except
        os.remove(path)
        notes.append('existing_file_refused')
      else:
        probe.__exit__(None, None, None)
        peek = sqlite_federated_data.SQLiteFederatedData.new(path)
        try:
          left = list(peek.client_ids())
        finally:
          peek._connection.close()  # pylint: disable=protected-access
        require(stale_id not in left, 'sqlite:stale_clients_of_an_earlier_build_kept',
                lambda: f'opening a builder on an existing database kept {left!r}')
        os.remove(path)
    kept = []
    with sqlite_federated_data.SQLiteFederatedDataBuilder(path) as builder:
      pos = 0

      def written_so_far(where):
        # what add_many() has returned from is in the file: a reader on its own
        # connection sees it while the builder is still open (a builder used
        # without `with`, a crash between two batches)
        if case.get('peek') == 'kept':
          # ONE reader object follows the build: opened after the first batch,
          # asked again after every later one (a dashboard on a growing file)
          if not kept:
            kept.append(sqlite_federated_data.SQLiteFederatedData.new(path))
          peek = kept[0]
        else:
          peek = sqlite_federated_data.SQLiteFederatedData.new(path)
        try:
          count = peek.num_clients()
          have = sorted(peek.client_ids())
          sized = sorted(i for i, _ in peek.client_sizes())
        finally:
          if not kept:
            peek._connection.close()  # pylint: disable=protected-access
        require(have == sorted(ids[:pos]) and sized == have and count == len(have),
                'sqlite:batch_not_visible_after_add_many',
                lambda: f'{where}: num_clients {count}, {len(have)} ids, {len(sized)} sizes '
                        f'readable, {pos} written')

      for size in case['chunks']:
        chunk, pos = pairs[pos:pos + size], pos + size
        if case.get('as_iterator') == 'scratch':
          # a streaming producer that refills ONE examples dict for client
          # after client: what it yields is valid only until the next item is
          # asked for, as with any generator over a scratch buffer
          def producer(items=chunk):
            scratch = {}
            for cid_, ex_ in items:
              scratch.clear()
              scratch.update(ex_)
              yield cid_, scratch
          builder.add_many(producer())
        elif case.get('as_iterator'):
          builder.add_many(iter(chunk))
        else:
          builder.add_many(chunk)
        if case.get('peek'):
          written_so_far(f'after a batch of {size}')
      if pos < len(pairs):
        builder.add_many(pairs[pos:])
        pos = len(pairs)
        if case.get('peek'):
          written_so_far('after the last batch')
    if kept:
      written_so_far('after the builder was closed')
      kept.pop()._connection.close()  # pylint: disable=protected-access
    fd = sqlite_federated_data.SQLiteFederatedData.new(path)
    try:
      require(fd.num_clients() == len(ids), 'sqlite:num_clients',
              lambda: f'{fd.num_clients()} vs {len(ids)}')
      got_ids = list(fd.client_ids())
      require(sorted(got_ids) == sorted(ids), 'sqlite:client_ids',
              lambda: f'{sorted(got_ids)} vs {sorted(ids)}')
      sizes = list(fd.client_sizes())
      want_sizes = sorted((i, c['n']) for i, c in zip(ids, clients))
      require(sorted(sizes) == want_sizes, 'sqlite:client_sizes',
              lambda: f'{sorted(sizes)} vs {want_sizes}')
      seen = []
      for cid, ds in fd.clients():
        require(cid in by_id, 'sqlite:unknown_client', repr(cid))
        seen.append(cid)
        require(len(ds) == by_id[cid]['n'], 'sqlite:dataset_len',
                lambda: f'{cid!r}: {len(ds)} vs {by_id[cid]["n"]}')
        compare(client_expected(by_id[cid]), describe(dict(ds.raw_examples)),
                ['clients()', repr(cid)], notes)
      require(sorted(seen) == sorted(ids), 'sqlite:clients_ids',
              lambda: f'{sorted(seen)} vs {sorted(ids)}')
      require([cid for cid, _ in fd.clients()] == seen,
              'sqlite:clients_order_not_deterministic')
      # other reads on the same object while a walk is open: the walk goes on
      walked = []
      for cid, n_ex in fd.client_sizes():
        require(fd.client_size(cid) == n_ex and len(fd.get_client(cid)) == n_ex,
                'sqlite:read_inside_a_walk', repr(cid))
        fd.num_clients()
        walked.append(cid)
      require(sorted(walked) == sorted(ids), 'sqlite:walk_cut_short_by_other_reads',
              lambda: f'client_sizes() with get_client/client_size/num_clients inside: '
                      f'{len(walked)} of {len(ids)} clients')
      walked = []
      for cid, ds in fd.clients():
        fd.client_size(cid)
        list(fd.client_ids())
        walked.append(cid)
      require(sorted(walked) == sorted(ids), 'sqlite:walk_cut_short_by_other_reads',
              lambda: f'clients() with client_size/client_ids inside: '
                      f'{len(walked)} of {len(ids)} clients')
      for cid in ids:
        require(fd.client_size(cid) == by_id[cid]['n'], 'sqlite:client_size',
                lambda: f'{cid!r}: {fd.client_size(cid)} vs {by_id[cid]["n"]}')
        compare(client_expected(by_id[cid]),
                describe(dict(fd.get_client(cid).raw_examples)),
                ['get_client', repr(cid)], notes)
      got_many = list(fd.get_clients(list(reversed(ids))))
      require([cid for cid, _ in got_many] == list(reversed(ids)),
              'sqlite:get_clients_order')
      # What a reader hands out is the consumer's to edit (drop a feature, add
      # one, scale in place); reading the client again -- here or through
      # another reader -- gives what the builder wrote.
      for cid in ids[:2]:
        ex = fd.get_client(cid).raw_examples
        for k in list(ex):
          v = ex[k]
          if isinstance(v, np.ndarray) and v.flags.writeable and v.size and v.dtype.kind in 'iuf':
            v[...] = 1
        if ex:
          ex.pop(next(iter(ex)))
        ex['__added_by_consumer__'] = np.zeros((by_id[cid]['n'],), np.int8)
        compare(client_expected(by_id[cid]),
                describe(dict(fd.get_client(cid).raw_examples)),
                ['get_client_after_consumer_edit', repr(cid)], notes)
      if ids:
        fd2 = sqlite_federated_data.SQLiteFederatedData.new(path)
        try:
          compare(client_expected(by_id[ids[0]]),
                  describe(dict(fd2.get_client(ids[0]).raw_examples)),
                  ['second_reader_after_consumer_edit', repr(ids[0])], notes)
        finally:
          fd2._connection.close()  # pylint: disable=protected-access
      if ids:
        k = len(ids)
        shuffled = list(itertools.islice(
            fd.shuffled_clients(buffer_size=case.get('buffer', 2), seed=0), k))
        require(sorted(cid for cid, _ in shuffled) == sorted(ids),
                'sqlite:shuffled_first_pass_ids')
        for cid, ds in shuffled:
          compare(client_expected(by_id[cid]), describe(dict(ds.raw_examples)),
                  ['shuffled_clients', repr(cid)], notes)
      missing = bytes.fromhex(case['missing'])
      if missing not in by_id:
        for name, fn in (('get_client', fd.get_client),
                         ('client_size', fd.client_size)):
          try:
            fn(missing)
          except Exception:  # pylint: disable=broad-except
            continue
          raise Violation('sqlite:missing_id_found',
                          f'{name}({missing!r}) returned a value')
    finally:
      fd._connection.close()  # pylint: disable=protected-access
  return sorted(set(notes))


def run_state(case):
  saves = case['saves']
  rounds = [s['round'] for s in saves]
  if rounds != sorted(rounds) or not saves or min(rounds) < 0 or max(rounds) >= 10**8:
    raise Discard('malformed case')
  notes = []
  with scratch_dir() as d:
    # (a) save_state / load_state of the first state
    first = build(saves[0]['state'])
    self_check_input(saves[0]['state'], first)
    path = os.path.join(d, 'state.pkl')
    serialization.save_state(first, path)
    compare(expected(saves[0]['state']), describe(serialization.load_state(path)),
            ['load_state'], notes)
    # (a') device arrays keep what jax knows about them: a Python-scalar-born
    # (weakly typed) array such as a learning rate or a step count restores as
    # weakly typed, so arithmetic with lower-precision parameters keeps its dtype
    r0 = saves[0]['round']
    jstate = {'lr': jnp.asarray(0.125), 'count': jnp.asarray(r0 % 1000),
              'half': jnp.full((2,), 1.5, jnp.float16), 'strong': jnp.float32(0.125) * jnp.ones(())}
    jpath = os.path.join(d, 'jstate.pkl')
    serialization.save_state(jstate, jpath)
    jback = serialization.load_state(jpath)
    require(isinstance(jback, dict) and sorted(jback) == sorted(jstate), 'state:jax_leaves:structure',
            lambda: f'{type(jback).__name__}')
    for k in sorted(jstate):
      a, b = jstate[k], jback[k]
      require(np.asarray(b).dtype == np.asarray(a).dtype and
              np.array_equal(np.asarray(a), np.asarray(b)), 'state:jax_leaves:value_or_dtype',
              lambda: f'{k}: {np.asarray(a).dtype} {np.asarray(a).tolist()} -> '
                      f'{np.asarray(b).dtype} {np.asarray(b).tolist()}')
      require(getattr(b, 'weak_type', None) == getattr(a, 'weak_type', None),
              'state:jax_leaves:weak_type_changed',
              lambda: f'{k}: weak_type {getattr(a, "weak_type", None)} -> '
                      f'{getattr(b, "weak_type", None)} ({type(b).__name__})')
    require((jback['half'] * jback['lr']).dtype == (jstate['half'] * jstate['lr']).dtype,
            'state:jax_leaves:arithmetic_dtype_changed',
            lambda: f'{(jstate["half"] * jstate["lr"]).dtype} -> {(jback["half"] * jback["lr"]).dtype}')
    # (b) checkpoints
    root = os.path.join(d, case.get('dirname', 'ckpt'))
    os.makedirs(root)
    require(checkpoint.load_latest_checkpoint(root) is None,
            'checkpoint:loaded_from_empty_dir')
    model = {}   # round -> state spec of the checkpoints that must be on disk
    for s in saves:
      if s.get('fail'):
        # A save that dies half-way through pickling (a leaf that cannot be
        # pickled, reached after the rest of the tree was written): it must
        # raise and must not cost any checkpoint that was saved before --
        # in particular not the one of the same round when a round is re-saved.
        doomed = {'a_state': build(s['state']), 'z_unpicklable': _Unpicklable()}
        try:
          checkpoint.save_checkpoint(root, doomed, s['round'], s['keep'])
        except _PickleRefused:
          pass
        else:
          raise Violation('checkpoint:unpicklable_state_saved_silently',
                          f'round {s["round"]}')
        notes.append('failed_save')
        if s['round'] in model:
          notes.append('failed_resave_of_existing_round')
        latest = checkpoint.load_latest_checkpoint(root)
        if not model:
          require(latest is None, 'checkpoint:loaded_after_only_failed_saves',
                  lambda: f'{os.listdir(root)}')
          continue
        want_round = max(model)
        require(latest is not None, 'checkpoint:earlier_checkpoint_lost_by_failed_save',
                lambda: f'failed save of round {s["round"]}; saved before: '
                        f'{sorted(model)}; directory {sorted(os.listdir(root))}')
        state, round_num = latest
        require(round_num == want_round, 'checkpoint:earlier_checkpoint_lost_by_failed_save',
                lambda: f'failed save of round {s["round"]}: latest is round {round_num}, '
                        f'saved before: {sorted(model)}; directory {sorted(os.listdir(root))}')
        compare(expected(model[want_round]), describe(state),
                ['load_latest_checkpoint', 'after_failed_save'], notes)
        continue
      checkpoint.save_checkpoint(root, build(s['state']), s['round'], s['keep'])
      model[s['round']] = s['state']
      for old in sorted(model)[:-s['keep']]:
        del model[old]
      latest = checkpoint.load_latest_checkpoint(root)
      require(latest is not None, 'checkpoint:nothing_to_load',
              lambda: f'after save of round {s["round"]}: {os.listdir(root)}')
      state, round_num = latest
      require(type(round_num) is int and round_num == s['round'],
              'checkpoint:round_num', lambda: f'{round_num!r} vs {s["round"]}')
      compare(expected(s['state']), describe(state),
              ['load_latest_checkpoint'], notes)
  return sorted(set(notes))


class _PickleRefused(Exception):
  pass


class _Unpicklable:

  def __reduce__(self):
    raise _PickleRefused('this leaf cannot be pickled')


# -------------------------------------------------------------- strategies


def _float_specials(name):
  bits, ebits = FLOAT_FMT[name]
  mbits = bits - 1 - ebits
  sign = 1 << (bits - 1)
  emax = ((1 << ebits) - 1) << mbits
  one = ((1 << (ebits - 1)) - 1) << mbits
  return [0, one, sign, emax, sign | emax,         # 0, 1, -0, +-inf
          emax | (1 << (mbits - 1)),               # quiet NaN
          sign | emax | (1 << (mbits - 1)) | 1,
          emax | 1,                                # signalling NaN, low payload
          sign | one, one + 1,                     # -1, 1+ulp
          emax - 1, sign | (emax - 1),             # +-max finite
          1 << mbits]                              # min normal


def _flush(name, b):
  """Subnormal bit pattern -> signed zero (construct, never filter)."""
  bits, ebits = FLOAT_FMT[name]
  mbits = bits - 1 - ebits
  if (b >> mbits) & ((1 << ebits) - 1) == 0:
    return b & (1 << (bits - 1))
  return b


def _int_specials(name):
  info = np.iinfo(name)
  lo, hi = int(info.min), int(info.max)
  span = hi - lo + 1
  return [((v - lo) % span) + lo
          for v in [0, 1, -1, 2, lo, hi, hi - 1, lo + 1, 127, 128, 255, 256, -128, -129]]


SPECIALS = {n: _float_specials(n) for n in FLOAT_FMT}
SPECIALS.update({n: _int_specials(n) for n in INT_DTYPES})


def _width(name):
  if name == 'bool':
    return 1
  if name in COMPLEX_PART:
    return FLOAT_FMT[COMPLEX_PART[name]][0] // 8
  return np_dtype(name).itemsize


def _decode_scalar(name, chunk):
  """One element value from 1 selector byte + itemsize payload bytes."""
  sel, raw = chunk[0], int.from_bytes(chunk[1:], 'little')
  if name == 'bool':
    return raw & 1
  sp = SPECIALS[name]
  if sel < 96:
    return sp[sel % len(sp)]
  if name in INT_DTYPES:
    info = np.iinfo(name)
    lo, hi = int(info.min), int(info.max)
    return ((raw - lo) % (hi - lo + 1)) + lo
  return _flush(name, raw)


def _decode_vals(name, blob):
  part = COMPLEX_PART.get(name)
  w = 1 + _width(name)
  if part:
    return [[_decode_scalar(part, blob[i:i + w]),
             _decode_scalar(part, blob[i + w:i + 2 * w])]
            for i in range(0, len(blob) - 2 * w + 1, 2 * w)]
  return [_decode_scalar(name, blob[i:i + w])
          for i in range(0, len(blob) - w + 1, w)]


def _vals(name, max_elems=8):
  """All element values of a leaf from one binary draw (cheap to generate)."""
  w = (1 + _width(name)) * (2 if name in COMPLEX_PART else 1)
  return st.binary(min_size=w, max_size=max_elems * w).map(
      lambda blob: _decode_vals(name, blob))


VALS = {n: _vals(n) for n in DTYPES}
ONE_VAL = {n: _vals(n, 1) for n in DTYPES}

HEX_SPECIALS = ['', '00', '61', '0061', '610062', 'ff', 'c3a9', '6162']


def _decode_items(blob):
  """A list of 1-7 hex strings (bytes elements) from one binary draw."""
  items, i = [], 0
  while i < len(blob) and len(items) < 7:
    b = blob[i]
    if b >= 192:
      items.append(HEX_SPECIALS[b % len(HEX_SPECIALS)])
      i += 1
    else:
      n = b % 5
      items.append(blob[i + 1:i + 1 + n].hex())
      i += 1 + n
  return items or ['']


HEX_LIST = st.binary(min_size=1, max_size=24).map(_decode_items)
HEX_ITEMS = st.one_of(st.sampled_from(HEX_SPECIALS),
                      st.binary(max_size=6).map(bytes.hex))


@st.composite
def arr_leaf(draw, shapes=None, dtypes=None, trail=False):
  name = draw(st.sampled_from(dtypes or DTYPES))
  spec = {'t': 'arr', 'dtype': name}
  if trail:
    spec['trail'] = draw(st.sampled_from([[], [], [2], [0], [2, 3], [1, 2, 2]]))
  else:
    spec['shape'] = draw(st.sampled_from(shapes or SHAPES))
  spec['layout'] = draw(st.sampled_from(LAYOUTS))
  spec['order'] = draw(st.sampled_from(['native', 'swapped']))
  if spec['layout'] == 'broadcast':
    spec['baxis'] = draw(st.integers(0, 3))
  spec['vals'] = draw(VALS[name])
  return spec


@st.composite
def objarr_leaf(draw, trail=False):
  spec = {'t': 'objarr'}
  if trail:
    spec['trail'] = draw(st.sampled_from([[], [], [2], [0], [2, 2]]))
  else:
    spec['shape'] = draw(st.sampled_from(SHAPES))
  spec['layout'] = draw(st.sampled_from(LAYOUTS))
  if spec['layout'] == 'broadcast':
    spec['baxis'] = draw(st.integers(0, 3))
  spec['items'] = draw(HEX_LIST)
  return spec


@st.composite
def jaxarr_leaf(draw):
  name = draw(st.sampled_from(JAX_DTYPES))
  return {'t': 'jaxarr', 'dtype': name,
          'shape': draw(st.sampled_from(SHAPES)),
          'vals': draw(VALS[name])}


@st.composite
def npscalar_leaf(draw):
  name = draw(st.sampled_from(DTYPES))
  return {'t': 'npscalar', 'dtype': name, 'vals': draw(ONE_VAL[name])}


F64 = ONE_VAL['float64'].map(lambda v: v[0])
PY_LEAF = st.one_of(
    st.one_of(st.integers(-2**63, 2**64 - 1), st.integers(-130, 130),
              st.sampled_from([-2**63, 2**63 - 1, 2**63, 2**64 - 1, -2**31 - 1,
                               2**32, 0, -1, -32, -33, 127, 128, 255, 256])
              ).map(lambda v: {'t': 'py', 'type': 'int', 'v': v}),
    F64.map(lambda b: {'t': 'py', 'type': 'float', 'bits': b}),
    st.tuples(F64, F64).map(
        lambda p: {'t': 'py', 'type': 'complex', 'bits': list(p)}),
    st.booleans().map(lambda b: {'t': 'py', 'type': 'bool', 'v': b}),
    st.just({'t': 'py', 'type': 'none'}),
    st.binary(max_size=5).map(
        lambda b: {'t': 'py', 'type': 'bytes', 'v': b.hex()}),
    st.text(max_size=4).map(lambda s: {'t': 'py', 'type': 'str', 'v': s}))

KEY = st.one_of(
    st.sampled_from(['', 'x', 'y', 'w', 'b', 'linear', 'a/b']).map(
        lambda s: {'k': 'str', 'v': s}),
    st.text(max_size=3).map(lambda s: {'k': 'str', 'v': s}),
    st.sampled_from(['', '61', '00', 'ff00']).map(lambda h: {'k': 'bytes', 'v': h}),
    st.binary(max_size=3).map(lambda b: {'k': 'bytes', 'v': b.hex()}))


def _dict_of(children, max_size=4, keys=KEY):
  return st.lists(st.tuples(keys, children).map(list), max_size=max_size,
                  unique_by=lambda kv: (kv[0]['k'], kv[0]['v'])).map(
                      lambda items: {'t': 'dict', 'items': items})


def _list_of(children, max_size=4):
  return st.lists(children, max_size=max_size).map(
      lambda items: {'t': 'list', 'items': items})


def good_leaf():
  return st.one_of(arr_leaf(), arr_leaf(), arr_leaf(), objarr_leaf(),
                   jaxarr_leaf(), npscalar_leaf(), PY_LEAF)


def good_tree(tier, leaf=None):
  return st.recursive(
      leaf if leaf is not None else good_leaf(),
      lambda ch: st.one_of(_list_of(ch), _dict_of(ch)),
      max_leaves=8 if tier == 'quick' else 14)


def msgpack_cases(tier):
  return st.fixed_dictionaries({'tree': good_tree(tier),
                                'twice': st.booleans(),
                                'bad_blob_first': st.sampled_from(
                                    [None, None, None, 'cut', 'tail', 'head'])})


# --- negative class

BAD_ELEM = st.one_of(
    st.sampled_from(['c', '', 'ab']).map(lambda s: {'s': s}),
    st.text(max_size=3).map(lambda s: {'s': s}),
    st.integers(-3, 300).map(lambda i: {'i': i}),
    st.sampled_from([0.5, 1.0, -2.25]).map(lambda f: {'f': f}),
    st.just({'n': 0}),
    st.lists(st.sampled_from(['61', '']), max_size=2).map(lambda t: {'t': t}))


@st.composite
def objbad_leaf(draw):
  shape = draw(st.sampled_from([[1], [2], [3], [5], [2, 2], [2, 3], [1, 4], []]))
  size = int(np.prod(shape, dtype=np.int64))
  items = draw(st.lists(HEX_ITEMS, min_size=size, max_size=size))
  nbad = draw(st.integers(1, max(1, min(2, size))))
  # two thirds of the time element 0 stays bytes (the class a first-element-only
  # type check lets through)
  lo = 1 if size >= 2 and draw(st.sampled_from([True, True, False])) else 0
  for _ in range(nbad):
    pos = draw(st.integers(lo, size - 1))
    items[pos] = draw(BAD_ELEM)
  # no broadcast layout here: it would replicate one element and could drop
  # the planted non-bytes one
  return {'t': 'objbad', 'shape': shape, 'items': items,
          'layout': draw(st.sampled_from(LAYOUTS[:4]))}


STRUCT_FIELDS = ['int8', 'int16', 'int32', 'int64', 'uint8', 'float32',
                 'float64', 'bool', 'complex64']
SMALL_SHAPES = [[], [0], [1], [3], [2, 2]]


@st.composite
def bad_leaf(draw, good):
  kind = draw(st.sampled_from(
      ['tuple', 'tuple', 'objbad', 'objbad', 'objbad', 'strarr', 'strarr',
       'structarr', 'structarr', 'timearr']))
  if kind == 'tuple':
    return {'t': 'tuple', 'items': draw(st.lists(good, max_size=3))}
  if kind == 'objbad':
    return draw(objbad_leaf())
  if kind == 'strarr':
    k = draw(st.sampled_from(['S', 'U', 'V']))
    item = (st.text(alphabet='abé0 ', max_size=4) if k == 'U' else
            st.binary(max_size=3).map(bytes.hex))
    return {'t': 'strarr', 'kind': k, 'shape': draw(st.sampled_from(SMALL_SHAPES)),
            'items': draw(st.lists(item, min_size=1, max_size=4))}
  if kind == 'structarr':
    return {'t': 'structarr',
            'fields': draw(st.lists(st.sampled_from(STRUCT_FIELDS), min_size=1,
                                    max_size=3)),
            'aligned': draw(st.booleans()),
            'order': draw(st.sampled_from(['native', 'swapped'])),
            'shape': draw(st.sampled_from(SMALL_SHAPES)),
            'vals': draw(st.lists(st.integers(0, 99), min_size=1, max_size=4))}
  return {'t': 'timearr',
          'dtype': draw(st.sampled_from(['M8[ns]', 'M8[D]', 'm8[s]', 'm8[us]'])),
          'order': draw(st.sampled_from(['native', 'swapped'])),
          'shape': draw(st.sampled_from(SMALL_SHAPES)),
          'vals': draw(st.lists(st.integers(-10**6, 10**12), min_size=1,
                                max_size=4))}


@st.composite
def reject_cases(draw, tier):
  good = good_leaf()
  bad = bad_leaf(good)
  # a tree in which every path may hold a planted leaf; at least one is forced
  tree = draw(st.recursive(
      st.one_of(bad, bad, good),
      lambda ch: st.one_of(_list_of(ch, 3), _dict_of(ch, 3)),
      max_leaves=5 if tier == 'quick' else 9))
  if not any(n['t'] in BAD_KINDS for n in walk(tree)):
    tree = {'t': 'list', 'items': [tree, draw(bad)]}
  return {'tree': tree}


BAD_KINDS = ('tuple', 'objbad', 'strarr', 'structarr', 'timearr')

# --- sqlite


@st.composite
def sqlite_cases(draw, tier):
  nmax = 5 if tier == 'quick' else 9
  ids = draw(st.lists(
      st.one_of(st.sampled_from(['', '00', '61', '6100', '30303031', 'ff']),
                st.binary(max_size=5).map(bytes.hex)),
      max_size=nmax, unique=True))
  clients = []
  for cid in ids:
    n = draw(st.sampled_from([0, 1, 1, 2, 3, 4]))
    names = draw(st.lists(st.one_of(st.sampled_from(['x', 'y', '', 'pixels']),
                                    st.text(max_size=3)),
                          min_size=1, max_size=3, unique=True))
    feats = [{'name': nm,
              'leaf': draw(st.one_of(arr_leaf(trail=True), arr_leaf(trail=True),
                                     objarr_leaf(trail=True)))}
             for nm in names]
    clients.append({'id': cid, 'n': n, 'features': feats})
  chunks = draw(st.lists(st.integers(0, 3), max_size=3))
  missing = draw(st.one_of(st.sampled_from(['78787878', '', '00']),
                           st.binary(max_size=5).map(bytes.hex)))
  return {'clients': clients, 'chunks': chunks, 'missing': missing,
          'as_iterator': draw(st.sampled_from([False, True, 'scratch'])), 'buffer': draw(st.integers(1, 4)),
          'peek': draw(st.sampled_from([False, True, 'kept'])), 'stale_file': draw(st.integers(0, 3)) == 0}


# --- pickled states


def state_leaf():
  small = [[], [0], [1], [3], [2, 3], [3, 2], [2, 1, 2]]
  num = ['float32', 'float32', 'float64', 'bfloat16', 'float16', 'int32',
         'int64', 'uint32', 'uint8', 'bool', 'complex64']
  return st.one_of(
      arr_leaf(shapes=small, dtypes=num), arr_leaf(shapes=small),
      arr_leaf(shapes=small), jaxarr_leaf(), jaxarr_leaf(), objarr_leaf(), npscalar_leaf(), PY_LEAF)


def _node(t, n):
  return lambda ch: st.lists(ch, min_size=n, max_size=n).map(
      lambda items: {'t': t, 'items': items})


def state_tree(tier):
  str_key = st.sampled_from(['w', 'b', 'linear', 'conv', 'x', '']).map(
      lambda s: {'k': 'str', 'v': s})
  bytes_key = st.binary(max_size=3).map(lambda b: {'k': 'bytes', 'v': b.hex()})

  def extend(ch):
    return st.one_of(
        _dict_of(ch, 3, str_key), _dict_of(ch, 3, bytes_key), _list_of(ch, 3),
        st.lists(ch, max_size=3).map(lambda it: {'t': 'tuple', 'items': it}),
        _node('fedavg', 2)(ch), _node('agnostic', 4)(ch),
        _node('hypcluster', 2)(ch), _node('localdc', 2)(ch),
        _node('adam', 3)(ch), _node('trace', 1)(ch), _node('rss', 1)(ch),
        st.just({'t': 'empty', 'items': []}))

  generic = st.recursive(state_leaf(), extend,
                         max_leaves=6 if tier == 'quick' else 12)

  # the shape fed_avg / mime produce: ServerState(haiku-like params, optax chain)
  arr32 = arr_leaf(shapes=[[3], [2, 3], []], dtypes=['float32'])
  leafy = st.one_of(arr32, jaxarr_leaf())
  params = _dict_of(_dict_of(leafy, 2, str_key), 2, str_key)
  count = st.integers(0, 1000).map(
      lambda c: {'t': 'jaxarr', 'dtype': 'int32', 'shape': [], 'vals': [c]})
  adam = st.tuples(count, params, params).map(
      lambda p: {'t': 'adam', 'items': list(p)})
  trace = params.map(lambda p: {'t': 'trace', 'items': [p]})
  empty = st.just({'t': 'empty', 'items': []})
  opt = st.lists(st.one_of(adam, trace, empty), min_size=1, max_size=3).map(
      lambda it: {'t': 'tuple', 'items': it})
  fedavg = st.tuples(params, opt).map(
      lambda p: {'t': 'fedavg', 'items': list(p)})
  agnostic = st.tuples(params, opt, leafy, _list_of(leafy, 3)).map(
      lambda p: {'t': 'agnostic', 'items': list(p)})
  hyp = st.tuples(_list_of(params, 2), _list_of(opt, 2)).map(
      lambda p: {'t': 'hypcluster', 'items': list(p)})
  per_client = _dict_of(st.tuples(leafy, PY_LEAF).map(
      lambda p: {'t': 'localdc', 'items': list(p)}), 3, bytes_key)
  return st.one_of(generic, generic, fedavg, agnostic, hyp, per_client)


@st.composite
def state_cases(draw, tier):
  tree = state_tree(tier)
  n = draw(st.sampled_from([1, 1, 2, 3, 4]))
  rounds = sorted(draw(st.lists(
      st.one_of(st.integers(0, 12), st.integers(0, 3), st.integers(0, 10**8 - 1),
                st.sampled_from([0, 9, 10, 99999999, 10**7])),
      min_size=n, max_size=n)))
  saves = [{'round': r, 'keep': draw(st.integers(1, 3)),
            'state': draw(tree)} for r in rounds]
  # some saves (never the first) die half-way through pickling
  for sv in saves[1:]:
    if draw(st.integers(0, 3)) == 0:
      sv['fail'] = True
  return {'saves': saves,
          'dirname': draw(st.sampled_from(
              ['ckpt', 'ckpt', 'exp.1', 'a+b', 'sweep[lr=0.1]', 'run(2)', 'x^y$',
               'q?*', 'sp ace', 'checkpoint_00000007']))}


# ------------------------------------------------------------------ labels


def walk(node, depth=0):
  node = dict(node, _depth=depth)
  yield node
  for c in node.get('items', []) if node['t'] not in (
      'objarr', 'objbad', 'strarr') else []:
    yield from walk(c[1] if node['t'] == 'dict' else c, depth + 1)


def leaf_labels(n):
  t = n['t']
  ls = []
  if t in ('arr', 'jaxarr', 'objarr', 'objbad'):
    shape = n.get('shape')
    if shape is None:
      shape = [2] + n['trail']
    size = int(np.prod(shape, dtype=np.int64))
    ls.append('dtype:' + n.get('dtype', 'object'))
    ls.append('shape:0d' if not shape else 'shape:empty' if size == 0 else
              f'shape:rank{min(len(shape), 3)}{"+" if len(shape) >= 3 else ""}')
    if t == 'jaxarr':
      ls.append('leaf:jax_array')
    else:
      arr = build_arr(dict(n, shape=shape))
      ls.append('layout:' + n.get('layout', 'C'))
      if not arr.flags.c_contiguous:
        ls.append('non_contiguous')
      if not arr.dtype.isnative and arr.dtype != BF16:
        ls.append('byte_swapped')
    if t == 'objarr':
      ls.append('leaf:bytes_object_array')
      if any(i == '' for i in n['items']):
        ls.append('bytes:empty_string')
    if t == 'objbad':
      first_bad = next(i for i, it in enumerate(n['items']) if not isinstance(it, str))
      ls.append('bad:object_array_nonbytes_' + ('first' if first_bad == 0 else 'later'))
  elif t == 'npscalar':
    ls += ['leaf:numpy_scalar', 'scalar_dtype:' + n['dtype']]
  elif t == 'py':
    ls.append('leaf:python_' + n['type'])
  elif t == 'tuple':
    ls.append('node:tuple')
  elif t == 'strarr':
    ls.append('bad:string_array_' + n['kind'])
  elif t == 'structarr':
    ls.append('bad:structured_' + ('aligned' if n['aligned'] else 'unaligned'))
  elif t == 'timearr':
    ls.append('bad:datetime_or_timedelta')
  elif t in DATACLASSES or t in NAMEDTUPLES:
    ls.append('node:' + t)
  elif t == 'dict':
    if any(k['k'] == 'bytes' for k, _ in n['items']):
      ls.append('dict:bytes_keys')
    if not n['items']:
      ls.append('container:empty')
  elif t == 'list' and not n['items']:
    ls.append('container:empty')
  return ls


def tree_labels(tree):
  """(labels, nesting depth); depth 0 = a bare leaf, 1 = a flat container."""
  ls = set()
  depth = 0
  for n in walk(tree):
    ls.update(leaf_labels(n))
    depth = max(depth, n['_depth'])
  ls.add(f'depth:{min(depth, 4)}{"+" if depth >= 4 else ""}')
  return ls, depth


INTERESTING = ('non_contiguous', 'byte_swapped', 'shape:0d', 'shape:empty',
               'leaf:bytes_object_array')


def msgpack_labels(case):
  ls, _ = tree_labels(case['tree'])
  return sorted(ls)


def msgpack_nontrivial(case, ls):
  _, depth = tree_labels(case['tree'])
  return depth >= 2 or any(l in ls for l in INTERESTING)


def reject_labels(case):
  ls, _ = tree_labels(case['tree'])
  if case['tree']['t'] == 'tuple':
    ls.add('bad:tuple_at_root')
  if 'node:tuple' in ls:
    ls.add('bad:tuple')
  return sorted(ls)


def reject_nontrivial(case, ls):
  return any(l.startswith('bad:') for l in ls)


def sqlite_labels(case):
  ls = set()
  n = len(case['clients'])
  ls.add(f'clients:{n}')
  for c in case['clients']:
    ls.add('examples:0' if c['n'] == 0 else 'examples:>0')
    if c['id'] == '':
      ls.add('id:empty')
    if '00' in [c['id'][i:i + 2] for i in range(0, len(c['id']), 2)]:
      ls.add('id:contains_nul')
    for f in c['features']:
      ls.update(leaf_labels(dict(f['leaf'], shape=[c['n']] + f['leaf']['trail'])))
  if sum(case['chunks']) < n:
    ls.add('add_many:tail_call')
  if len([s for s in case['chunks'] if s]) > 1:
    ls.add('add_many:several_calls')
  if case.get('peek') == 'kept':
    ls.add('one_reader_follows_the_build')
  return sorted(ls)


def sqlite_nontrivial(case, ls):
  return len(case['clients']) >= 2 or any(l in ls for l in INTERESTING)


def state_labels(case):
  ls = set()
  depth = 0
  for s in case['saves']:
    l, d = tree_labels(s['state'])
    ls.update(x for x in l if not x.startswith('depth:'))
    depth = max(depth, d)
  ls.add(f'depth:{min(depth, 4)}{"+" if depth >= 4 else ""}')
  ls.add(f'saves:{len(case["saves"])}')
  rounds = [s['round'] for s in case['saves']]
  if len(set(rounds)) < len(rounds):
    ls.add('round_overwritten')
  if any(s['keep'] > 1 for s in case['saves']):
    ls.add('keep>1')
  return sorted(ls)


def state_nontrivial(case, ls):
  return any(l.startswith('node:') and l != 'node:tuple' for l in ls) or not (
      'depth:0' in ls or 'depth:1' in ls)


CHECKS = [
    Check(name='msgpack_roundtrip', run=run_msgpack, strategy=msgpack_cases,
          labels=msgpack_labels, nontrivial=msgpack_nontrivial,
          budget={'quick': 12000, 'thorough': 240000}, time_share=3.0,
          doc='msgpack_deserialize(msgpack_serialize(tree)) has the same '
              'containers and, per leaf, the same kind, dtype name, shape and '
              'bit-identical values'),
    Check(name='reject_or_equal', run=run_reject,
          strategy=lambda tier: reject_cases(tier),
          labels=reject_labels, nontrivial=reject_nontrivial,
          budget={'quick': 6000, 'thorough': 120000}, time_share=2.0,
          doc='trees with a planted unsupported leaf: serialize or deserialize '
              'raises, or the result is equal -- never a different value'),
    Check(name='sqlite_roundtrip', run=run_sqlite,
          strategy=lambda tier: sqlite_cases(tier),
          labels=sqlite_labels, nontrivial=sqlite_nontrivial,
          budget={'quick': 2400, 'thorough': 40000}, time_share=2.0,
          doc='SQLiteFederatedData over a file written by '
              'SQLiteFederatedDataBuilder: ids, sizes, examples through '
              'clients/get_client/get_clients/shuffled_clients'),
    Check(name='state_roundtrip', run=run_state,
          strategy=lambda tier: state_cases(tier),
          labels=state_labels, nontrivial=state_nontrivial,
          budget={'quick': 1600, 'thorough': 30000}, time_share=3.0,
          doc='load_state(save_state(x)) and load_latest_checkpoint after '
              'save_checkpoint return the saved pytree (structure + leaves) '
              'and round number'),
]
