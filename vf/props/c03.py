"""C03 -- Sequential batching is an exact, order-preserving partition.

Generated domain: (N, batch_size, buckets, drop_remainder, feature dtypes and
trailing shapes, chain of per-example batch preprocessors).
Oracle: numpy partition model, checked in both directions.
"""
import hashlib

import numpy as np
from hypothesis import strategies as st

import fedjax
from fedjax.core import client_datasets as cds

from vf.core import Check, require

PROPERTY_ID = 'C03'
NEEDS_TF = False
FUZZ_CHECKS = ['plain_batch', 'padded_batch']
FUZZ_INSTRUMENT = ['fedjax.core.client_datasets']
FUZZ_RUNS = {'quick': 3000, 'thorough': 300000}
LEVEL = 'exploration'
RULE = ('Hypothesis draws (N in 0..70, batch_size in 1..40 biased to N-1/N/N+1/'
        'divisors/powers of two, buckets 1..8, drop_remainder, 1-3 features of '
        'mixed dtype and trailing shape, 0-3 per-example preprocessors); the '
        'final-bucket rule is additionally enumerated exhaustively over '
        '(remainder, batch_size, buckets). A case is non-trivial when N>0 and '
        '(N mod B != 0 or B>N or (buckets>1 and B is not a power of two)); '
        'distinct = distinct canonical case JSON.')
RULE += (
    ' '
    'Later widenings: datasets sliced from a parent that was in use; column-major features; a'
    ' quarter of the views start with an abandoned pass; preprocessor chains handed over as a'
    ' generator or as a list emptied afterwards; hparams built positionally; a third of the c'
    'ases edit the batches of an earlier pass before the next one.')
ASSUMPTIONS = [
    'batch preprocessors are deterministic and strictly per-example, as '
    'BatchPreprocessor documents',
    'object-dtype features hold bytes; their padding value 0 is compared with ==',
]

MASK = fedjax.EXAMPLE_MASK_KEY

DTYPES = ['int8', 'uint8', 'int32', 'int64', 'float16', 'float32', 'float64',
          'bool', 'object', 'complex64', '>i4', '>f8', 'S5', 'U3',
          'datetime64[D]']
TRAILS = [[], [2], [0], [2, 3]]
PREPS = ['derive', 'cast', 'drop', 'scale', 'inplace', 'pair_T']


def make_feature(n, dtype, trail, salt):
  """Row i encodes i (and is never all-zero for numeric dtypes when possible)."""
  shape = (n,) + tuple(trail)
  size = int(np.prod(shape[1:])) if trail else 1
  base = np.arange(n).reshape((n,) + (1,) * len(trail))
  if dtype == 'object':
    flat = np.empty((n * max(size, 0),), dtype=object)
    for j in range(flat.shape[0]):
      flat[j] = b'r%d-%d-%d' % (j // max(size, 1), j % max(size, 1), salt)
    return flat.reshape(shape)
  if dtype == 'bool':
    return np.broadcast_to(base % 2 == 0, shape).copy()
  if dtype in ('int8', 'uint8'):
    return np.broadcast_to((base % 100) + 1 + salt, shape).astype(dtype)
  if dtype in ('S5', 'U3'):
    # fixed-width strings: never empty, so that padding ('' / b'') is distinguishable
    width = 5 if dtype == 'S5' else 3
    flat = np.empty((n * max(size, 0),), dtype=dtype)
    for j in range(flat.shape[0]):
      txt = ('%c%d' % (97 + (j + salt) % 26, j))[:width]
      flat[j] = txt.encode() if dtype == 'S5' else txt
    return flat.reshape(shape)
  if dtype == 'datetime64[D]':
    return (np.broadcast_to(base + 1 + salt, shape).astype('int64')).astype(dtype)
  offs = np.arange(size).reshape((1,) + tuple(trail)) if trail else 0
  return (np.broadcast_to(base + 1, shape) * 4 + offs % 4 + salt).astype(dtype)


def build_raw(case):
  n = case['n']
  raw = {'id': np.arange(1, n + 1, dtype=np.int64)}
  for j, f in enumerate(case['features']):
    v = make_feature(n, f['dtype'], f['trail'], j)
    if case.get('layout') == 'F' and v.ndim >= 2:
      # column-major memory layout (what np.stack([...]).T, DataFrame.values or
      # np.asfortranarray give): the same logical rows
      v = np.asfortranarray(v)
    raw[f'f{j}'] = v
  return raw


def prep_fn(name):
  if name == 'derive':
    return lambda x: {**x, 'derived': x['id'] * 3 + 1}
  if name == 'pair_T':
    # a two-column feature built column by column: Fortran-contiguous
    return lambda x: {**x, 'pair': np.stack([x['id'], x['id'] * 2 + 1]).T}
  if name == 'cast':
    return lambda x: {**x, 'id_f': x['id'].astype(np.float32)}
  if name == 'drop':
    return lambda x: {k: v for k, v in x.items() if k != 'f1'}
  if name == 'inplace':
    # a preprocessing function that updates the dict it is given (the
    # BatchPreprocessor documents that it guards against exactly this)
    def inplace(x):
      x['id_twice'] = x['id'] * 2
      x['id'] = x['id'] + 0
      if 'f0' in x and x['f0'].dtype.kind in 'iuf':
        x['f0'] = x['f0'] + x['f0']
      return x
    return inplace
  if name == 'scale':
    def scale(x):
      out = dict(x)
      if 'f0' in out and out['f0'].dtype.kind in 'iuf':
        out['f0'] = out['f0'] * 2
      return out
    return scale
  raise ValueError(name)


def build_dataset(case):
  """Returns (raw examples handed to fedjax, the dataset, the effective rows).

  `slice`: the dataset under test is ds[start:stop:step] (the documented way to
  look at part of a client dataset); the effective rows are computed by plain
  numpy slicing.  `warm`: every intermediate preprocessor of the chain is used
  once before the next function is appended (append() must return a NEW
  preprocessor that applies the whole chain, whatever was called before).
  """
  raw = build_raw(case)
  given = case.get('fns_given')
  if given and case['preps']:
    # the chain handed to the constructor in one go, as the Iterable its
    # signature asks for: a generator (one-shot), or a list the caller empties
    # afterwards; the last function is appended afterwards in half of the cases
    head = case['preps'] if given.endswith('all') else case['preps'][:-1]
    fns = [prep_fn(p) for p in head]
    prep = cds.BatchPreprocessor((f for f in list(fns)) if given.startswith('gen') else fns)
    if given.startswith('list'):
      fns.clear()
    if case.get('warm') and case['n'] > 0:
      prep({k: v[:1] for k, v in raw.items()})
    if not given.endswith('all'):
      prep = prep.append(prep_fn(case['preps'][-1]))
  else:
    prep = cds.BatchPreprocessor()
    for p in case['preps']:
      prep = prep.append(prep_fn(p))
      if case.get('warm') and case['n'] > 0:
        prep({k: v[:1] for k, v in raw.items()})
  ds = fedjax.ClientDataset(raw, prep)
  eff = raw
  if case.get('slice'):
    sl = slice(*case['slice'])
    if case.get('parent_used_first'):
      # the parent dataset was in use before it is sliced: its size was asked
      # for and a batch was drawn from it
      len(ds)
      next(iter(ds.batch(batch_size=2)), None)
    ds = ds[sl]
    eff = {k: v[sl] for k, v in raw.items()}
  return raw, ds, eff


def reference_rows(case, raw):
  """Preprocess *all rows at once* with plain function application."""
  out = dict(raw)
  for p in case['preps']:
    out = prep_fn(p)(out)
  return out


def raw_digest(raw):
  h = hashlib.sha1()
  for k in sorted(raw):
    v = raw[k]
    h.update(k.encode())
    h.update(str(v.dtype).encode() + str(v.shape).encode())
    h.update(repr(v.tolist()).encode() if v.dtype == object or v.dtype.kind in 'SUM' else v.tobytes())
  return h.hexdigest()


def same_array(a, b):
  if a.dtype != b.dtype or a.shape != b.shape:
    return False
  if a.dtype == object or a.dtype.kind in 'SUM':
    return a.tolist() == b.tolist()
  return a.tobytes() == np.ascontiguousarray(b).tobytes() or bool(
      np.array_equal(a, b, equal_nan=a.dtype.kind in 'fc'))


def ref_final_size(r, b, k):
  """min{ floor(B/2^j) : 0<=j<K, floor(B/2^j) >= r } computed independently."""
  cands = [b >> j for j in range(k) if (b >> j) >= r]
  return min(cands)


def check_partition(case, batches, ref, padded):
  b = case['batch_size']
  feats = set(ref)
  pos = 0
  nb = len(batches)
  for bi, batch in enumerate(batches):
    keys = set(batch)
    if padded:
      require(MASK in keys, 'padded:mask_missing', f'batch {bi}')
      mask = batch[MASK]
      keys = keys - {MASK}
      size = mask.shape[0]
      real = int(mask.sum())
      require(mask.dtype == np.bool_ and mask.ndim == 1, 'padded:mask_type',
              f'{mask.dtype} {mask.shape}')
      require(bool(np.array_equal(mask, np.arange(size) < real)),
              'padded:mask_not_prefix', f'batch {bi} mask {mask.tolist()}')
    else:
      size = len(next(iter(batch.values()))) if batch else 0
      real = size
    require(keys == feats, 'features_differ', f'{sorted(keys)} vs {sorted(feats)}')
    last = bi == nb - 1
    if not last:
      require(real == b and size == b, 'non_final_batch_not_full',
              f'batch {bi}: size {size}, real {real}, batch_size {b}')
    else:
      require(1 <= real <= b, 'final_batch_real_rows', f'real {real} batch_size {b}')
    for k in feats:
      v = batch[k]
      want = ref[k][pos:pos + real]
      require(v.shape[0] == size, 'inconsistent_rows', f'{k}: {v.shape} vs {size}')
      require(v.dtype == ref[k].dtype and v.shape[1:] == ref[k].shape[1:],
              'dtype_or_trailing_shape_changed',
              f'{k}: {v.dtype}{v.shape} vs {ref[k].dtype}{ref[k].shape}')
      require(same_array(np.asarray(v[:real]), want), 'rows_differ',
              f'batch {bi} feature {k}: got {v[:real].tolist()} want {want.tolist()}')
      if padded and size > real:
        pad = v[real:]
        zero = np.zeros(pad.shape, pad.dtype)
        require(same_array(pad, zero), 'padding_not_zero',
                f'batch {bi} feature {k}: {pad.tolist()}')
    pos += real
  return pos


def run_plain(case):
  raw, ds, eff = build_dataset(case)
  before = raw_digest(raw)
  ref = reference_rows(case, eff)
  n, b, drop = len(eff['id']), case['batch_size'], case['drop_remainder']
  require(len(ds) == n, 'dataset_len', f'{len(ds)} vs {n}')
  if case['call'] == 'kwargs':
    view = ds.batch(batch_size=b, drop_remainder=drop)
  elif case['call'] == 'override':
    # documented form: hparams object overridden by keyword arguments
    view = ds.batch(fedjax.BatchHParams(batch_size=b + 3, drop_remainder=not drop),
                    batch_size=b, drop_remainder=drop)
  elif case['call'] == 'positional':
    view = ds.batch(fedjax.BatchHParams(b, drop))
  else:
    view = ds.batch(fedjax.BatchHParams(batch_size=b, drop_remainder=drop))
  if case.get('abandoned_first'):
    # the view's first use is a pass that is given up after `abandoned_first`
    # batches (a peek at the first batch, a consumer that raised)
    it = iter(view)
    for _ in range(case['abandoned_first']):
      next(it, None)
    del it
  batches = list(view)
  want_rows = (n // b) * b if drop else n
  want_batches = n // b if drop else -(-n // b)
  require(len(batches) == want_batches, 'plain:batch_count',
          f'{len(batches)} vs {want_batches}')
  if drop:
    for bi, batch in enumerate(batches):
      require(len(batch['id']) == b, 'plain:drop_remainder_kept_partial', f'batch {bi}')
  got_rows = check_partition(case, batches, ref, padded=False)
  require(got_rows == want_rows, 'plain:rows_lost_or_invented', f'{got_rows} vs {want_rows}')
  again = list(view)
  require(len(again) == len(batches) and all(
      set(x) == set(y) and all(same_array(np.asarray(x[k]), np.asarray(y[k])) for k in x)
      for x, y in zip(batches, again)), 'second_iteration_differs')
  check_overlapping_passes(view, batches)
  check_consumer_edits(case, view, batches, raw)
  require(raw_digest(raw) == before and
          (case.get('slice') is not None or ds.raw_examples is raw) and
          raw_digest(ds.raw_examples) == raw_digest(eff), 'dataset_mutated')


def check_consumer_edits(case, view, batches, raw):
  """What a pass hands out is the consumer's: it may drop or add entries of a
  batch dict and overwrite arrays that are its own (fresh copies, e.g. the
  padded final batch -- not views of the dataset's arrays).  A later pass over
  the same view is unaffected."""
  if not case.get('consumer_edits') or not batches:
    return
  snap = [{f: np.array(v, copy=True) for f, v in bt.items()} for bt in batches]
  owners = [np.asarray(v) for v in raw.values()]
  for bt in batches:
    for f, v in list(bt.items()):
      if (isinstance(v, np.ndarray) and v.flags.writeable and v.size and v.dtype.kind in 'iufb'
          and not any(np.shares_memory(v, o) for o in owners)):
        v[...] = 1
    bt.pop(MASK, None)
    if bt:
      bt.pop(sorted(bt)[0])
    bt['__added_by_consumer__'] = 0
  later = list(view)
  require(len(later) == len(snap) and all(
      set(x) == set(y) and all(same_array(np.asarray(x[f]), np.asarray(y[f])) for f in x)
      for x, y in zip(snap, later)), 'pass_after_consumer_edited_earlier_batches_differs',
          lambda: f'{[sorted(b) for b in later][-1:]} vs {[sorted(b) for b in snap][-1:]}')


def check_overlapping_passes(view, batches):
  """Two passes over the same view that are alive at the same time: a pass
  started first and resumed after a complete second pass, and two passes
  advanced in lock-step, each yield the same batches as a pass on its own."""
  def same(xs, ys):
    return len(xs) == len(ys) and all(
        set(x) == set(y) and all(same_array(np.asarray(x[f]), np.asarray(y[f])) for f in x)
        for x, y in zip(xs, ys))
  it = iter(view)
  head = [next(it)] if batches else []
  middle = list(view)
  tail = list(it)
  require(same(middle, batches), 'overlapping_passes:inner_pass_differs',
          f'{len(middle)} vs {len(batches)} batches')
  require(same(head + tail, batches), 'overlapping_passes:outer_pass_disturbed',
          f'{len(head + tail)} vs {len(batches)} batches')
  pairs = list(zip(view, view))
  require(same([a for a, _ in pairs], batches) and same([b for _, b in pairs], batches),
          'overlapping_passes:lock_step_passes_differ', f'{len(pairs)} vs {len(batches)} pairs')


def run_padded(case):
  raw, ds, eff = build_dataset(case)
  before = raw_digest(raw)
  ref = reference_rows(case, eff)
  n, b, k = len(eff['id']), case['batch_size'], case['buckets']
  require(len(ds) == n, 'dataset_len', f'{len(ds)} vs {n}')
  if case['call'] == 'kwargs':
    view = ds.padded_batch(batch_size=b, num_batch_size_buckets=k)
  elif case['call'] == 'override':
    view = ds.padded_batch(fedjax.PaddedBatchHParams(batch_size=b + 1, num_batch_size_buckets=k + 2),
                           batch_size=b, num_batch_size_buckets=k)
  elif case['call'] == 'positional':
    view = ds.padded_batch(fedjax.PaddedBatchHParams(b, k))
  else:
    view = ds.padded_batch(fedjax.PaddedBatchHParams(batch_size=b, num_batch_size_buckets=k))
  if case.get('abandoned_first'):
    # the view's first use is a pass that is given up after `abandoned_first`
    # batches (a peek at the first batch, a consumer that raised)
    it = iter(view)
    for _ in range(case['abandoned_first']):
      next(it, None)
    del it
  batches = list(view)
  require(len(batches) == -(-n // b), 'padded:batch_count',
          f'{len(batches)} vs {-(-n // b)}')
  got_rows = check_partition(case, batches, ref, padded=True)
  require(got_rows == n, 'padded:rows_lost_or_invented', f'{got_rows} vs {n}')
  if batches:
    r = n - (len(batches) - 1) * b
    want = b if r == b else ref_final_size(r, b, k)
    got = batches[-1][MASK].shape[0]
    require(got == want, 'padded:final_batch_size', f'r={r} B={b} K={k}: {got} vs {want}')
  again = list(view)
  require(len(again) == len(batches) and all(
      set(x) == set(y) and all(same_array(np.asarray(x[f]), np.asarray(y[f])) for f in x)
      for x, y in zip(batches, again)), 'second_iteration_differs')
  check_overlapping_passes(view, batches)
  check_consumer_edits(case, view, batches, raw)
  require(raw_digest(raw) == before and
          (case.get('slice') is not None or ds.raw_examples is raw) and
          raw_digest(ds.raw_examples) == raw_digest(eff), 'dataset_mutated')


def run_final_size(case):
  r, b, k = case['r'], case['batch_size'], case['buckets']
  n = case['full'] * b + r
  ds = fedjax.ClientDataset({'id': np.arange(1, n + 1, dtype=np.int32)})
  batches = list(ds.padded_batch(batch_size=b, num_batch_size_buckets=k))
  require(len(batches) == case['full'] + 1, 'padded:batch_count')
  last = batches[-1]
  want = ref_final_size(r, b, k)
  require(last[MASK].shape[0] == want, 'padded:final_batch_size',
          f'r={r} B={b} K={k}: {last[MASK].shape[0]} vs {want}')
  require(int(last[MASK].sum()) == r and last['id'][:r].tolist() == list(range(n - r + 1, n + 1))
          and not last['id'][r:].any(), 'rows_differ')


# ---------------------------------------------------------------- strategies

@st.composite
def case_strategy(draw, tier, padded):
  nmax = 70 if tier == 'quick' else 150
  n = draw(st.integers(0, nmax) | st.sampled_from([0, 1, 2, 3, 8, 16, 32, 64]))
  divisors = [d for d in range(1, n + 1) if n % d == 0] or [1]
  b = draw(st.one_of(
      st.integers(1, 40),
      st.sampled_from(sorted({1, max(1, n - 1), max(1, n), n + 1, 2 * n + 1})),
      st.sampled_from(divisors),
      st.sampled_from([1, 2, 4, 8, 16, 32, 3, 5, 7, 12, 24, 33])))
  feats = draw(st.lists(
      st.fixed_dictionaries({'dtype': st.sampled_from(DTYPES),
                             'trail': st.sampled_from(TRAILS)}),
      min_size=0, max_size=2))
  preps = draw(st.lists(st.sampled_from(PREPS), min_size=0, max_size=3))
  case = {'n': n, 'batch_size': b, 'features': feats, 'preps': preps,
          'call': draw(st.sampled_from(['kwargs', 'hparams', 'override', 'positional']))}
  if draw(st.integers(0, 3)) == 0:
    bound = st.one_of(st.none(), st.integers(-n - 2, n + 2))
    step = draw(st.sampled_from([None, 1, 2, 3, -1, -2, 5]))
    case['slice'] = [draw(bound), draw(bound), step]
    case['parent_used_first'] = draw(st.booleans())
  if preps and draw(st.booleans()):
    case['warm'] = True
  if preps and draw(st.integers(0, 3)) == 0:
    case['fns_given'] = draw(st.sampled_from(['gen_all', 'gen_head', 'list_all', 'list_head']))
  if draw(st.integers(0, 2)) == 0:
    case['layout'] = 'F'
  if draw(st.integers(0, 3)) == 0:
    case['abandoned_first'] = draw(st.sampled_from([1, 1, 2, 3]))
  case['consumer_edits'] = draw(st.integers(0, 2)) == 0
  if padded:
    case['buckets'] = draw(st.integers(1, 8))
  else:
    case['drop_remainder'] = draw(st.booleans())
  return case


def _eff_n(case):
  n = case['n']
  return len(range(*slice(*case['slice']).indices(n))) if case.get('slice') else n


def labels(case):
  n, b = _eff_n(case), case['batch_size']
  ls = []
  if case.get('slice'):
    ls.append('sliced_dataset')
    if case['slice'][2] not in (None, 1):
      ls.append('slice_step!=1')
  if case.get('layout') == 'F' or 'pair_T' in case['preps']:
    ls.append('column_major_feature')
  if case.get('warm'):
    ls.append('preprocessor_used_before_append')
  if case.get('abandoned_first'):
    ls.append('first_pass_abandoned')
  if case.get('consumer_edits'):
    ls.append('consumer_edits_batches_between_passes')
  if case.get('fns_given') and case['preps']:
    ls.append('preprocessor_chain_from_' + ('generator' if case['fns_given'].startswith('gen') else 'list_emptied_later'))
  ls.append('N=0' if n == 0 else ('B>N' if b > n else ('B|N' if n % b == 0 else 'B∤N')))
  if case.get('buckets', 1) > 1:
    ls.append('buckets>1')
    if b & (b - 1):
      ls.append('B_not_pow2')
  if case.get('drop_remainder'):
    ls.append('drop_remainder')
  if case['preps']:
    ls.append('preprocessed')
  for f in case['features']:
    ls.append('dtype:' + f['dtype'])
    if f['trail'] == [0]:
      ls.append('zero_width_feature')
  return ls


def nontrivial(case, ls):
  n, b = _eff_n(case), case['batch_size']
  return n > 0 and (n % b != 0 or b > n or
                    (case.get('buckets', 1) > 1 and (b & (b - 1)) != 0))


def final_size_cases(tier):
  bmax = 32 if tier == 'quick' else 64
  for b in range(2, bmax + 1):
    for r in range(1, b):
      for k in range(1, 9):
        yield {'r': r, 'batch_size': b, 'buckets': k, 'full': (r + k) % 3}


CHECKS = [
    Check(name='plain_batch', run=run_plain,
          strategy=lambda tier: case_strategy(tier, padded=False),
          labels=labels, nontrivial=nontrivial,
          budget={'quick': 16000, 'thorough': 200000},
          doc='ClientDataset.batch vs numpy partition model'),
    Check(name='padded_batch', run=run_padded,
          strategy=lambda tier: case_strategy(tier, padded=True),
          labels=labels, nontrivial=nontrivial,
          budget={'quick': 24000, 'thorough': 300000},
          doc='ClientDataset.padded_batch vs numpy partition model + bucket rule'),
    Check(name='final_bucket_exhaustive', run=run_final_size,
          cases=final_size_cases,
          labels=lambda c: ['K=%d' % c['buckets']],
          nontrivial=lambda c, ls: c['buckets'] > 1,
          doc='exhaustive (remainder, batch_size<=32/64, buckets<=8) against '
              'the closed form of the documented halving rule'),
]
