"""C09 -- An interrupted experiment resumes to the uninterrupted result.

Fault enumeration over the stream of effects of run_federated_experiment
(tf.io.gfile makedirs/glob/open/write/close/rename/remove, sampler.sample,
algorithm.apply, evaluation functions): a crash is raised at a chosen effect,
the file being written is cut to a chosen prefix, and the *same* call is
repeated.  Differential oracle: final state and final-evaluation files equal
those of a never-interrupted run; invariants on checkpoint files at every
observation point.
"""
import json
import os
import pickle
import re
import shutil
import subprocess
import sys
import tempfile

import numpy as np
from hypothesis import strategies as st

import jax
import jax.numpy as jnp
import tensorflow as tf

import fedjax
from fedjax.training import checkpoint as ckpt_mod
from fedjax.training import federated_experiment as fe
from fedjax.training import logging as fj_logging

from vf import env as _env
from vf.core import Check, require

PROPERTY_ID = 'C09'
LEVEL = 'fault_enumeration'
RULE = ('A grid of configurations (num_rounds 0..5, checkpoint_frequency 0..3, '
        'keep 1..2, eval_frequency in {0,2}, with/without final evaluation) is '
        'crossed with EVERY single crash point of the first run (each effect '
        'index; for writes the prefixes none/half/all-but-one byte of the '
        'interrupted file survive) -- exhaustive per configuration; Hypothesis '
        'adds configurations up to 7 rounds with schedules of 1-3 successive '
        'crashes; a few schedules are executed with a real os._exit in a child '
        'process. Non-trivial = a crash that lands inside a checkpoint write, '
        'between a save and the clean-up of older checkpoints, or after the '
        'last round (final evaluation).')
RULE += (
    ' '
    'Later widenings: real process death (os._exit in a child interpreter under another PYTHO'
    'NHASHSEED) among the crash points; a state whose pytree structure changes over the round'
    's, with a weakly typed scalar and a float16 leaf; root_dir given as a file:// URI or wit'
    'h digits in its name; one schedule in twelve carries a 17 MiB state.')
RULE += (
    ' '
    'Also: root_dir with a trailing slash.')
ASSUMPTIONS = [
    'crash model: BaseException raised at the effect (no fedjax handler '
    'catches it) + the file being written truncated to a generated prefix; a '
    'sample re-validated with a real os._exit in a subprocess',
    'tf.summary.create_file_writer/scalar/histogram are replaced by no-ops in '
    'the harness process (TensorBoard is not installed; event files are not an '
    'observable of C09)',
    'the toy algorithm is round-deterministic and non-commutative in the '
    'cohort order, ids, data and keys, so a skipped/repeated/re-sampled round '
    'changes the final state',
    'crashes are injected at effects of the experiment loop; power-loss '
    'reordering between distinct files is not modelled',
]


class Crash(BaseException):
  pass


# ---------------------------------------------------------------- TF shims

class _NullWriter:

  def as_default(self):
    return self

  def __enter__(self):
    return self

  def __exit__(self, *a):
    return False


tf.summary.create_file_writer = lambda *a, **k: _NullWriter()
tf.summary.scalar = lambda *a, **k: None
tf.summary.histogram = lambda *a, **k: None

_REAL = {name: getattr(tf.io.gfile, name)
         for name in ('GFile', 'glob', 'remove', 'rename', 'makedirs')}


class Injector:
  """Counts effects and raises Crash at the chosen one."""

  def __init__(self, crash_at=None, prefix='all', hard=False, strict=True):
    self.strict = strict   # False: dry run that only counts effects
    self.crash_at = crash_at
    self.prefix = prefix
    self.hard = hard
    self.n = 0
    self.log = []
    self.crashed_kind = None
    self.open_write_path = None
    self.saves_done = 0
    self.starts = []
    self.max_after_save = 0

  def effect(self, kind, detail=''):
    i = self.n
    self.n += 1
    self.log.append(kind)
    if self.crash_at is not None and i == self.crash_at:
      self.crashed_kind = kind
      return True
    return False

  def die(self):
    if self.hard:
      os._exit(17)
    raise Crash()


_INJ = [None]


def inj():
  return _INJ[0]


class FaultyGFile:
  """tf.io.gfile.GFile as seen by fedjax, with every effect observable."""

  def __init__(self, path, mode='r'):
    self._path, self._mode = path, mode
    i = inj()
    kind = 'open_w' if 'w' in mode else 'open_r'
    if i.effect(kind + ':' + _classify(path)):
      i.die()
    self._f = _REAL['GFile'](path, mode)
    if 'w' in mode:
      i.open_write_path = _local(path)

  def write(self, data):
    i = inj()
    if i.effect('write:' + _classify(self._path)):
      n = len(data)
      keep = {'none': 0, 'half': n // 2, 'allbut1': max(0, n - 1), 'all': n}[i.prefix]
      self._f.write(data[:keep])
      self._f.flush()
      i.die()
    return self._f.write(data)

  def read(self, *a):
    return self._f.read(*a)

  def readline(self, *a):
    return self._f.readline(*a)

  def readinto(self, b):
    data = self._f.read(len(b))
    b[:len(data)] = data
    return len(data)

  def flush(self):
    return self._f.flush()

  def close(self):
    i = inj()
    if 'w' in self._mode and i.open_write_path == _local(self._path):
      crashed = i.effect('close_w:' + _classify(self._path))
      if crashed and i.hard:
        # real process death at the close: nothing is flushed, whatever still
        # sits in the writer's buffer never reaches the disk
        i.die()
      self._f.close()
      i.open_write_path = None
      if crashed:
        i.die()
      return
    return self._f.close()

  def __enter__(self):
    return self

  def __exit__(self, et, ev, tb):
    if et is not None:
      # unwinding after a crash/error: whatever was written is on disk
      self._f.close()
      return False
    self.close()
    return False

  def __getattr__(self, name):
    return getattr(self._f, name)


def _local(path):
  return path[len('file://'):] if path.startswith('file://') else path


def _classify(path):
  base = os.path.basename(path)
  if re.match(r'checkpoint_\d{8}$', base):
    return 'ckpt'
  if base.startswith('checkpoint_'):
    return 'ckpt_tmp'
  if base.endswith('.tsv'):
    return 'tsv'
  return 'other'


def _wrap(name, kind):
  real = _REAL[name]

  def f(*a, **k):
    i = inj()
    detail = _classify(a[0]) if a and isinstance(a[0], str) else ''
    if i.effect(f'{kind}:{detail}'):
      i.die()
    return real(*a, **k)
  return f


def install_gfile():
  tf.io.gfile.GFile = FaultyGFile
  tf.io.gfile.glob = _wrap('glob', 'glob')
  tf.io.gfile.remove = _wrap('remove', 'remove')
  tf.io.gfile.rename = _wrap('rename', 'rename')
  tf.io.gfile.makedirs = _wrap('makedirs', 'makedirs')


install_gfile()

_real_save_checkpoint = ckpt_mod.save_checkpoint


def _observed_save_checkpoint(root_dir, state, round_num=0, keep=1):
  out = _real_save_checkpoint(root_dir, state, round_num, keep)
  i = inj()
  n = len(final_checkpoints(root_dir))
  i.saves_done += 1
  i.max_after_save = max(i.max_after_save, n)
  if i.strict:
    # the clean-up keeps only the newest `keep` files, whatever was left behind
    # by earlier crashes
    require(n <= keep, 'more_than_keep_checkpoints_after_save',
            f'{n} checkpoint files after saving round {round_num}, keep={keep}')
  return out


ckpt_mod.save_checkpoint = _observed_save_checkpoint


def final_checkpoints(root):
  if not os.path.isdir(root):
    return []
  return sorted(f for f in os.listdir(root) if re.match(r'checkpoint_\d{8}$', f))


# ------------------------------------------------------------- toy experiment

M = (1 << 31) - 1


def make_fd(n_clients):
  data = {}
  for c in range(n_clients):
    cid = b'c%02d' % c + (b'\x00' if c % 3 == 0 else b'')
    data[cid] = {'x': np.arange(1, 2 + c % 3, dtype=np.int32) * (c + 1)}
  return fedjax.InMemoryFederatedData(data)


def mix(acc, v):
  return (acc * 1000003 + int(v)) % M


def toy_algorithm(ballast_mib=0):
  """state' = f(state, ordered cohort ids, data, keys): order-sensitive."""

  def init(seed):
    # 'lr' is a weakly typed device scalar (born from a Python float, like a
    # learning rate or a decay) and 'half' a float16 device array: their product
    # stays float16 only as long as 'lr' is still weakly typed after a restore
    # 'mom' is None until the first round and 'seen' gains a key per client: the
    # pytree STRUCTURE of the state changes over the rounds (a lazily created
    # momentum, a per-client table)
    state = {'acc': np.array([seed % M, 7], dtype=np.int64),
             'hist': np.zeros([3], dtype=np.int64), 'rounds': 0,
             'lr': jnp.asarray(0.5), 'half': jnp.full((2,), 1.0, jnp.float16),
             'mom': None, 'seen': {}}
    if ballast_mib:
      # a state of realistic size (a model of a few million parameters): its
      # pickle is larger than any single buffer a writer might use
      state['ballast'] = np.full((ballast_mib * 2 ** 20 + 5,), seed % 251, np.uint8)
    return state

  def apply(state, clients):
    i = inj()
    if i.effect('apply'):
      i.die()
    acc = int(state['acc'][0])
    for cid, ds, rng in clients:
      for b in cid:
        acc = mix(acc, b)
      acc = mix(acc, int(ds.all_examples()['x'].sum()))
      for w in np.asarray(jax.random.key_data(rng)).ravel():
        acc = mix(acc, int(w))
    hist = np.roll(state['hist'], 1)
    hist[0] = acc
    new = {'acc': np.array([acc, int(state['acc'][1]) + len(clients)], dtype=np.int64),
           'hist': hist, 'rounds': state['rounds'] + 1,
           'lr': state['lr'], 'half': state['half'] * state['lr'] + 1,
           'mom': np.array([acc % 97], np.int64) if state['mom'] is None
                  else state['mom'] * 3 % 101,
           'seen': {**state['seen'], **{cid: state['rounds'] for cid, _, _ in clients}}}
    if 'ballast' in state:
      new['ballast'] = state['ballast'].copy()
      new['ballast'][-3:] = [acc % 251, (state['rounds'] + 1) % 251, 7]
    return new, {cid: None for cid, _, _ in clients}

  return fedjax.FederatedAlgorithm(init, apply)


class CountingSampler(fedjax.client_samplers.ClientSampler):
  """The real UniformGetClientSampler, with its calls observable."""

  def __init__(self, fd, cohort, seed):
    self._s = fedjax.client_samplers.UniformGetClientSampler(fd, cohort, seed)

  def sample(self):
    i = inj()
    if i.effect('sample'):
      i.die()
    return self._s.sample()

  def set_round_num(self, r):
    inj().starts.append(r)
    return self._s.set_round_num(r)


class PeriodicEval(fe.EvaluationFn):

  def __call__(self, state, round_num):
    i = inj()
    if i.effect('periodic_eval'):
      i.die()
    return {'acc': float(state['acc'][0] % 1000), 'round': round_num}


class TrainEval(fe.TrainClientsEvaluationFn):

  def __call__(self, state, round_num, train_clients):
    i = inj()
    if i.effect('train_eval'):
      i.die()
    return {'n': len(train_clients)}


class FinalEval(fe.EvaluationFn):

  def __init__(self, tag):
    self.tag = tag

  def __call__(self, state, round_num):
    i = inj()
    if i.effect('final_eval'):
      i.die()
    return {'tag': self.tag, 'acc': int(state['acc'][0]), 'n': int(state['acc'][1]),
            'round': round_num, 'rounds_done': state['rounds']}


def state_equal(a, b):
  return (set(a) == set(b) and np.array_equal(a['acc'], b['acc']) and
          np.array_equal(a['hist'], b['hist']) and a['rounds'] == b['rounds'] and
          np.asarray(a['half']).dtype == np.asarray(b['half']).dtype and
          np.array_equal(np.asarray(a['half']), np.asarray(b['half'])) and
          np.array_equal(np.asarray(a['lr']), np.asarray(b['lr'])) and
          (a['mom'] is None) == (b['mom'] is None) and
          (a['mom'] is None or np.array_equal(a['mom'], b['mom'])) and
          a['seen'] == b['seen'] and
          (('ballast' in a) == ('ballast' in b)) and
          ('ballast' not in a or np.array_equal(a['ballast'], b['ballast'])))


def one_run(case, root, injector):
  """One call of run_federated_experiment under `injector`."""
  cfg = case['config']
  _INJ[0] = injector
  fd = make_fd(case['n_clients'])
  sampler = CountingSampler(fd, case['cohort'], case['seed'])
  alg = toy_algorithm(case.get('ballast_mib', 0))
  # the experiment may be given its directory as a URI (file:///...), as remote
  # file systems are; the harness keeps looking at the plain local path
  root_arg = 'file://' + root if case.get('root_as_uri') else root
  if case.get('root_trailing_slash'):
    root_arg += '/'      # a directory named the way shells complete it
  config = fe.FederatedExperimentConfig(
      root_dir=root_arg, num_rounds=cfg['num_rounds'],
      checkpoint_frequency=cfg['checkpoint_frequency'],
      num_checkpoints_to_keep=cfg['keep'], eval_frequency=cfg['eval_frequency'])
  periodic = {}
  if case['evals']['periodic']:
    periodic['p'] = PeriodicEval()
  if case['evals']['train']:
    periodic['t'] = TrainEval()
  final = {f'final{j}': FinalEval(j) for j in range(case['evals']['final'])}
  return fe.run_federated_experiment(
      alg, alg.init(case['seed']), sampler, config,
      periodic_eval_fn_map=periodic, final_eval_fn_map=final)


def read_tsvs(root):
  out = {}
  if os.path.isdir(root):
    for f in sorted(os.listdir(root)):
      if f.endswith('.tsv'):
        with open(os.path.join(root, f), 'rb') as fh:
          out[f] = fh.read()
  return out


def reference(case, base):
  """Never-interrupted run; also the per-round states (by replaying prefixes)."""
  root = os.path.join(base, 'ref-' + case.get('dirname', 'run'))
  injector = Injector()
  final_state = one_run(case, root, injector)
  # per-round reference states from checkpoint-free runs of r rounds
  states = {}
  alg = toy_algorithm(case.get('ballast_mib', 0))
  _INJ[0] = Injector()
  fd = make_fd(case['n_clients'])
  s = fedjax.client_samplers.UniformGetClientSampler(fd, case['cohort'], case['seed'])
  st_ = alg.init(case['seed'])
  s.set_round_num(1)
  for r in range(1, case['config']['num_rounds'] + 1):
    st_, _ = alg.apply(st_, s.sample())
    states[r] = st_
  return final_state, read_tsvs(root), states, injector


def observe_disk(root, states, keep, when, crashes_so_far=0):
  """Every file visible under a final checkpoint name is complete and right."""
  names = final_checkpoints(root)
  for name in names:
    path = os.path.join(root, name)
    r = int(name.split('_')[1])
    try:
      with open(path, 'rb') as f:
        loaded = pickle.load(f)
    except Exception as e:  # pylint: disable=broad-except
      require(False, 'visible_checkpoint_not_loadable', f'{when}: {name}: {type(e).__name__}: {e}')
    require(r in states and state_equal(loaded, states[r]),
            'visible_checkpoint_wrong_state', f'{when}: {name}')
  # Save first, then delete: every crash between a save and its clean-up can
  # leave one extra file behind, so the bound at an observation point after j
  # crashes is keep + j (the next completed save brings it back to keep).
  require(len(names) <= keep + crashes_so_far, 'too_many_checkpoints_on_disk',
          f'{when}: {names} keep={keep} crashes so far={crashes_so_far}')
  return names


def truncate_open_file(injector, root, frac_num):
  """Process death: only a prefix of the file being written survives."""
  p = injector.open_write_path
  if p and os.path.exists(p) and frac_num is not None:
    size = os.path.getsize(p)
    with open(p, 'r+b') as f:
      f.truncate(size * frac_num // 4)


def run_case(case):
  base = tempfile.mkdtemp(prefix='vf-c09-', dir='/dev/shm' if os.path.isdir('/dev/shm') else '/var/tmp')
  extra = []
  try:
    cfg = case['config']
    ref_state, ref_tsvs, states, ref_inj = reference(case, base)
    root = os.path.join(base, case.get('dirname', 'run'))
    final_state = None
    for ci, crash in enumerate(case['crashes']):
      injector = Injector(crash['at'], crash['prefix'])
      newest_before = final_checkpoints(root)
      try:
        final_state = one_run(case, root, injector)
        extra.append('crash_not_reached')
        completed = True
      except Crash:
        completed = False
        kind = injector.crashed_kind
        extra.append('crash@' + kind)
        truncate_open_file(injector, root, crash.get('survive'))
      check_start(injector, newest_before, f'run {ci}')
      observe_disk(root, states, cfg['keep'], f'after crash {ci} ({injector.crashed_kind})', ci + 1)
      if completed:
        break
    injector = Injector()
    newest_before = final_checkpoints(root)
    final_state = one_run(case, root, injector)
    check_start(injector, newest_before, 'final run')
    names = observe_disk(root, states, cfg['keep'], 'after the completing run', len(case['crashes']))
    require(state_equal(final_state, ref_state), 'final_state_differs',
            f'resumed {final_state} vs uninterrupted {ref_state}')
    tsvs = read_tsvs(root)
    require(tsvs == ref_tsvs, 'final_eval_output_differs',
            f'{tsvs} vs {ref_tsvs}')
    if injector.saves_done:
      require(len(names) <= cfg['keep'], 'more_than_keep_checkpoints_after_save',
              f'{names} keep={cfg["keep"]}')
    return extra
  finally:
    _INJ[0] = None
    shutil.rmtree(base, ignore_errors=True)


def check_start(injector, newest_before, when):
  """The newest complete checkpoint wins: the sampler is seated right after it."""
  if not injector.starts:
    return
  want = int(newest_before[-1].split('_')[1]) + 1 if newest_before else 1
  require(injector.starts[0] == want, 'resume_round_not_after_newest_checkpoint',
          f'{when}: sampler seated at {injector.starts[0]}, newest checkpoint {newest_before[-1:]}')


def count_effects(case):
  base = tempfile.mkdtemp(prefix='vf-c09-', dir='/dev/shm' if os.path.isdir('/dev/shm') else '/var/tmp')
  try:
    injector = Injector(strict=False)
    try:
      one_run(case, os.path.join(base, 'cnt-' + case.get('dirname', 'run')), injector)
    except Exception:  # pylint: disable=broad-except
      # A failure of the uninterrupted run is reported by run_case (its
      # reference run raises the same way); here we only need the effect count.
      pass
    return list(injector.log) + ['tail']
  finally:
    _INJ[0] = None
    shutil.rmtree(base, ignore_errors=True)


def base_case(nr, cf, keep, ef, final, periodic=True, train=False, n_clients=5,
              cohort=2, seed=3):
  return {'config': {'num_rounds': nr, 'checkpoint_frequency': cf, 'keep': keep,
                     'eval_frequency': ef},
          'n_clients': n_clients, 'cohort': cohort, 'seed': seed,
          'evals': {'periodic': periodic, 'train': train, 'final': final},
          'crashes': []}


def single_crash_cases(tier):
  rounds = range(0, 5) if tier == 'quick' else range(0, 7)
  freqs = range(0, 4) if tier == 'quick' else range(0, 5)
  keeps = (1, 2) if tier == 'quick' else (1, 2, 3)
  for nr in rounds:
    for cf in freqs:
      for keep in keeps:
        if cf == 0 and keep > 1:
          continue
        for ef in (0, 2):
          for final in (0, 1) if tier == 'quick' else (0, 1, 2):
            case = base_case(nr, cf, keep, ef, final, train=(nr + cf) % 2 == 0)
            case['dirname'] = DIRNAMES[(nr * 7 + cf * 3 + keep + ef + final) % len(DIRNAMES)]
            case['root_as_uri'] = (nr + cf + keep + final) % 3 == 0
            log = count_effects(case)
            for i, kind in enumerate(log):
              if kind.startswith('write:') or kind.startswith('close_w:'):
                variants = [('none', 0), ('half', 2), ('allbut1', 4), ('all', 1)]
              else:
                variants = [('all', None)]
              for prefix, survive in variants:
                c = json.loads(json.dumps(case))
                c['crashes'] = [{'at': i, 'prefix': prefix, 'survive': survive}]
                yield c


DIRNAMES = ['run', 'run', 'run', 'exp.1', 'a+b', 'run(2)', 'run[1]', 'x^y$', 'star*q?', 'sp ace', 'checkpoint_00000001']


def labels(case):
  cfg = case['config']
  ls = ['rounds:%d' % cfg['num_rounds'], 'ckpt_freq:%d' % cfg['checkpoint_frequency'],
        'keep:%d' % cfg['keep'], 'ncrashes:%d' % len(case['crashes'])]
  if case['evals']['final']:
    ls.append('final_eval')
  if case.get('dirname', 'run') != 'run':
    ls.append('dirname_special')
  if case.get('ballast_mib'):
    ls.append('state_of_%d_MiB' % case['ballast_mib'])
  if case.get('root_trailing_slash'):
    ls.append('root_dir_with_trailing_slash')
  return ls


INTERESTING = ('crash@write:ckpt', 'crash@close_w:ckpt', 'crash@rename', 'crash@remove',
               'crash@glob', 'crash@final_eval', 'crash@open_w:tsv', 'crash@write:tsv',
               'crash@close_w:tsv', 'crash@open_w:ckpt')


def nontrivial(case, ls):
  return any(l.startswith(INTERESTING) for l in ls)


@st.composite
def schedule_strategy(draw, tier):
  nr = draw(st.integers(0, 7))
  cf = draw(st.integers(0, 4))
  keep = draw(st.integers(1, 3))
  ef = draw(st.integers(0, 3))
  n_clients = draw(st.integers(2, 6))
  case = base_case(nr, cf, keep, ef, draw(st.integers(0, 2)),
                   periodic=draw(st.booleans()), train=draw(st.booleans()),
                   n_clients=n_clients, cohort=draw(st.integers(1, n_clients)),
                   seed=draw(st.integers(0, 50)))
  case['dirname'] = draw(st.sampled_from(DIRNAMES))
  case['root_as_uri'] = draw(st.integers(0, 3)) == 0
  case['root_trailing_slash'] = draw(st.integers(0, 3)) == 0
  if nr <= 3 and cf >= 1 and draw(st.integers(0, 11)) == 0:
    case['ballast_mib'] = 17      # every checkpoint is an 17 MiB pickle
  # crash indices are drawn inside the effect stream of an uninterrupted run of
  # this configuration (a resumed run has fewer effects: later crashes of the
  # schedule are biased toward small indices)
  n_eff = len(count_effects(case))
  crashes = []
  for j in range(draw(st.integers(1, 3))):
    hi = n_eff + 1 if j == 0 else max(2, n_eff * 2 // (j + 2))
    crashes.append({
        'at': draw(st.integers(0, hi)),
        'prefix': draw(st.sampled_from(['none', 'half', 'allbut1', 'all'])),
        'survive': draw(st.sampled_from([None, 0, 1, 2, 3, 4]))})
  case['crashes'] = crashes
  return case


# ------------------------------------------------------- real process death

def run_hard(case):
  """Same oracle, but the crash is a real os._exit in a child process."""
  base = tempfile.mkdtemp(prefix='vf-c09h-', dir='/var/tmp')
  try:
    root = os.path.join(base, case.get('dirname', 'run'))
    ref_state, ref_tsvs, states, _ = reference(case, base)
    env = _env.worker_env()
    for crash in case['crashes']:
      # the interrupted run is ANOTHER process than the one that completes the
      # experiment: another string-hash seed, as after a real restart
      env['PYTHONHASHSEED'] = str(4242 + crash['at'])
      spec = {'case': case, 'root': root, 'at': crash['at'], 'prefix': crash['prefix']}
      p = subprocess.run([sys.executable, '-m', 'vf.props.c09', json.dumps(spec)],
                         env=env, cwd=_env.VERIF_DIR, capture_output=True, text=True,
                         timeout=600)
      require(p.returncode in (0, 17), 'child_failed', p.stderr[-1500:])
      observe_disk(root, states, case['config']['keep'], 'after os._exit', len(case['crashes']))
    injector = Injector()
    final_state = one_run(case, root, injector)
    observe_disk(root, states, case['config']['keep'], 'after the completing run', len(case['crashes']))
    require(state_equal(final_state, ref_state), 'final_state_differs',
            f'{final_state} vs {ref_state}')
    require(read_tsvs(root) == ref_tsvs, 'final_eval_output_differs')
    return ['hard_exit']
  finally:
    _INJ[0] = None
    shutil.rmtree(base, ignore_errors=True)


def hard_cases(tier):
  n = 16 if tier == 'quick' else 96
  k = 0
  for nr, cf, keep, final in [(3, 1, 1, 1), (4, 2, 2, 1), (2, 1, 2, 0), (5, 3, 1, 2)]:
    case = base_case(nr, cf, keep, 2, final)
    log = count_effects(case)
    idx = [i for i, kind in enumerate(log)
           if kind.split(':')[0] in ('write', 'close_w', 'rename', 'remove', 'final_eval', 'apply')]
    step = max(1, len(idx) * 4 // n)
    # every close of a checkpoint file (death with unflushed buffers) of the
    # first two configurations, plus an even sample of the other crash points
    closes = [i for i in idx if log[i].startswith('close_w:ckpt')] if k < 2 * n else []
    for i in sorted(set(idx[::step]) | set(closes[:4])):
      c = json.loads(json.dumps(case))
      c['crashes'] = [{'at': i, 'prefix': 'half', 'survive': None}]
      c['hard_kind'] = log[i]
      k += 1
      yield c


CHECKS = [
    Check(name='single_crash_exhaustive', run=run_case, cases=single_crash_cases,
          labels=labels, nontrivial=nontrivial,
          doc='every single crash point x surviving prefixes for a grid of configurations'),
    Check(name='multi_crash_schedules', run=run_case, strategy=schedule_strategy,
          labels=labels, nontrivial=nontrivial,
          budget={'quick': 1500, 'thorough': 30000},
          doc='generated configurations with 1-3 successive crashes'),
    Check(name='real_process_death', run=run_hard, cases=hard_cases,
          labels=lambda c: labels(c) + ['crash@' + c.get('hard_kind', '?')],
          nontrivial=nontrivial, time_share=0.6,
          doc='sampled crash points executed with os._exit in a child process'),
]


if __name__ == '__main__':
  # child entry point for run_hard: run with a real os._exit at the crash point
  spec = json.loads(sys.argv[1])
  injector = Injector(spec['at'], spec['prefix'], hard=True)
  try:
    one_run(spec['case'], spec['root'], injector)
  except BaseException:  # pylint: disable=broad-except
    import traceback
    traceback.print_exc()
    os._exit(3)
  os._exit(0)
