"""C05 -- Evaluation is invariant to batching and padding (metric monoid).

Generated domain: a built-in metric (or the whole bounded menu of metric
instances inside one mock model), a set of 0..10 in-domain examples, a
partition of the set into batches in arbitrary order, a padded size per batch,
positions and arbitrary in-domain *content* of the padding rows, and whether the
mask feature is present on batches without padding.

Oracle: the fold `zero().merge(evaluate_example(e_0)).merge(...)` over the real
examples in canonical order, using fedjax's own `evaluate_example`/`merge`
(the documentation's definition of f(S)), compared with `evaluate_batch` per
batch merged in batch order, with `fedjax.evaluate_model` on the mock model of
the docs, and with `ModelEvaluator`.  Monoid laws are additionally checked on
the per-example statistics and on directly generated MeanStat/SumStat values.
"""
import dataclasses
import functools
import warnings

import numpy as np
from hypothesis import strategies as st

import jax
import jax.numpy as jnp
import fedjax
from fedjax.core import metrics as M
from fedjax.core import models as fmodels

from vf.core import Check, require, Violation

PROPERTY_ID = 'C05'
NEEDS_TF = False
LEVEL = 'exploration'
RULE = (
    'Hypothesis draws family (classification C in {2,3,5} / sequence C in '
    '{2,3,5} x T in {1,3,4}), 0..10 examples (16 thorough; labels in [0,C), '
    'scores k/4 with ties and occasional +-1024, fully masked sequences, a '
    'domain id), a random permutation cut into batches, two padded sizes per '
    'case from {1,2,3,4,8}, prefix / arbitrary / no padding positions, 0..2 '
    'extra all-padding batches, padding rows filled with other in-domain '
    'examples (not zeros), and whether unpadded batches carry a mask feature. '
    'batch_merge draws one metric from a registry of 8 classification / 30 '
    'sequence instances (all 14 classes; k in {-2..C+2}, masked_target_values, '
    'logits_mask with -inf, per_position), optionally wrapped in '
    'PerDomainMetric(D in 1..4); model_paths evaluates a menu of 8 / 17 '
    '(quick: core, 4 model shapes) or 14 / 41 (thorough: also full, 12 model '
    'shapes) instances inside one mock model and in 1/4 of the cases also '
    'feeds ClientDataset.padded_batch(batch_size, buckets in 1..4) over the same '
    'examples; empty_or_fully_masked forces zero '
    'real examples. stat_laws draws three raw MeanStat/SumStat operands '
    '(multiples of 1/8, incl. out-of-domain weights <= 0) of shape (), (3,), '
    '(4,), (2,3). An evaluation case is non-trivial when (>=2 batches of '
    'different padded size and >=1 padding row whose content is not all zero) '
    'or some batch is entirely padding (empty_or_fully_masked: every case); a '
    'stat_laws case when some weight <= 0 sits next to a non-zero accum or the '
    'three operands are not all equal. distinct = distinct canonical case JSON.')
RULE += (
    ' '
    'Later widenings: sibling models sharing metric names; ModelEvaluator on the debug and pm'
    'ap backends (pmap: one batch size and one feature set, optionally next to a client with '
    'twice as many batches); client batches as one-shot iterators; mapping-valued predictions'
    ' read through pred_key; a check of its own for a real example with an infinite loss.')
RULE += (
    ' '
    'Also: masks stored as 0/1 integers; a peek at a padded_batch view before it is evaluated'
    '.')
ASSUMPTIONS = [
    'scores are finite dyadic rationals with |score| <= 1024 (cross entropy is '
    'NaN by construction for infinite logits); labels lie in [0, num_classes), '
    'domain ids in [0, num_domains)',
    'integer-valued statistics (all metrics except the cross-entropy family) '
    'are compared exactly, their ratios within 4 ulp; cross-entropy sums within '
    '2e-5 * max(1, |value|, T * logit span) absolute (float32 summation order / '
    'vectorised log_softmax differ between the per-example and the batched path)',
    'for per-position metrics zero() is a scalar by design while the statistic '
    'has shape [T]: on an empty / fully masked input the result must be all '
    'zeros and finite, with either of the two shapes',
    'known open finding perdomain-per-position: PerDomainMetric over a '
    'per_position=True base with T != num_domains is excluded from generation '
    '(T not in {1, D}: ValueError; T == 1 < D: result shape (D, D)); witnesses '
    'in replays/C05',
    'masks are bool arrays or, in the model-level check, 0/1 arrays of an '
    'integer dtype; ModelEvaluator runs on the default (jit) backend and, per '
    'case, on the debug / pmap backends (backends as such are the subject of C02)',
]

# for_each_client donates the (scalar) statistics; noise in the shard logs
warnings.filterwarnings('ignore', message='Some donated buffers were not usable')

MASK = fedjax.EXAMPLE_MASK_KEY
SIZES = [1, 2, 3, 4, 8]
DOM_KEY = {1: 'dom1', 2: 'domain_id', 3: 'dom3', 4: 'dom4'}
NINF = float('-inf')

# ------------------------------------------------------------------ registry


def _lm(c):
  return (0.,) * (c - 1) + (NINF,)


# name -> (constructor(C, T), per_position, exact(integer-valued statistic))
CLS_BASES = {
    'ce': (lambda c, t: M.CrossEntropyLoss(), False, False),
    'acc': (lambda c, t: M.Accuracy(), False, True),
    'top_m2': (lambda c, t: M.TopKAccuracy(k=-2), False, True),
    'top0': (lambda c, t: M.TopKAccuracy(k=0), False, True),
    'top1': (lambda c, t: M.TopKAccuracy(k=1), False, True),
    'top2': (lambda c, t: M.TopKAccuracy(k=2), False, True),
    'topC2': (lambda c, t: M.TopKAccuracy(k=c + 2), False, True),
    'cm': (lambda c, t: M.ConfusionMatrix(num_classes=c), False, True),
}
SEQ_BASES = {
    'tok_ce': (lambda c, t: M.SequenceTokenCrossEntropyLoss(), False, False),
    'tok_ce_m': (lambda c, t: M.SequenceTokenCrossEntropyLoss(
        masked_target_values=()), False, False),
    'tok_ce_m01': (lambda c, t: M.SequenceTokenCrossEntropyLoss(
        masked_target_values=(0, 1)), False, False),
    'tok_ce_pp': (lambda c, t: M.SequenceTokenCrossEntropyLoss(
        per_position=True), True, False),
    'seq_ce': (lambda c, t: M.SequenceCrossEntropyLoss(), False, False),
    'seq_ce_m01': (lambda c, t: M.SequenceCrossEntropyLoss(
        masked_target_values=(0, 1)), False, False),
    'tok_acc': (lambda c, t: M.SequenceTokenAccuracy(), False, True),
    'tok_acc_m': (lambda c, t: M.SequenceTokenAccuracy(
        masked_target_values=()), False, True),
    'tok_acc_lm': (lambda c, t: M.SequenceTokenAccuracy(
        logits_mask=_lm(c)), False, True),
    'tok_acc_pp': (lambda c, t: M.SequenceTokenAccuracy(
        per_position=True), True, True),
    'tok_top2': (lambda c, t: M.SequenceTokenTopKAccuracy(k=2), False, True),
    'tok_top0': (lambda c, t: M.SequenceTokenTopKAccuracy(k=0), False, True),
    'tok_top_m1': (lambda c, t: M.SequenceTokenTopKAccuracy(k=-1), False, True),
    'tok_topC1': (lambda c, t: M.SequenceTokenTopKAccuracy(k=c + 1), False, True),
    'tok_top2_lm_pp': (lambda c, t: M.SequenceTokenTopKAccuracy(
        k=2, logits_mask=_lm(c), per_position=True), True, True),
    'tok_count': (lambda c, t: M.SequenceTokenCount(), False, True),
    'tok_count_m02': (lambda c, t: M.SequenceTokenCount(
        masked_target_values=(0, 2)), False, True),
    'seq_count': (lambda c, t: M.SequenceCount(), False, True),
    'seq_count_m01': (lambda c, t: M.SequenceCount(
        masked_target_values=(0, 1)), False, True),
    'trunc': (lambda c, t: M.SequenceTruncationRate(
        eos_target_value=c - 1), False, True),
    'trunc_m01': (lambda c, t: M.SequenceTruncationRate(
        eos_target_value=c - 1, masked_target_values=(0, 1)), False, True),
    'oov1': (lambda c, t: M.SequenceTokenOOVRate(
        oov_target_values=(1,)), False, True),
    'oov12': (lambda c, t: M.SequenceTokenOOVRate(
        oov_target_values=(1, 2)), False, True),
    'oov_none': (lambda c, t: M.SequenceTokenOOVRate(
        oov_target_values=()), False, True),
    'oov1_pp': (lambda c, t: M.SequenceTokenOOVRate(
        oov_target_values=(1,), per_position=True), True, True),
    'oov1_m_pp': (lambda c, t: M.SequenceTokenOOVRate(
        oov_target_values=(1,), masked_target_values=(),
        per_position=True), True, True),
    'len': (lambda c, t: M.SequenceLength(), False, True),
    'len_m01': (lambda c, t: M.SequenceLength(
        masked_target_values=(0, 1)), False, True),
    'len_m': (lambda c, t: M.SequenceLength(masked_target_values=()), False, True),
    'tok_count_m': (lambda c, t: M.SequenceTokenCount(
        masked_target_values=()), False, True),
}
BASES = {'cls': CLS_BASES, 'seq': SEQ_BASES}


def known_excluded(family, name, pd, t):
  """The open finding: PerDomainMetric over a per-position base, T != D."""
  return pd > 0 and BASES[family][name][1] and t != pd


@functools.lru_cache(maxsize=None)
def build_metric(family, name, pd, c, t, keyed_pred=False):
  base = BASES[family][name][0](c, t)
  if keyed_pred and any(f.name == 'pred_key' for f in dataclasses.fields(base)):
    # the documented way to read one entry of a mapping-valued prediction
    base = dataclasses.replace(base, pred_key='out')
  if pd:
    return M.PerDomainMetric(base, num_domains=pd, domain_id_key=DOM_KEY[pd])
  return base


def is_exact(family, name):
  return BASES[family][name][2]


CORE = {
    'cls': ['ce', 'acc', 'top2', 'top_m2', 'cm'],
    'seq': ['tok_ce', 'seq_ce', 'tok_acc_lm', 'tok_top2', 'tok_count',
            'seq_count', 'trunc', 'oov12', 'len', 'tok_acc_pp', 'tok_ce_pp'],
}


def default_menu(family, t, which):
  """[(name, pd)] evaluated together in the mock model of model_paths.

  'core': one instance of each of the 14 metric classes plus the wrappers that
  give every statistic shape ([], [T], [C,C], [D], [D,T], [D,C,C]);
  'full': every instance of the registry.
  """
  if which == 'core':
    menu = [(n, 0) for n in CORE[family]]
    if family == 'cls':
      menu += [('acc', 2), ('ce', 3), ('cm', 3)]
    else:
      menu += [('tok_acc', 2), ('tok_ce', 3), ('len', 1), ('tok_count', 4)]
      if t in DOM_KEY:
        menu += [('tok_acc_pp', t), ('oov1_pp', t)]
    return menu
  menu = [(n, 0) for n in BASES[family]]
  if family == 'cls':
    menu += [('acc', 1), ('acc', 2), ('ce', 3), ('cm', 2), ('top2', 3),
             ('cm', 4)]
  else:
    menu += [('tok_acc', 2), ('tok_ce', 3), ('tok_count', 2), ('len', 1),
             ('seq_ce', 4), ('trunc', 3), ('oov12', 2), ('seq_count', 3)]
    if t in DOM_KEY:
      # per-position bases only with num_domains == T (known finding otherwise)
      menu += [('tok_acc_pp', t), ('oov1_pp', t), ('tok_ce_pp', t)]
  return menu


def key_of(name, pd):
  return f'pd{pd}:{name}' if pd else name


def mock_apply_for_eval(params, batch):
  del params
  return batch['pred']


def mock_apply_for_eval_dict2(params, batch):
  # a model whose prediction is a mapping: the metrics read prediction['out']
  del params
  # (every entry is per example: evaluate_batch maps over the leading axis)
  return {'out': batch['pred'], 'aux': jnp.zeros((batch['pred'].shape[0],), jnp.float32)}


def mock_apply_for_eval_dict3(params, batch):
  del params
  n = batch['pred'].shape[0]
  return {'out': batch['pred'], 'aux': jnp.zeros((n,), jnp.float32),
          'hidden': jnp.ones((n, 2), jnp.float32)}


APPLY_FOR_EVAL = {'array': mock_apply_for_eval, 'dict2': mock_apply_for_eval_dict2,
                  'dict3': mock_apply_for_eval_dict3}


def mock_init(rng):
  return None


def mock_apply_for_train(params, batch, rng):
  return None


def mock_train_loss(batch, out):
  return None


def metric_keys(menu, naming):
  """The names under which a model lists its metrics: descriptive registry
  names, or the position-only names a user might pick ('metric_0', ...), which
  different models share."""
  if naming == 'generic':
    return ['metric_%d' % i for i in range(len(menu))]
  return [key_of(n, pd) for n, pd in menu]


@functools.lru_cache(maxsize=None)
def build_model(family, c, t, menu, naming='descriptive', pred_form='array'):
  eval_metrics = {k: build_metric(family, n, pd, c, t, pred_form != 'array')
                  for k, (n, pd) in zip(metric_keys(menu, naming), menu)}
  # The mock model of docs/fedjax.metrics.rst.  All models share their four
  # callables (module-level functions) and differ only in eval_metrics.
  return fedjax.Model(
      init=mock_init,
      apply_for_train=mock_apply_for_train,
      apply_for_eval=APPLY_FOR_EVAL[pred_form],
      train_loss=mock_train_loss,
      eval_metrics=eval_metrics)


@functools.lru_cache(maxsize=None)
def sibling_menu(family, c, t, menu):
  """The menu with the metrics rotated by one inside every group whose zero()
  statistics have the same type and leaf shapes (so that the two models'
  evaluation steps see identically shaped arguments)."""
  groups = {}
  for i, (n, pd) in enumerate(menu):
    z = build_metric(family, n, pd, c, t).zero()
    sig = (type(z).__name__,
           tuple(np.shape(l) for l in jax.tree_util.tree_leaves(z)))
    groups.setdefault(sig, []).append(i)
  out = list(menu)
  for idx in groups.values():
    for a, b in zip(idx, idx[1:] + idx[:1]):
      out[a] = menu[b]
  return tuple(out)


@functools.lru_cache(maxsize=None)
def build_evaluator(family, c, t, menu, naming='descriptive', backend='default',
                    pred_form='array'):
  if backend == 'debug':
    # the documented eager backend (jit disabled, clients one after the other)
    with fedjax.for_each_client_backend('debug'):
      return fmodels.ModelEvaluator(build_model(family, c, t, menu, naming, pred_form))
  if backend == 'pmap':
    # the documented parallel backend over 3 of the virtual CPU devices: the two
    # clients of a case leave one device of the block to a padding client
    from fedjax.core import for_each_client as fec
    with fedjax.for_each_client_backend(fec.ForEachClientPmapBackend(jax.local_devices()[:3])):
      return fmodels.ModelEvaluator(build_model(family, c, t, menu, naming, pred_form))
  return fmodels.ModelEvaluator(build_model(family, c, t, menu, naming, pred_form))


@functools.lru_cache(maxsize=None)
def per_example_fn(family, c, t, menu):
  """jit of {key: metric.evaluate_example(example, example['pred'])}."""
  model = build_model(family, c, t, menu)

  def f(example):
    return {k: m.evaluate_example(example, example['pred'])
            for k, m in model.eval_metrics.items()}

  return jax.jit(f)


def _merge_all(a, b):
  return {k: a[k].merge(b[k]) for k in a}


merge_all = jax.jit(_merge_all)

# ------------------------------------------------------------- case -> arrays


def _scores(p):
  """JSON scores -> float64 array; the string '-inf' (only ever in padding rows,
  at the row's own target) is a logit of -inf."""
  return np.asarray([[float(v) for v in r] if isinstance(r, list) else float(r)
                     for r in p], dtype=np.float64)


def row_arrays(family, row):
  """One example (JSON) -> dict of numpy features (no batch dimension)."""
  d = int(row['d'])
  out = {
      'y': np.asarray(row['y'], dtype=np.int32),
      'pred': _scores(row['p']).astype(np.float32) / np.float32(4.0),
  }
  for k, key in DOM_KEY.items():
    out[key] = np.asarray(d % k, dtype=np.int32)
  return out


def validate(case):
  fam, c = case['family'], case['C']
  t = case.get('T', 0)
  if fam not in BASES or c not in (2, 3, 5) or (fam == 'seq' and t not in (1, 3, 4)):
    raise ValueError(f'malformed case: {fam} C={c} T={t}')
  for row in list(case['examples']) + list(case['pads']):
    y = np.asarray(row['y'])
    p = _scores(row['p'])
    want_y, want_p = ((), (c,)) if fam == 'cls' else ((t,), (t, c))
    if y.shape != want_y or p.shape != want_p or y.min() < 0 or y.max() >= c:
      raise ValueError(f'malformed example {row}')
  seen = sorted(r for b in case['batches'] for r in b if r >= 0)
  if seen != list(range(len(case['examples']))):
    raise ValueError('batches are not a partition of the examples')
  for b in case['batches']:
    if len(b) not in SIZES or any(-r > len(case['pads']) for r in b if r < 0):
      raise ValueError(f'malformed batch {b}')


def build_batches(case):
  """-> list of (feature dict with leading batch axis, bool mask, real idx)."""
  fam = case['family']
  ex = [row_arrays(fam, r) for r in case['examples']]
  pads = [row_arrays(fam, r) for r in case['pads']]
  out = []
  for rows in case['batches']:
    items = [ex[r] if r >= 0 else pads[-r - 1] for r in rows]
    feats = {k: np.stack([it[k] for it in items]) for k in items[0]}
    mask = np.asarray([r >= 0 for r in rows], dtype=np.bool_)
    out.append((feats, mask, [r for r in rows if r >= 0]))
  return ex, out


def with_mask(case, feats, mask):
  """The batch as a user would pass it to evaluate_model."""
  if mask.all() and not case['mask_key']:
    return dict(feats)
  # (the mask as the producer of the batch stored it: bool, or 0/1 in an
  # integer dtype -- a mask read back from a file, built with np.ones)
  return {**feats, MASK: mask.astype(case.get('mask_dtype', 'bool'))}


def logit_span(case):
  vals = [0.0]
  for row in list(case['examples']) + list(case['pads']):
    p = _scores(row['p']) / 4.0
    p = p[np.isfinite(p)]
    vals.append(float(p.max() - p.min()) if p.size else 0.0)
  return max(vals) * max(1, case.get('T', 1))


# ---------------------------------------------------------------- comparison


def fields(stat):
  if isinstance(stat, M.MeanStat):
    return {'accum': np.asarray(stat.accum), 'weight': np.asarray(stat.weight)}
  if isinstance(stat, M.SumStat):
    return {'accum': np.asarray(stat.accum)}
  raise Violation('stat_type', f'unexpected Stat type {type(stat).__name__}')


def show(stat):
  return {k: v.tolist() for k, v in fields(stat).items()}


def close(a, b, exact, span, ulps=0):
  """a, b: float arrays of equal shape."""
  a = np.asarray(a, dtype=np.float64)
  b = np.asarray(b, dtype=np.float64)
  if not (np.isfinite(a).all() and np.isfinite(b).all()):
    return False
  if exact:
    tol = ulps * 1.2e-7 * np.maximum(np.abs(a), np.abs(b))
  else:
    tol = 2e-5 * np.maximum(1.0, np.maximum(np.maximum(np.abs(a), np.abs(b)), span))
  return bool((np.abs(a - b) <= tol).all())


def compare_stats(ref, got, exact, span, clause, what, zero_like_ok=None):
  """Type, shapes and values of two Stats.

  zero_like_ok: when the reference is the metric's zero() (no real example),
  a tuple of accepted shapes per field -- see ASSUMPTIONS (per-position).
  """
  require(type(ref) is type(got), clause + ':stat_type',
          f'{what}: {type(got).__name__} vs {type(ref).__name__}')
  fr, fg = fields(ref), fields(got)
  for name in fr:
    r, g = fr[name], fg[name]
    if zero_like_ok is not None:
      require(g.shape in zero_like_ok[name], clause + ':shape',
              f'{what}: {name} shape {g.shape} not in {zero_like_ok[name]}')
      require(bool(np.isfinite(g).all()) and not g.any(), clause + ':not_zero',
              f'{what}: {name}={g.tolist()} for an input without real examples')
      continue
    require(g.shape == r.shape, clause + ':shape',
            f'{what}: {name} shape {g.shape} vs reference {r.shape}')
    require(bool(np.isfinite(g).all()), clause + ':not_finite',
            f'{what}: {name}={g.tolist()}')
    ex = exact or name == 'weight'
    require(close(r, g, ex, span), clause + ':' + name,
            lambda: f'{what}: {name}={g.tolist()} vs reference {r.tolist()}')


def compare_results(ref, got, exact, span, clause, what, zero_shapes=None):
  ref = np.asarray(ref)
  got = np.asarray(got)
  if zero_shapes is not None:
    require(got.shape in zero_shapes, clause + ':shape',
            f'{what}: result shape {got.shape} not in {zero_shapes}')
    require(bool(np.isfinite(got).all()) and not got.any(), clause + ':not_zero',
            f'{what}: result {got.tolist()} for an input without real examples')
    return
  require(got.shape == ref.shape, clause + ':shape',
          f'{what}: result shape {got.shape} vs reference {ref.shape}')
  require(bool(np.isfinite(got).all()), clause + ':not_finite',
          f'{what}: result {got.tolist()}')
  require(close(ref, got, exact, span, ulps=4), clause + ':value',
          lambda: f'{what}: result {got.tolist()} vs reference {ref.tolist()}')


def same_bits(a, b):
  """Same shapes and == values (-0.0 == 0.0) in every field."""
  fa, fb = fields(a), fields(b)
  return all(fa[k].shape == fb[k].shape and
             np.array_equal(fa[k], fb[k], equal_nan=True) for k in fa)


# ------------------------------------------------------------ check: batches


def run_batch_merge(case):
  """One metric: evaluate_batch per batch, merged, vs the one-by-one fold."""
  validate(case)
  fam, c, t = case['family'], case['C'], case.get('T', 0)
  name, pd = case['metric'], case['pd']
  metric = build_metric(fam, name, pd, c, t)
  exact = is_exact(fam, name)
  span = logit_span(case)
  ex, batches = build_batches(case)
  cls = type(metric.base if pd else metric).__name__

  zero = metric.zero()
  zres = np.asarray(zero.result())
  require(bool(np.isfinite(zres).all()) and not zres.any(), 'zero:result_not_0',
          f'{cls}: zero().result() = {zres.tolist()}')

  # 1. evaluate_batch on every batch exactly as given.
  batch_stats = []
  for feats, mask, _ in batches:
    if mask.all() and not case['mask_key']:
      batch_stats.append(M.evaluate_batch(metric, feats, feats['pred']))
    else:
      batch_stats.append(M.evaluate_batch(metric, feats, feats['pred'], mask))

  # 2. single-example statistics and the Metric/Stat laws on them.
  # (jnp arrays, as in the documentation's examples of evaluate_example)
  jex = [{k: jnp.asarray(v) for k, v in e.items()} for e in ex]
  singles = [metric.evaluate_example(e, e['pred']) for e in jex]
  for i, v in enumerate(singles):
    require(type(v) is type(zero), 'metric_laws:type',
            f'{cls}: zero() is {type(zero).__name__}, statistic {type(v).__name__}')
    for side, w in (('zero.merge(v)', zero.merge(v)), ('v.merge(zero)', v.merge(zero))):
      require(same_bits(w, v), 'metric_laws:zero_not_identity',
              lambda: f'{cls}: {side} = {show(w)} but v = {show(v)} (example {i})')
  for i in range(min(len(singles), 4) - 1):
    a, b = singles[i], singles[i + 1]
    require(same_bits(a.merge(b), b.merge(a)), 'metric_laws:not_commutative',
            f'{cls}: examples {i},{i + 1}')
    if i + 2 < len(singles):
      cc = singles[i + 2]
      compare_stats(a.merge(b.merge(cc)), a.merge(b).merge(cc), exact, span,
                    'metric_laws:not_associative', f'{cls}: examples {i}..{i + 2}')

  def fold(idx):
    s = zero
    for i in idx:
      s = s.merge(singles[i])
    return s

  # Merging single-example statistics directly (no zero involved) must agree
  # with the one-by-one fold from zero(): (z+a)+b = z+(a+b) = a+b by
  # associativity and identity.  (A statistic whose fields are not numbers of
  # the zero's kind -- e.g. bools, for which + is OR -- passes the laws among
  # examples alone but fails here.)
  for i in range(min(len(singles), 4) - 1):
    direct = singles[i].merge(singles[i + 1])
    compare_stats(fold([i, i + 1]), direct, exact, span,
                  'metric_laws:direct_merge_differs_from_fold_from_zero',
                  f'{cls}: examples {i},{i + 1}')
    if i + 2 < len(singles):
      direct3 = direct.merge(singles[i + 2])
      compare_stats(fold([i, i + 1, i + 2]), direct3, exact, span,
                    'metric_laws:direct_merge_differs_from_fold_from_zero',
                    f'{cls}: examples {i}..{i + 2}')

  # shapes accepted for an input without real rows (per-position: see
  # ASSUMPTIONS): zero()'s own shape or the shape of a statistic.
  probe = case['pads'][0] if case['pads'] else (case['examples'][0] if case['examples'] else None)
  zshape = {k: [v.shape] for k, v in fields(zero).items()}
  zres_shapes = [zres.shape]
  if probe is not None:
    pe = {k: jnp.asarray(v) for k, v in row_arrays(fam, probe).items()}
    ps = metric.evaluate_example(pe, pe['pred'])
    for k, v in fields(ps).items():
      zshape[k].append(v.shape)
    zres_shapes.append(np.asarray(ps.result()).shape)

  # 3. each batch equals the fold over its own real rows.
  for bi, ((feats, mask, idx), bs) in enumerate(zip(batches, batch_stats)):
    what = f'{cls} batch {bi} (size {len(mask)}, real {len(idx)})'
    compare_stats(fold(idx), bs, exact, span, 'evaluate_batch', what,
                  zero_like_ok=None if idx else zshape)
    if not idx:
      compare_results(zres, bs.result(), exact, span, 'fully_masked', what,
                      zero_shapes=zres_shapes)

  # 4. merged in batch order == fold over all examples in canonical order.
  total = zero
  for bs in batch_stats:
    total = total.merge(bs)
  ref = fold(range(len(ex)))
  what = f'{cls} over {len(ex)} examples in {len(batches)} batches'
  empty = not ex
  compare_stats(ref, total, exact, span, 'merged', what,
                zero_like_ok=zshape if empty else None)
  compare_results(ref.result(), total.result(), exact, span, 'merged_result', what,
                  zero_shapes=zres_shapes if empty else None)
  # and in reverse batch order (commutativity at the batch level)
  rev = zero
  for bs in reversed(batch_stats):
    rev = rev.merge(bs)
  compare_results(ref.result(), rev.result(), exact, span, 'merged_reversed', what,
                  zero_shapes=zres_shapes if empty else None)


# ---------------------------------------------- check: an infinite real loss

INF_METRICS = {'cls': ['ce'], 'seq': ['tok_ce', 'seq_ce']}


def run_infinite_loss(case):
  """A REAL example whose target has logit -inf (probability 0: a label outside
  a restricted output vocabulary) has cross entropy +inf, and so has every mean
  it is part of -- whether the statistics are merged example by example or the
  examples are evaluated as (padded) batches, directly, through evaluate_model
  or through ModelEvaluator.  (A masked row like that contributes nothing; that
  is part of the other checks.)"""
  validate(case)
  fam, c, t = case['family'], case['C'], case.get('T', 0)
  name = case['metric']
  metric = build_metric(fam, name, 0, c, t)
  cls = type(metric).__name__
  ex, batches = build_batches(case)
  jex = [{k: jnp.asarray(v) for k, v in e.items()} for e in ex]
  s = metric.zero()
  for e in jex:
    s = s.merge(metric.evaluate_example(e, e['pred']))
  want = np.asarray(s.result(), np.float64)
  require(bool(np.isposinf(want).all()), 'harness:reference_not_infinite', f'{cls}: {want.tolist()}')
  got = {}
  b = metric.zero()
  for feats, mask, _ in batches:
    b = b.merge(M.evaluate_batch(metric, feats, feats['pred'], mask))
  got['evaluate_batch, merged'] = b.result()
  menu = ((name, 0),)
  user_batches = [with_mask(case, feats, mask) for feats, mask, _ in batches]
  model = build_model(fam, c, t, menu)
  got['evaluate_model'] = fedjax.evaluate_model(model, None, user_batches)[key_of(name, 0)]
  out = dict(build_evaluator(fam, c, t, menu).evaluate_global_params(None, [(b'c', user_batches)]))
  got['ModelEvaluator'] = out[b'c'][key_of(name, 0)]
  for path, res in got.items():
    r = np.asarray(res, np.float64)
    require(r.shape == want.shape and bool(np.isposinf(r).all()),
            'infinite_loss:mean_over_an_infinite_loss_is_not_infinite',
            lambda: f'{cls} via {path}: {r.tolist()}; merging the single-example statistics '
                    f'gives {want.tolist()}')
  return []


@st.composite
def infinite_loss_case(draw, tier):
  family, c, t = draw(shape_strategy())
  case = {'family': family, 'C': c, 'metric': draw(st.sampled_from(INF_METRICS[family]))}
  if family == 'seq':
    case['T'] = t
  while True:
    part = draw(partition_strategy(family, c, t, 6))
    if part['examples']:
      break
  row = part['examples'][draw(st.integers(0, len(part['examples']) - 1))]
  if family == 'cls':
    row['p'][row['y']] = '-inf'
  else:
    # every position carries a real (non-masked) target with logit -inf
    row['y'] = [max(1, y) for y in row['y']]
    for pos, y in enumerate(row['y']):
      row['p'][pos][y] = '-inf'
  case.update(part)
  return case


# -------------------------------------------------------------- check: model


def run_model_paths(case):
  """Whole menu in the mock model: evaluate_model / ModelEvaluator vs fold."""
  validate(case)
  fam, c, t = case['family'], case['C'], case.get('T', 0)
  menu = tuple((n, int(pd)) for n, pd in case['metrics']) if case.get('metrics') \
      else tuple(default_menu(fam, t, case.get('menu', 'full')))
  naming = case.get('naming', 'descriptive')
  names = metric_keys(menu, naming)
  pf = case.get('pred_form', 'array')
  model = build_model(fam, c, t, menu, naming, pf)
  span = logit_span(case)
  ex, batches = build_batches(case)
  user_batches = [with_mask(case, feats, mask) for feats, mask, _ in batches]

  def batch_bytes():
    return [sorted((k, str(np.asarray(v).dtype), np.asarray(v).shape, np.asarray(v).tobytes())
                   for k, v in b.items()) for b in user_batches]

  batches_before = batch_bytes()

  # fedjax under test first (so that an exception is attributed to it)
  results = {}
  if case.get('sibling_first') and len(menu) >= 2:
    # Another model evaluated on the same batches just before: same four
    # callables, same metric NAMES, but the names map to other metric objects
    # (the menu rotated by one).  What the model under test returns must be
    # decided by its own metrics, not by whatever was evaluated before it.
    sib_menu = sibling_menu(fam, c, t, menu)
    sibling = build_model(fam, c, t, sib_menu, naming, pf)
    if 'evaluate_model' in case['via']:
      fedjax.evaluate_model(sibling, None, user_batches)
    if 'evaluator' in case['via']:
      list(build_evaluator(fam, c, t, sib_menu, naming, 'default', pf).evaluate_global_params(
          None, [(b'sib', user_batches)]))
  if 'evaluate_model' in case['via']:
    results['evaluate_model'] = fedjax.evaluate_model(model, None, user_batches)
    # a generator is an Iterable too
    if case.get('as_generator'):
      results['evaluate_model(generator)'] = fedjax.evaluate_model(
          model, None, (b for b in user_batches))
  pb = case.get('padded_batch')
  if pb and ex:
    # the documented producer of padded batches (zero content, prefix mask,
    # final batch size from the bucket rule), over the examples in case order
    dataset = fedjax.ClientDataset({k: np.stack([e[k] for e in ex]) for k in ex[0]})
    view = dataset.padded_batch(batch_size=pb['batch_size'], num_batch_size_buckets=pb['buckets'])
    if pb['buckets'] % 2 == 0:
      # the caller looked at the first batch of the view before evaluating it
      next(iter(view), None)
    results['evaluate_model(padded_batch)'] = fedjax.evaluate_model(model, None, view)
  if 'evaluator' in case['via']:
    eb = case.get('evaluator_backend', 'default')
    if eb == 'pmap' and (len({len(b) for b in case['batches']}) > 1 or
                         len({tuple(sorted(b)) for b in user_batches}) > 1):
      # pmap stacks the j-th batches of a block: one batch shape and one
      # feature set (a batch without the mask key next to one with it cannot
      # be stacked)
      eb = 'default'
    evaluator = build_evaluator(fam, c, t, menu, naming, eb, pf)
    rev = list(reversed(user_batches))
    # the mock model ignores its params; pmap needs an array to map over
    params = jnp.zeros((1,), jnp.float32) if eb == 'pmap' else None
    fwd = user_batches
    if case.get('as_generator'):
      # a client's batches are an Iterable: a one-shot iterator and a generator
      # (what padded_batch_client_datasets hands out) are as good as a list
      fwd, rev = iter(user_batches), (b for b in rev)
    clients = [(b'fwd', fwd), (b'rev', rev)]
    if case.get('longer_neighbour'):
      # a third client in the same call with twice as many batches (on pmap:
      # in the same block, so the two others are padded with empty steps)
      clients.insert(case['longer_neighbour'] % 3, (b'twice', user_batches + user_batches))
    if case.get('per_client_params'):
      out = list(evaluator.evaluate_per_client_params(
          [(cid, bs, params) for cid, bs in clients]))
    else:
      out = list(evaluator.evaluate_global_params(params, clients))
    # jit and debug keep the input order; pmap may reorder clients
    by_id = dict(out)
    want_ids = [cid for cid, _ in clients]
    require(len(out) == len(clients) and sorted(by_id) == sorted(want_ids) and
            (eb == 'pmap' or [cid for cid, _ in out] == want_ids),
            'evaluator:client_ids', f'{[cid for cid, _ in out]}')
    results['evaluator[fwd]'] = by_id[b'fwd']
    results['evaluator[rev]'] = by_id[b'rev']

  # the caller's batches (dicts and arrays) are what they were: evaluating them
  # again, now or later, sees the same keys (mask included) and the same bytes
  require(batch_bytes() == batches_before, 'evaluate:caller_batches_modified',
          'a batch dict or one of its arrays was changed by the evaluation')

  # reference: one-by-one fold of single-example statistics from zero()
  f = per_example_fn(fam, c, t, menu)
  ref_model = build_model(fam, c, t, menu)
  ref = {k: m.zero() for k, m in ref_model.eval_metrics.items()}
  for e in ex:
    ref = merge_all(ref, f(e))
  probe_row = case['pads'][0] if case['pads'] else (case['examples'][0] if case['examples'] else None)
  probe = f(row_arrays(fam, probe_row)) if probe_row is not None else None
  empty = not ex

  for path, res in results.items():
    require(sorted(res.keys()) == sorted(model.eval_metrics.keys()), 'model:result_keys',
            f'{path}: {list(res.keys())}')
    for (n, pd), name in zip(menu, names):
      k = key_of(n, pd)
      cls = type(BASES[fam][n][0](c, t)).__name__
      want = np.asarray(ref[k].result())
      zshapes = None
      if empty:
        zshapes = [want.shape]
        if probe is not None:
          zshapes.append(np.asarray(probe[k].result()).shape)
      clause = ('evaluator' if path.startswith('evaluator') else 'evaluate_model')
      clause += ':empty' if empty else ''
      compare_results(want, res[name], is_exact(fam, n), span, f'{clause}:{cls}',
                      f'{path} metric {name!r} ({k}) over {len(ex)} examples in '
                      f'{[len(b) for b in case["batches"]]}', zero_shapes=zshapes)


# ---------------------------------------------------------- check: stat laws


def _arr(shape, flat):
  return np.asarray(flat, dtype=np.float32).reshape(shape) / np.float32(8.0)


def run_stat_laws(case):
  shape = tuple(case['shape'])
  kind = case['kind']
  raw = [{k: _arr(shape, v) for k, v in op.items()} for op in case['ops']]

  def make(r):
    return M.MeanStat.new(r['accum'], r['weight']) if kind == 'mean' else M.SumStat.new(r['accum'])

  stats = [make(r) for r in raw]
  # documented sanitisation of MeanStat.new (domain {(0,0)} u {(a,b): b>0})
  for r, s in zip(raw, stats):
    f = fields(s)
    if kind == 'mean':
      w = np.maximum(np.float32(0), r['weight'])
      a = np.where(w == 0, np.float32(0), r['accum'])
      require(f['weight'].shape == shape and np.array_equal(f['weight'], w),
              'new:weight_not_sanitized', f'{f["weight"].tolist()} from {r["weight"].tolist()}')
      require(f['accum'].shape == shape and np.array_equal(f['accum'], a),
              'new:accum_not_sanitized',
              f'accum {f["accum"].tolist()} from accum {r["accum"].tolist()} weight {r["weight"].tolist()}')
      res = np.asarray(s.result())
      want = np.where(w == 0, np.float32(0), a / np.where(w == 0, np.float32(1), w))
      require(res.shape == shape and bool(np.isfinite(res).all()), 'result:not_finite',
              f'{res.tolist()}')
      require(close(want, res, True, 0, ulps=4), 'result:value',
              f'{res.tolist()} vs {want.tolist()}')
    else:
      require(f['accum'].shape == shape and np.array_equal(f['accum'], r['accum']),
              'new:sum_changed', f'{f["accum"].tolist()}')
      require(np.array_equal(np.asarray(s.result()), r['accum']), 'result:value')
  a, b, c = stats
  zero = M.MeanStat.new(0., 0.) if kind == 'mean' else M.SumStat.new(0.)
  zfull = make({k: np.zeros(shape, np.float32) for k in raw[0]})
  for zname, z in (('scalar zero', zero), ('zeros', zfull)):
    require(same_bits(z.merge(a), a) and same_bits(a.merge(z), a),
            'laws:zero_not_identity', f'{zname}: {show(z.merge(a))} vs {show(a)}')
  require(same_bits(a.merge(b), b.merge(a)), 'laws:not_commutative',
          f'{show(a.merge(b))} vs {show(b.merge(a))}')
  # operands are multiples of 1/8 below 2^10: float32 sums are exact
  require(same_bits(a.merge(b).merge(c), a.merge(b.merge(c))), 'laws:not_associative',
          f'{show(a.merge(b).merge(c))} vs {show(a.merge(b.merge(c)))}')
  # merged statistic stays in the domain and yields the pooled mean
  m = a.merge(b)
  fm, fa, fb = fields(m), fields(a), fields(b)
  for k in fm:
    require(np.array_equal(fm[k], fa[k] + fb[k]), 'laws:merge_is_not_fieldwise_sum',
            f'{k}: {fm[k].tolist()} vs {(fa[k] + fb[k]).tolist()}')
  # reduce == fold of merge over the reduced axis
  if shape:
    red = a.reduce()
    acc = None
    for i in range(shape[0]):
      sl = make({k: np.asarray(fields(a)[k][i]) for k in fields(a)})
      acc = sl if acc is None else acc.merge(sl)
    require(same_bits(red, acc), 'reduce:not_fold_of_merge',
            f'{show(red)} vs {show(acc)}')
    alln = a.reduce(axis=None)
    tot = {k: np.asarray(v.sum(dtype=np.float32)) for k, v in fields(a).items()}
    require(same_bits(alln, make(tot)), 'reduce:axis_none', f'{show(alln)} vs {tot}')
    r = np.asarray(red.result())
    require(bool(np.isfinite(r).all()), 'reduce:result_not_finite', f'{r.tolist()}')


# ---------------------------------------------------------------- strategies

SCORE = st.one_of(st.integers(-3, 3), st.integers(-3, 3), st.integers(-32, 32),
                  st.sampled_from([-4096, 4096, 0, 1]))


@st.composite
def example_strategy(draw, family, c, t):
  if family == 'cls':
    y = draw(st.integers(0, c - 1))
    p = draw(st.lists(SCORE, min_size=c, max_size=c))
  else:
    if draw(st.integers(0, 5)) == 0:
      y = [0] * t        # fully masked sequence (default masked value)
    else:
      y = draw(st.lists(st.integers(0, c - 1), min_size=t, max_size=t))
    p = draw(st.lists(st.lists(SCORE, min_size=c, max_size=c), min_size=t, max_size=t))
  return {'y': y, 'p': p, 'd': draw(st.integers(0, 11))}


@st.composite
def partition_strategy(draw, family, c, t, nmax, force_empty=False):
  # two distinct padded sizes per case (every new batch shape is an XLA
  # compilation of the code under test)
  allowed = sorted(draw(st.sampled_from(
      [[a, b] for i, a in enumerate(SIZES) for b in SIZES[i + 1:]])))
  n = 0 if force_empty else draw(st.sampled_from(
      [0, 1, 2] + list(range(3, nmax + 1)) * 3))
  examples = [draw(example_strategy(family, c, t)) for _ in range(n)]
  pads = [draw(example_strategy(family, c, t)) for _ in range(draw(st.integers(1, 3)))]
  if draw(st.integers(0, 3)) == 0:
    # a padding row whose own statistics are not finite: its target class has
    # logit -inf (probability 0), so its cross entropy is +inf.  A valid input
    # of the metric; as a masked row it must not contribute anything.
    row = pads[draw(st.integers(0, len(pads) - 1))]
    if family == 'cls':
      row['p'][row['y']] = '-inf'
    else:
      for pos, y in enumerate(row['y']):
        row['p'][pos][y] = '-inf'
  order = list(draw(st.permutations(list(range(n)))))
  style = draw(st.sampled_from(['prefix', 'prefix', 'any', 'any', 'tight']))
  batches = []
  pos = 0
  while pos < n:
    rmax = min(allowed[-1], n - pos)
    r = draw(st.one_of(st.integers(1, min(3, rmax)), st.integers(1, rmax)))
    real = order[pos:pos + r]
    pos += r
    fits = [s for s in allowed if s >= r]
    size = fits[0] if style == 'tight' else draw(st.sampled_from(fits))
    rows = real + [-draw(st.integers(1, len(pads))) for _ in range(size - r)]
    if style == 'any' and size > r:
      rows = list(draw(st.permutations(rows)))
    batches.append(rows)
  extra = draw(st.integers(1, 3)) if force_empty else draw(st.sampled_from([0, 0, 1, 1, 2]))
  if force_empty and draw(st.integers(0, 4)) == 0:
    extra = 0            # really empty: no batch at all
  for _ in range(extra):
    size = draw(st.sampled_from(allowed))
    rows = [-draw(st.integers(1, len(pads))) for _ in range(size)]
    batches.insert(draw(st.integers(0, len(batches))), rows)
  return {'examples': examples, 'pads': pads, 'batches': batches,
          'mask_key': draw(st.booleans())}


QUICK_MODEL_SHAPES = [('cls', 3, 0), ('seq', 3, 3), ('seq', 2, 1), ('seq', 5, 4)]


@st.composite
def shape_strategy(draw, tier='thorough', for_model=False):
  if for_model and tier == 'quick':
    # every C and every T, but 4 instead of 12 models to compile per shard
    return draw(st.sampled_from(QUICK_MODEL_SHAPES))
  family = draw(st.sampled_from(['cls', 'seq', 'seq']))
  c = draw(st.sampled_from([2, 3, 5]))
  t = draw(st.sampled_from([1, 3, 4])) if family == 'seq' else 0
  return family, c, t


@st.composite
def batch_case_strategy(draw, tier, force_empty=False):
  family, c, t = draw(shape_strategy())
  names = sorted(BASES[family])
  # per-position instances twice: their statistic shape differs from zero()'s
  name = draw(st.sampled_from(names + [n for n in names if BASES[family][n][1]]))
  pds = [pd for pd in (0, 0, 1, 2, 3, 4) if not known_excluded(family, name, pd, t)]
  pd = draw(st.sampled_from(pds))
  case = {'family': family, 'C': c}
  if family == 'seq':
    case['T'] = t
  case.update({'metric': name, 'pd': pd})
  case.update(draw(partition_strategy(family, c, t, 10 if tier == 'quick' else 16,
                                      force_empty)))
  return case


@st.composite
def model_case_strategy(draw, tier, force_empty=False):
  family, c, t = draw(shape_strategy(tier, for_model=True))
  case = {'family': family, 'C': c}
  if family == 'seq':
    case['T'] = t
  case['menu'] = 'core' if tier == 'quick' else draw(st.sampled_from(['core', 'full']))
  case['via'] = draw(st.sampled_from([['evaluate_model'], ['evaluate_model'],
                                      ['evaluator'],
                                      ['evaluate_model', 'evaluator']]))
  case['per_client_params'] = draw(st.booleans())
  case['as_generator'] = draw(st.booleans())
  case['pred_form'] = draw(st.sampled_from(['array', 'array', 'array', 'dict2', 'dict3']))
  case['mask_dtype'] = draw(st.sampled_from(['bool', 'bool', 'int32', 'uint8']))
  if 'evaluator' in case['via']:
    pick = draw(st.integers(0, 5))
    if pick == 0:
      case['evaluator_backend'] = 'debug'
    elif pick in (1, 2):
      # (takes effect when all batches of the case have one padded size)
      case['evaluator_backend'] = 'pmap'
    if draw(st.integers(0, 2)) == 0:
      case['longer_neighbour'] = draw(st.integers(1, 3))
  if draw(st.integers(0, 2)) == 0:
    # position-only metric names, and another model with the same names but
    # other metrics is evaluated on the same batches first
    case['naming'] = 'generic'
    case['sibling_first'] = True
  case.update(draw(partition_strategy(family, c, t, 10 if tier == 'quick' else 16,
                                      force_empty)))
  n = len(case['examples'])
  if (case.get('evaluator_backend') == 'pmap' and not force_empty and n >= 1
      and draw(st.integers(0, 1)) == 0):
    # what ClientDataset.batch() produces: full batches of one size, no mask
    # key (the layout the pmap backend can stack); examples in drawn order
    size = draw(st.sampled_from([z for z in SIZES if z <= n]))
    keep = n - n % size
    case['examples'] = case['examples'][:keep]
    case['batches'] = [list(range(at, at + size)) for at in range(0, keep, size)]
    case['mask_key'] = False
    case['longer_neighbour'] = draw(st.integers(1, 3))
  if not force_empty and draw(st.integers(0, 3)) == 0:
    used = sorted({len(b) for b in case['batches']}) or SIZES
    case['padded_batch'] = {'batch_size': draw(st.sampled_from(used)),
                            'buckets': draw(st.integers(1, 4))}
  return case


@st.composite
def empty_case_strategy(draw, tier):
  if draw(st.integers(0, 2)) > 0:
    case = draw(batch_case_strategy(tier, force_empty=True))
    case['check'] = 'batch'
  else:
    case = draw(model_case_strategy(tier, force_empty=True))
    case['check'] = 'model'
  return case


def run_empty(case):
  return run_batch_merge(case) if case['check'] == 'batch' else run_model_paths(case)


W8 = st.one_of(st.sampled_from([0, 0, 8, 8, 16, -8, -1]), st.integers(0, 64))
A8 = st.one_of(st.sampled_from([0, 8, 1]), st.integers(0, 1024))


@st.composite
def stat_case_strategy(draw, tier):
  kind = draw(st.sampled_from(['mean', 'mean', 'sum']))
  shape = draw(st.sampled_from([[], [3], [2, 3], [4]]))
  n = int(np.prod(shape)) if shape else 1
  ops = []
  for _ in range(3):
    op = {'accum': draw(st.lists(A8, min_size=n, max_size=n))}
    if kind == 'mean':
      op['weight'] = draw(st.lists(W8, min_size=n, max_size=n))
    ops.append(op)
  return {'kind': kind, 'shape': shape, 'ops': ops}


# -------------------------------------------------------------------- labels


def _row_nonzero(row):
  return bool(np.asarray(row['y']).any() or _scores(row['p']).any())


def eval_labels(case):
  ls = [case['family'], f'C={case["C"]}']
  t = case.get('T', 0)
  if t:
    ls.append(f'T={t}')
  if 'metric' in case:
    fam = case['family']
    cls = type(BASES[fam][case['metric']][0](case['C'], t)).__name__
    ls.append('metric:' + cls)
    if case['pd']:
      ls.append('per_domain')
    if BASES[fam][case['metric']][1]:
      ls.append('per_position')
      ls.append('excluded_known:perdomain-per-position')
  elif 'via' in case:
    ls += ['via:' + v for v in case['via']]
    if case.get('sibling_first'):
      ls.append('same_names_other_metrics_model_evaluated_first')
    if case.get('pred_form', 'array') != 'array':
      ls.append('mapping_valued_prediction')
    if case.get('mask_dtype', 'bool') != 'bool':
      ls.append('mask_stored_as_0/1_integers')
    if case.get('evaluator_backend') == 'debug':
      ls.append('evaluator_on_debug_backend')
    if (case.get('evaluator_backend') == 'pmap' and len({len(b) for b in case['batches']}) <= 1
        and (case['mask_key'] or len({any(r < 0 for r in b) for b in case['batches']}) <= 1)):
      ls.append('evaluator_on_pmap_backend')
      if case.get('longer_neighbour'):
        ls.append('pmap_block_with_clients_of_different_length')
    if case.get('padded_batch') and case['examples']:
      ls.append('via:ClientDataset.padded_batch')
    if case['family'] == 'seq':
      ls.append('excluded_known:perdomain-per-position')
  n = len(case['examples'])
  ls.append('examples=0' if n == 0 else ('examples=1' if n == 1 else 'examples>=2'))
  sizes = {len(b) for b in case['batches']}
  if not case['batches']:
    ls.append('no_batches')
  if len(sizes) >= 2:
    ls.append('padded_sizes>=2')
  pad_nonzero = any(_row_nonzero(case['pads'][-r - 1])
                    for b in case['batches'] for r in b if r < 0)
  if pad_nonzero:
    ls.append('padding_content_nonzero')
  if any('-inf' in (r['p'] if not isinstance(r['p'][0], list) else sum(r['p'], []))
         for r in case['pads']) and any(x < 0 for b in case['batches'] for x in b):
    ls.append('padding_row_with_infinite_own_statistic')
  if any(all(r < 0 for r in b) for b in case['batches']):
    ls.append('all_padding_batch')
  if any(any(r < 0 for r in b) and any(r >= 0 for r in b) and
         [r >= 0 for r in b] != sorted([r >= 0 for r in b], reverse=True)
         for b in case['batches']):
    ls.append('non_prefix_mask')
  if not case['mask_key'] and any(all(r >= 0 for r in b) for b in case['batches']):
    ls.append('batch_without_mask_key')
  if case['family'] == 'seq' and any(not np.asarray(r['y']).any() for r in case['examples']):
    ls.append('fully_masked_sequence')
  return ls


def eval_nontrivial(case, ls):
  return (('padded_sizes>=2' in ls and 'padding_content_nonzero' in ls) or
          'all_padding_batch' in ls)


def stat_labels(case):
  ls = [case['kind'], 'shape=' + 'x'.join(map(str, case['shape'])) if case['shape'] else 'shape=()']
  if case['kind'] == 'mean':
    for op in case['ops']:
      if any(w <= 0 and a != 0 for a, w in zip(op['accum'], op['weight'])):
        ls.append('out_of_domain_accum')
      if any(w < 0 for w in op['weight']):
        ls.append('negative_weight')
      if any(w == 0 for w in op['weight']):
        ls.append('zero_weight')
  return sorted(set(ls))


def stat_nontrivial(case, ls):
  ops = case['ops']
  return 'out_of_domain_accum' in ls or not (ops[0] == ops[1] == ops[2])


CHECKS = [
    Check(name='batch_merge', run=run_batch_merge,
          strategy=batch_case_strategy, labels=eval_labels,
          nontrivial=eval_nontrivial,
          budget={'quick': 512, 'thorough': 9600}, time_share=2.0,
          doc='one metric: evaluate_batch (with / without mask) per batch == fold '
              'of its real rows; merged in batch order and reversed == fold of '
              'all single-example statistics from zero(); zero() identity, '
              'commutativity and associativity on the per-example statistics'),
    Check(name='model_paths', run=run_model_paths,
          strategy=model_case_strategy, labels=eval_labels,
          nontrivial=eval_nontrivial,
          budget={'quick': 288, 'thorough': 6400}, time_share=5.0,
          doc='whole metric menu in the mock model of the docs: '
              'fedjax.evaluate_model and ModelEvaluator.evaluate_global_params / '
              'evaluate_per_client_params (batch list forward and reversed) == '
              'the one-by-one fold, for every metric'),
    Check(name='empty_or_fully_masked', run=run_empty,
          strategy=empty_case_strategy, labels=eval_labels,
          nontrivial=lambda case, ls: True,
          budget={'quick': 160, 'thorough': 3000}, time_share=2.0,
          doc='no example at all (no batch, or only all-padding batches with '
              'arbitrary content): every path yields zero().result() == 0, finite'),
    Check(name='infinite_loss_example', run=run_infinite_loss,
          strategy=infinite_loss_case,
          labels=lambda c: ['family:' + c['family'], 'metric:' + c['metric'],
                            'examples=%d' % min(len(c['examples']), 3)],
          nontrivial=lambda c, ls: len(c['examples']) >= 2,
          budget={'quick': 96, 'thorough': 2000}, time_share=0.7,
          doc='one real example has a target of probability 0 (cross entropy +inf): the '
              'mean loss is +inf via merged single-example statistics, evaluate_batch, '
              'evaluate_model and ModelEvaluator alike'),
    Check(name='stat_laws', run=run_stat_laws,
          strategy=stat_case_strategy, labels=stat_labels,
          nontrivial=stat_nontrivial,
          budget={'quick': 1600, 'thorough': 40000}, time_share=1.0,
          doc='MeanStat/SumStat on generated raw values: new() sanitisation, '
              'result (0 for weight 0, finite), identity, commutativity, '
              'associativity, merge = field-wise sum, reduce = fold of merge'),
]
