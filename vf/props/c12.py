"""C12 -- Degenerate hyper-parameters reduce every algorithm to FedAvg.

Differential oracle between two fedjax algorithms run side by side from the same
initial parameters over the same multi-round cohorts (FedProx mu=0, HypCluster
with one cluster, MimeLite with plain SGD and server lr 1, APFL's global model),
and float64 references for FedProx mu>0 (FedAvg on the proximally augmented
loss) and Mime with one local SGD step (one full-batch gradient step).
The problem generator and the float64 FedAvg reference are those of C01.
"""
import numpy as np
from hypothesis import strategies as st

import jax
import jax.numpy as jnp

import fedjax
from fedjax.algorithms import apfl as apfl_lib
from fedjax.algorithms import fed_prox as fed_prox_lib
from fedjax.algorithms import hyp_cluster as hyp_lib
from fedjax.algorithms import mime as mime_lib
from fedjax.algorithms import mime_lite as mime_lite_lib

from vf.core import Check, require
from vf.props import c01

PROPERTY_ID = 'C12'
NEEDS_TF = False
LEVEL = 'exploration'
RULE = ('The C01 problem generator (pool of 1-6 clients with dyadic data, '
        'optimizers with step sizes 2^-j, batching hparams with a fixed integer '
        'seed, 1-3 rounds with fresh cohorts, clients may return) plus the '
        'relation under test; every cohort holds at least one example (the FedProx '
        'relations also see rounds without any example). '
        'Non-trivial: some round has >=2 clients of different sizes with a size '
        'not divisible by batch_size, and the history has >=2 rounds.')
RULE += (
    ' '
    'Later widenings: cohorts that list one client twice; a third of the histories first try '
    'a round from the current state over the same ids with other data and throw it away; key-'
    'using losses for FedProx(0) and MimeLite; regularizer variants; a user-defined client op'
    'timizer that keeps the values it was started from; example-free rounds for the FedProx r'
    'elations.')
ASSUMPTIONS = [
    'rng-independent least-squares loss for the HypCluster(1) and APFL relations '
    '(HypCluster spends part of the client key on the cluster-assignment pass, '
    'APFL is restricted by the statement); the FedProx(0) and MimeLite relations '
    'are also run with a loss that uses its key (observed and asserted: both hand '
    'the client key to the local steps as FedAvg does); batching seed is '
    'a fixed integer. The Mime one-step clause is additionally run with a loss '
    'that uses its key (gradient shift g(key) * mean_batch(x)): there only the '
    'consequence "the result does not depend on which local batch was drawn" is '
    'asserted (two runs differing in local batch size and shuffling seed agree '
    'to 2e-6 * scale), because the exact cancellation of the two mini-batch '
    'gradients needs the same batch AND the same key',
    'two fedjax algorithms run side by side are compared with tolerance '
    '2e-6 * (1 + max |param|) (observed differences are exactly 0 for most '
    'relations); float64 references use the C01 tolerances',
    'HypCluster(1 cluster) is compared only on cohorts with >=1 example (an '
    'all-empty round legitimately leaves its optimizer untouched); MimeLite '
    'and Mime need a non-empty cohort (tree_sum of nothing is undefined)',
    'with the pmap backend the padded gradient/evaluation passes use one '
    'batch-size bucket (pmap stacks the j-th batches of several clients, which '
    'requires uniformly shaped batches)',
    'Mime clause: base optimizer plain SGD, exactly one local step per client '
    '(num_steps=1, num_epochs=None), all clients of the cohort non-empty',
]


def per_example_loss(params, batch, rng):
  return c01.per_example_loss(params, batch, rng)


def grads_hparams(case):
  g = case['grads_hparams']
  return fedjax.PaddedBatchHParams(batch_size=g['batch_size'],
                                   num_batch_size_buckets=g['buckets'])


def l2_half(params):
  # 1/8 * |params|^2, dyadic
  return 0.125 * sum(jnp.sum(jnp.square(v)) for v in jax.tree_util.tree_leaves(params))


GRAD_REG = fedjax.grad(c01.per_example_loss, l2_half)
GRAD_NOISY_REG = fedjax.grad(c01.noisy_per_example_loss, l2_half)


def loss_of(case):
  """The statement restricts only the APFL clause to key-ignoring losses."""
  return c01.noisy_per_example_loss if case.get('noisy') else c01.per_example_loss


def anchored_sgd(lr):
  """A user-defined fedjax.optimizers.Optimizer whose state is read from the
  VALUES it is initialised with (SGD with a pull of 1/2 towards the point where
  the optimizer was started -- the shape of lookahead / proximal optimizers)."""
  def init(params):
    return jax.tree_util.tree_map(jnp.asarray, params)

  def apply(grads, anchor, params):
    new = jax.tree_util.tree_map(lambda p, g, a: p - lr * (g + 0.5 * (p - a)),
                                 params, grads, anchor)
    return anchor, new

  return fedjax.optimizers.Optimizer(init, apply)


def build(case, which):
  """Builds one of the algorithms on the jit backend."""
  hp = c01.hparams_of(case['hparams'])
  reg = l2_half if case.get('reg') else None
  copt = c01.fj_optimizer(case['client_opt'])
  if case.get('anchored_client_opt'):
    copt = anchored_sgd(2.0 ** -case['client_opt']['lr_exp'])
  sopt = c01.fj_optimizer(case['server_opt'])
  with fedjax.for_each_client_backend(c01.backend_of(case['backend'])):
    if which == 'fedavg':
      # (with a regularizer: FedAvg on mean loss + regularizer)
      noisy = bool(case.get('noisy'))
      grad = (GRAD_NOISY_REG if noisy else GRAD_REG) if reg else c01.GRAD[noisy]
      return fedjax.algorithms.fed_avg.federated_averaging(grad, copt, sopt, hp)
    if which == 'fedprox':
      return fed_prox_lib.fed_prox(loss_of(case), copt, sopt, hp,
                                   proximal_weight=case['mu'] / 8.0)
    if which == 'hyp1':
      return hyp_lib.hyp_cluster(loss_of(case), copt, sopt, grads_hparams(case), hp,
                                 regularizer=reg)
    if which == 'mimelite':
      # a clip bound that no update reaches changes nothing
      clip = float(2 ** 20) if case.get('clip') else None
      return mime_lite_lib.mime_lite(loss_of(case), copt, hp, grads_hparams(case),
                                     server_learning_rate=1.0, regularizer=reg,
                                     client_delta_clip_norm=clip)
    if which == 'mime':
      return mime_lib.mime(per_example_loss, copt, hp, grads_hparams(case),
                           server_learning_rate=2.0 ** -case['server_lr_exp'])
    if which == 'apfl':
      return apfl_lib.adaptive_personalized_federated_learning(
          c01.GRAD[False], copt, sopt, hp, client_coefficient=case['coefficient'] / 8.0)
  raise ValueError(which)


def params_of(which, state):
  if which == 'hyp1':
    return c01.to_np(state.cluster_params[0])
  return c01.to_np(state.params)


def run_pair(case, which):
  """Runs `which` and FedAvg side by side; returns (their params, FedAvg's) per round."""
  d = case['d']
  datasets = [c01.make_dataset(c, d) for c in case['pool']]
  a = build(case, which)
  b = build(case, 'fedavg')
  p0 = c01.init_params(case)
  sa = a.init([p0]) if which == 'hyp1' else a.init(p0)
  sb = b.init(p0)
  out = []
  for rnd in case['rounds']:
    clients = c01.cohort(case, rnd, datasets)
    if case.get('probe') and clients:
      # a round that is tried from this state first and thrown away: the state
      # it started from is still the state
      a.apply(sa, probe_clients(clients, case['hparams']['seed'] % 2 == 0))
    sa, da = a.apply(sa, clients)
    sb, db = b.apply(sb, clients)
    require(set(da) == set(db) == {c[0] for c in clients}, 'diagnostics_keys',
            f'{which}: {sorted(da)} vs {sorted(db)}')
    out.append((params_of(which, sa), c01.to_np(sb.params)))
  return out


def differential(which, clause):
  def run(case):
    res = run_pair(case, which)
    extra = []
    for r, (got, want) in enumerate(res):
      scale = 1.0 + max(float(np.max(np.abs(v))) for v in want.values())
      tol = 2e-6 * scale
      require(c01.close(got, want, tol), clause,
              lambda: f'round {r}: {which} vs FedAvg differ by {c01.diff(got, want):.3e} '
                      f'(tol {tol:.1e}); {got} vs {want}')
      if c01.diff(got, want) == 0.0:
        extra.append('bit_equal_round')
    return extra
  return run


class ProxReference(c01.Reference):
  """FedAvg on loss + 0.5*mu*||w - w_server||^2 (w_server = the round's server params)."""

  def round(self, rnd, datasets):
    self._server = dict(self.params)
    return super().round(rnd, datasets)

  def grad(self, params, batch):
    g = c01.ref_grad(params, batch)
    mu = self.case['mu'] / 8.0
    return {k: g[k] + mu * (params[k] - self._server[k]) for k in g}


def probe_clients(clients, reverse=True):
  """The cohort of a discarded trial round over the same client ids but other
  data: in reverse order with each id holding its neighbour's dataset and key,
  or in the same order with each id holding the first half of its examples (a
  fresh slice of every client's data)."""
  ids = [c[0] for c in clients]
  if len(set(ids)) < len(ids):
    # (a cohort that lists an id twice: keep every id with its own dataset)
    return list(reversed(clients))
  if not reverse:
    return [(i, ds[:(len(ds) + 1) // 2], key) for i, ds, key in clients]
  rest = clients[1:] + clients[:1]
  return [(i, ds, key) for i, (_, ds, key) in zip(ids[::-1], rest)]


def run_fedprox_mu(case):
  d = case['d']
  datasets = [c01.make_dataset(c, d) for c in case['pool']]
  alg = build(case, 'fedprox')
  state = alg.init(c01.init_params(case))
  ref = ProxReference(case)
  adaptive = any(case[o]['name'] in ('adam', 'adagrad', 'rmsprop') for o in ('client_opt', 'server_opt'))
  for r, rnd in enumerate(case['rounds']):
    clients = c01.cohort(case, rnd, datasets)
    if case.get('probe') and clients:
      alg.apply(state, probe_clients(clients, case['hparams']['seed'] % 2 == 0))
    state, _ = alg.apply(state, clients)
    want = ref.round(rnd, datasets)
    got = c01.to_np(state.params)
    tol = (1e-4 if adaptive else 2e-5) * ref.scale
    require(c01.close(got, want, tol), 'fedprox_differs_from_fedavg_on_augmented_loss',
            lambda: f'round {r}: mu={case["mu"] / 8.0}: differ by {c01.diff(got, want):.3e} '
                    f'(tol {tol:.1e}); got {got} want {want}')
  return ['multi_step'] if max(ref.steps.values(), default=0) >= 2 else []


def run_mime_one_step(case):
  d = case['d']
  datasets = [c01.make_dataset(c, d) for c in case['pool']]
  alg = build(case, 'mime')
  state = alg.init(c01.init_params(case))
  lr = 2.0 ** -case['client_opt']['lr_exp']
  eta = 2.0 ** -case['server_lr_exp']
  w = {'w': np.asarray(case['w0'], np.float64) / 8.0, 'b': np.float64(case['b0'] / 8.0)}
  for r, rnd in enumerate(case['rounds']):
    clients = c01.cohort(case, rnd, datasets)
    if case.get('probe') and clients:
      alg.apply(state, probe_clients(clients, case['hparams']['seed'] % 2 == 0))
    state, _ = alg.apply(state, clients)
    # full-batch gradient over all examples of the cohort at w
    xs = np.concatenate([np.asarray(datasets[i].raw_examples['x'], np.float64) for i, _ in rnd])
    ys = np.concatenate([np.asarray(datasets[i].raw_examples['y'], np.float64) for i, _ in rnd])
    g = c01.ref_grad(w, {'x': xs, 'y': ys})
    w = {k: w[k] - eta * lr * g[k] for k in w}
    got = c01.to_np(state.params)
    scale = 1.0 + max(float(np.max(np.abs(v))) for v in w.values())
    require(c01.close(got, w, 2e-5 * scale), 'mime_one_step_not_full_batch_gradient_step',
            lambda: f'round {r}: differ by {c01.diff(got, w):.3e}; got {got} want {w}')
  return []


def keyed_per_example_loss(params, batch, rng):
  # + g(rng) * (w . x): the gradient wrt w shifts by g(rng) * mean_batch(x), a
  # term that depends on BOTH the key and the batch the loss is evaluated on
  g = jax.random.randint(rng, (), -4, 5).astype(jnp.float32) / 4.0
  return c01.per_example_loss(params, batch, rng) + g * (batch['x'] @ params['w'])


def run_mime_one_step_keyed(case):
  """Mime(SGD, one local step) with a loss that uses its key.  The local step is
  base_opt(g(w0; batch, key) - g(w0; batch, key) + full-batch gradient): the two
  mini-batch terms are the same computation and cancel exactly, so the round's
  result cannot depend on WHICH local batch was drawn.  Two runs that differ
  only in the local batching (batch size, shuffling seed) must agree."""
  d = case['d']
  datasets = [c01.make_dataset(c, d) for c in case['pool']]
  states, algs = [], []
  for alt in (False, True):
    hp = dict(case['hparams'])
    if alt:
      hp.update(case['alt_hparams'])
    with fedjax.for_each_client_backend(c01.backend_of(case['backend'])):
      alg = mime_lib.mime(keyed_per_example_loss, c01.fj_optimizer(case['client_opt']),
                          c01.hparams_of(hp), grads_hparams(case),
                          server_learning_rate=2.0 ** -case['server_lr_exp'])
    algs.append(alg)
    states.append(alg.init(c01.init_params(case)))
  for r, rnd in enumerate(case['rounds']):
    clients = c01.cohort(case, rnd, datasets)
    got = []
    for k in (0, 1):
      states[k], _ = algs[k].apply(states[k], clients)
      got.append(c01.to_np(states[k].params))
    scale = 1.0 + max(float(np.max(np.abs(v))) for v in got[0].values())
    require(c01.close(got[1], got[0], 2e-6 * scale),
            'mime_one_step_depends_on_the_local_batch',
            lambda: f'round {r}: local batching {case["hparams"]} vs {case["alt_hparams"]}: '
                    f'differ by {c01.diff(got[1], got[0]):.3e}; {got[0]} vs {got[1]}')
  return []


# ----------------------------------------------------------------- strategies

SGD_FAMILY = ['sgd', 'momentum', 'nesterov']


@st.composite
def case_strategy(draw, tier, relation):
  case = draw(c01.case_strategy(tier))
  d = case['d']
  sizes = [len(c['rows']) // (d + 1) for c in case['pool']]
  nonempty = [i for i, s in enumerate(sizes) if s > 0]
  if not nonempty:
    # give the first client one example
    case['pool'][0]['rows'] = [1] * (d + 1)
    sizes[0] = 1
    nonempty = [0]
  # every cohort must hold at least one example -- except for the FedProx
  # relations: FedProx, like FedAvg, must take a round without examples (the
  # server optimizer still sees a zero mean delta)
  if relation not in ('fedprox0', 'fedprox_mu'):
    for rnd in case['rounds']:
      if not any(sizes[i] > 0 for i, _ in rnd):
        rnd.append([nonempty[0], 11]) if nonempty[0] not in [i for i, _ in rnd] else None
    case['rounds'] = [r for r in case['rounds'] if any(sizes[i] > 0 for i, _ in r)]
    if not case['rounds']:
      case['rounds'] = [[[nonempty[0], 11]]]
  case['backend'] = draw(st.sampled_from(['jit', 'jit', 'debug', 'pmap:2', 'pmap:3']))
  case['grads_hparams'] = {'batch_size': draw(st.integers(1, 6)), 'buckets': draw(st.integers(1, 3))}
  if case['backend'].startswith('pmap'):
    # the pmap backend stacks the j-th batches of a block of clients: all
    # batches must have one shape, so no smaller final bucket
    case['grads_hparams']['buckets'] = 1
  case['relation'] = relation
  if relation == 'fedprox_mu':
    case['mu'] = draw(st.sampled_from([1, 2, 4, 8, 16]))
  else:
    case['mu'] = 0
  if relation == 'mimelite':
    case['client_opt'] = {'name': 'sgd', 'lr_exp': draw(st.integers(2, 6)), 'momentum': 2}
    case['server_opt'] = {'name': 'sgd', 'lr_exp': 0, 'momentum': 2}
  if relation in ('mime_one_step', 'mime_one_step_keyed'):
    case['client_opt'] = {'name': 'sgd', 'lr_exp': draw(st.integers(1, 5)), 'momentum': 2}
    case['server_lr_exp'] = draw(st.integers(0, 3))
    case['hparams']['num_steps'] = 1
    case['hparams']['num_epochs'] = None
    case['rounds'] = [[[i, s] for i, s in rnd if sizes[i] > 0] for rnd in case['rounds']]
  if relation == 'mime_one_step_keyed':
    # the second run: another local batch size and another shuffling seed
    b = case['hparams']['batch_size']
    case['alt_hparams'] = {
        'batch_size': draw(st.sampled_from([x for x in (1, 2, 3, 5) if x != b])),
        'seed': draw(st.integers(0, 2 ** 16))}
  if relation == 'apfl':
    case['coefficient'] = draw(st.integers(0, 8))
  if relation in ('apfl', 'fedprox0', 'hyp1') and draw(st.integers(0, 3)) == 0:
    # the client optimizer is a user-defined one whose init() keeps the values
    # it was started from (both algorithms of the pair get the same one)
    case['anchored_client_opt'] = True
  if relation in ('hyp1', 'mimelite'):
    # both take a regularizer: the counterpart is FedAvg on loss + regularizer
    case['reg'] = draw(st.booleans())
  if relation == 'mimelite':
    case['clip'] = draw(st.booleans())
  if relation in ('fedprox0', 'hyp1', 'mimelite', 'apfl', 'fedprox_mu', 'mime_one_step'):
    case['probe'] = draw(st.integers(0, 2)) == 0
  if relation in ('fedprox0', 'mimelite'):
    # a loss that uses its key.  FedProx and MimeLite hand the client key to the
    # local steps exactly as FedAvg does, so the relation is asserted for such
    # losses too.  HypCluster spends part of the client key on the
    # cluster-assignment pass (its local steps legitimately see other keys than
    # FedAvg's), and the statement itself restricts APFL to key-ignoring
    # losses: those two relations keep the key-ignoring loss.
    case['noisy'] = draw(st.integers(0, 2)) == 0
  return case


def labels(case):
  return (['relation:' + case['relation']] + (['regularizer'] if case.get('reg') else []) +
          (['key_dependent_loss'] if case.get('noisy') else []) +
          (['probe_round_discarded'] if case.get('probe') else []) +
          (['clip_bound_never_reached'] if case.get('clip') else []) +
          c01.labels(case))


def nontrivial(case, ls):
  return c01.nontrivial_rel(case, ls) and len(case['rounds']) >= 2


def mk(name, relation, run, quick, thorough, doc):
  return Check(name=name, run=run,
               strategy=lambda tier: case_strategy(tier, relation),
               labels=labels, nontrivial=nontrivial,
               budget={'quick': quick, 'thorough': thorough}, doc=doc)


CHECKS = [
    mk('fedprox_mu0', 'fedprox0', differential('fedprox', 'fedprox_mu0_differs_from_fedavg'),
       64, 1000, 'FedProx with proximal weight 0 == FedAvg, round after round'),
    mk('hypcluster_one_cluster', 'hyp1', differential('hyp1', 'hypcluster_1_differs_from_fedavg'),
       64, 1000, 'HypCluster with a single cluster == FedAvg'),
    mk('mimelite_sgd', 'mimelite', differential('mimelite', 'mimelite_sgd_differs_from_fedavg'),
       64, 1000, 'MimeLite(SGD(lr), server lr 1) == FedAvg(SGD(lr), SGD(1.0))'),
    mk('apfl_global', 'apfl', differential('apfl', 'apfl_global_differs_from_fedavg'),
       64, 1000, 'APFL global model == FedAvg when the loss ignores its key'),
    mk('fedprox_mu_positive', 'fedprox_mu', run_fedprox_mu,
       64, 1000, 'FedProx(mu>0) == FedAvg on loss + mu/2 |w - w_server|^2 (float64 reference)'),
    mk('mime_one_step', 'mime_one_step', run_mime_one_step,
       64, 1000, 'Mime(SGD, one local step) == one full-batch gradient step scaled by the server lr'),
    mk('mime_one_step_keyed_loss', 'mime_one_step_keyed', run_mime_one_step_keyed,
       48, 800, 'Mime(SGD, one local step) with a key-dependent loss: the result is '
                'independent of the local batch size / shuffling seed (mini-batch '
                'gradient and control variate cancel exactly)'),
]
