"""C14 -- Every built-in metric equals its definition on its whole domain.

Generated domain: one of the 14 built-in metric classes with constructor
arguments over their documented range, a single example (or a handful of
examples for the aggregate identities) whose scores are rich in ties, signed
zeros and extreme magnitudes, and sequences with every masking pattern.
Oracle: an independent numpy/float64 (pure python for ranking) implementation
of the documented definition of each metric, plus the documented identities as
metamorphic relations.
"""
import functools

import numpy as np
from hypothesis import strategies as st

import jax
import jax.numpy as jnp
import fedjax

from vf.core import Check, Violation, require

fm = fedjax.metrics

PROPERTY_ID = 'C14'
NEEDS_TF = False
LEVEL = 'exploration'
RULE = (
    'Hypothesis draws a metric class, its constructor arguments (k in '
    '-3..C+2, masked/oov value tuples of length 0-3 incl. duplicates and '
    'values outside the target range, logits masks over {0, -inf, +inf, small '
    'dyadics, +-1e30} incl. all -inf / last-class -inf / single +inf, '
    'per_position, target_key/pred_key, ConfusionMatrix.num_classes equal or '
    'unequal to the number of scores) and one example: C in {2,3,5} '
    '(thorough: 2,3,4,5,7), T in {1,3,4,6} (thorough: 1,2,3,4,6,8); score '
    'rows are drawn either from a per-row pool of 2-3 distinct values '
    '(frequent ties at the maximum), as constants, from {+0.0, -0.0}, or '
    'freely from {+-0.0, +-1, +-0.5, 1 and its float32 successor, +-100, '
    '+-1e30, +-1e-30, k/4, any normal float32 with |v|<=1e30} or small ints '
    '(int32 scores, accuracy-type metrics); targets are free, drawn from the '
    'masked values (fully / partly masked), or the row argmax. 1 in 10 cases '
    'is evaluated under jax.jit, the rest eagerly. '
    'Aggregate checks draw 1-4 examples with padding masks / domain ids. '
    'Non-trivial: (scored metrics) some effective score row has a tie at its '
    'maximum, or k is outside [1, C), or the sequence is fully masked, or the '
    'logits mask contains an infinity, or the masked-value tuple does not have '
    'length 1; (target-only metrics) fully masked sequence, or masked / oov '
    'tuple of length != 1, or an EOS value that is also masked; '
    '(confusion_trace) a real row with a tie at the maximum or a padding '
    'example; (per_domain) at least two domains. distinct = distinct '
    'canonical case JSON among the non-trivial cases.')
ASSUMPTIONS = [
    'documented domain: targets are integers in [0, num_classes) (int32; for the '
    'single-label metrics also uint8 / int8 / int16, with up to 17 classes); scores are '
    'finite float32 (or small int32 for the accuracy-type metrics, as in the '
    'docstring examples); example/prediction leaves are jnp arrays',
    'cross-entropy metrics in the general checks: logits restricted to '
    '|v| <= 1e30 so that every per-token loss is finite in float32; rows whose '
    'spread exceeds the float32 range (e.g. [3e38, -3e38]) or that hold -inf at '
    'non-target classes are covered by the dedicated check ce_wide_range with '
    'the target at a row maximum (finite loss); the 0 * -inf = NaN defect there '
    'was fixed in cea1b0b',
    'cross-entropy reference: float64, max-shifted log-sum-exp with the shift '
    'applied to the target logit before subtracting (no absorption at 1e30); '
    'tolerance 1e-5 * max(1, |reference|) on accum and result (float32 '
    'log_softmax is a handful of ulps, i.e. ~1e-6 relative)',
    'counts, weights and 0/1 indicators are compared exactly; result() of a '
    'count-type MeanStat (one float32 division) at 1e-6 relative',
    'logits_mask is added to the scores in float32 (the dtype of the scores); '
    'the reference does the same addition with numpy float32 so that ties '
    'created by rounding (1e30 + 1 == 1e30) are ties in the reference too',
    '+0.0 and -0.0 are the same score (IEEE equality) for the tie rule',
    'a quarter of the single-example cases pass host (numpy, writable) arrays as '
    'example and prediction instead of jnp arrays; in every case the inputs must '
    'be byte-identical after evaluate_example',
    'SequenceTruncationRate: truncated = the EOS value occurs nowhere in the '
    'targets (masked positions included) and the sequence is not fully masked',
    'per_domain aggregates are folded with Stat.merge starting from the first '
    'example statistic (PerDomainMetric.zero() of a per-position base does not '
    'broadcast against its statistics when T != num_domains; that is finding '
    '#19, owned by C05); evaluate_batch is used only for ConfusionMatrix and '
    'Accuracy with a batch mask ("one count per real example")',
    'no subnormal float32 scores (XLA:CPU flushes them)',
]

F32 = np.float32


def _f32(x):
  return float(F32(x))


BIG = _f32(1e30)
TINY = _f32(1e-30)
ONE_UP = float(np.nextafter(F32(1), F32(2)))
SPECIAL = [0.0, -0.0, 1.0, -1.0, 0.5, -0.5, ONE_UP, 2.0, 3.0, 100.0, -100.0,
           BIG, -BIG, TINY, -TINY, _f32(0.1), _f32(88.0), _f32(-104.0)]
MASK_VALUES = [0.0, 0.0, '-inf', '-inf', 'inf', 1.0, -1.0, 0.5, BIG, -BIG]

SINGLE = ['CrossEntropyLoss', 'Accuracy', 'TopKAccuracy', 'ConfusionMatrix']
SCORED = ['SequenceTokenCrossEntropyLoss', 'SequenceCrossEntropyLoss',
          'SequenceTokenAccuracy', 'SequenceTokenTopKAccuracy']
TARGET_ONLY = ['SequenceTokenCount', 'SequenceCount', 'SequenceTruncationRate',
               'SequenceTokenOOVRate', 'SequenceLength']
CE_KIND = {'CrossEntropyLoss', 'SequenceTokenCrossEntropyLoss',
           'SequenceCrossEntropyLoss'}
TOPK = {'TopKAccuracy', 'SequenceTokenTopKAccuracy'}
HAS_PRED_KEY = set(SINGLE) | set(SCORED)
HAS_MASKED = set(SCORED) | set(TARGET_ONLY)
HAS_LOGITS_MASK = {'SequenceTokenAccuracy', 'SequenceTokenTopKAccuracy'}
HAS_PER_POSITION = {'SequenceTokenCrossEntropyLoss', 'SequenceTokenAccuracy',
                    'SequenceTokenTopKAccuracy', 'SequenceTokenOOVRate'}
SUM_STAT = {'SequenceTokenCount', 'SequenceCount', 'ConfusionMatrix'}


def dec(v):
  """Decodes one logits-mask entry of a case ('inf' / '-inf' are strings)."""
  if v == 'inf':
    return float('inf')
  if v == '-inf':
    return float('-inf')
  return float(v)


# ------------------------------------------------------------ code under test

def build_metric(spec):
  name = spec['metric']
  kw = {}
  if spec.get('target_key', 'y') != 'y':
    kw['target_key'] = spec['target_key']
  if name in HAS_PRED_KEY and spec.get('pred_key'):
    kw['pred_key'] = spec['pred_key']
  if name in HAS_MASKED and spec['masked'] != [0]:
    # [0] is the documented default: exercised by *not* passing the argument.
    kw['masked_target_values'] = tuple(spec['masked'])
  if name in HAS_LOGITS_MASK and spec.get('logits_mask') is not None:
    kw['logits_mask'] = tuple(dec(v) for v in spec['logits_mask'])
  if name in HAS_PER_POSITION and spec.get('per_position'):
    kw['per_position'] = True
  if name in TOPK:
    kw['k'] = spec['k']
  if name == 'SequenceTruncationRate':
    kw['eos_target_value'] = spec['eos']
  if name == 'SequenceTokenOOVRate':
    kw['oov_target_values'] = tuple(spec['oov'])
  if name == 'ConfusionMatrix':
    kw['num_classes'] = spec['cm_classes']
  return getattr(fm, name)(**kw)


def build_inputs(spec, target, pred, extra=None):
  """(example, prediction) as the jnp pytrees the docs describe."""
  tk = spec.get('target_key', 'y')
  t = np.asarray(target, dtype=spec.get('target_dtype', 'int32'))
  # host (numpy) arrays are what client datasets hold; they are writable, so a
  # metric that updates its input in place would change the caller's data
  arr = (lambda a: np.array(a)) if spec.get('container') == 'numpy' else jnp.asarray
  example = {tk: arr(t), 'x': jnp.zeros((2,), jnp.float32)}
  if tk != 'y':
    # a decoy under the default key: a metric ignoring target_key reads this.
    example['y'] = arr((t + 1) % max(spec['C'], 1))
  if extra:
    example.update(extra)
  if spec['metric'] in TARGET_ONLY:
    prediction = jnp.array([])  # "Unused", as in the docstrings.
  else:
    p = arr(np.asarray(pred, dtype=spec.get('pred_dtype', 'float32')))
    if spec.get('pred_key'):
      prediction = {spec['pred_key']: p, 'aux': jnp.zeros((), jnp.float32)}
    else:
      prediction = p
  return example, prediction


@functools.lru_cache(maxsize=None)
def _jitted(metric):
  return jax.jit(metric.evaluate_example)


def evaluate(metric, mode, example, prediction):
  if mode == 'jit':
    return _jitted(metric)(example, prediction)
  return metric.evaluate_example(example, prediction)


def stat_arrays(stat, kind, clause):
  want = fm.SumStat if kind == 'sum' else fm.MeanStat
  require(isinstance(stat, want), f'{clause}:stat_type',
          lambda: f'{type(stat).__name__} instead of {want.__name__}')
  out = {'accum': np.asarray(stat.accum), 'result': np.asarray(stat.result())}
  if kind == 'mean':
    out['weight'] = np.asarray(stat.weight)
  return out


# ------------------------------------------------------------------ reference

def effective_rows(spec, pred):
  """Scores after the logits mask, as float64 holding float32 values."""
  rows = np.asarray(pred, dtype=spec.get('pred_dtype', 'float32'))
  rows = rows.reshape((-1, rows.shape[-1]))
  if spec.get('logits_mask') is not None:
    mask = np.asarray([dec(v) for v in spec['logits_mask']], dtype=F32)
    with np.errstate(over='ignore'):
      rows = rows.astype(F32) + mask[None, :]
  return rows.astype(np.float64)


def ref_argmax(row):
  """Lowest index among the maxima."""
  best = max(float(v) for v in row)
  for i, v in enumerate(row):
    if float(v) == best:
      return i
  raise AssertionError('unreachable')


def ref_top(row, k):
  """Indices of the k best classes; equal scores in index order."""
  if k < 1:
    return []
  order = sorted(range(len(row)), key=lambda i: (-float(row[i]), i))
  return order[:k]


def ref_ce(row, t):
  """-log softmax(row)[t] in float64 without absorption."""
  row = np.asarray(row, dtype=np.float64)
  shifted = row - row.max()
  return float(np.log(np.sum(np.exp(shifted))) - shifted[t])


def ref_weights(target, masked):
  ms = set(int(m) for m in masked)
  return np.array([0.0 if int(t) in ms else 1.0 for t in target])


def ref_stat(spec, target, pred):
  """Reference statistic of one example.

  Returns dict(kind='mean'|'sum', accum, weight (mean only), tol) with float64
  arrays; tol is the relative tolerance on accum / result (0 = exact accum).
  """
  name = spec['metric']
  tol = 1e-5 if name in CE_KIND else 0.0
  if name in SINGLE:
    t = int(target)
    row = effective_rows(spec, pred)[0]
    if name == 'CrossEntropyLoss':
      return dict(kind='mean', accum=np.float64(ref_ce(row, t)),
                  weight=np.float64(1), tol=tol)
    if name == 'Accuracy':
      return dict(kind='mean', accum=np.float64(ref_argmax(row) == t),
                  weight=np.float64(1), tol=tol)
    if name == 'TopKAccuracy':
      return dict(kind='mean', accum=np.float64(t in ref_top(row, spec['k'])),
                  weight=np.float64(1), tol=tol)
    if name == 'ConfusionMatrix':
      c = len(row)
      cm = np.zeros((c, c))
      cm[t, ref_argmax(row)] = 1
      return dict(kind='sum', accum=cm, tol=tol)
  target = [int(t) for t in target]
  w = ref_weights(target, spec['masked'])
  n_real = float(w.sum())
  nonempty = float(n_real > 0)
  if name in SCORED:
    rows = effective_rows(spec, pred)
    if name in CE_KIND:
      per_tok = np.array([ref_ce(r, t) for r, t in zip(rows, target)])
    elif name == 'SequenceTokenAccuracy':
      per_tok = np.array([float(ref_argmax(r) == t) for r, t in zip(rows, target)])
    else:
      per_tok = np.array([float(t in ref_top(r, spec['k']))
                          for r, t in zip(rows, target)])
    if name == 'SequenceCrossEntropyLoss':
      return dict(kind='mean', accum=np.float64((per_tok * w).sum()),
                  weight=np.float64(nonempty), tol=tol)
    if spec.get('per_position'):
      return dict(kind='mean', accum=per_tok * w, weight=w, tol=tol)
    return dict(kind='mean', accum=np.float64((per_tok * w).sum()),
                weight=np.float64(n_real), tol=tol)
  if name == 'SequenceTokenCount':
    return dict(kind='sum', accum=np.float64(n_real), tol=tol)
  if name == 'SequenceCount':
    return dict(kind='sum', accum=np.float64(nonempty), tol=tol)
  if name == 'SequenceLength':
    return dict(kind='mean', accum=np.float64(n_real),
                weight=np.float64(nonempty), tol=tol)
  if name == 'SequenceTruncationRate':
    truncated = float(spec['eos'] not in target)
    return dict(kind='mean', accum=np.float64(truncated * nonempty),
                weight=np.float64(nonempty), tol=tol)
  if name == 'SequenceTokenOOVRate':
    oov = set(int(v) for v in spec['oov'])
    ind = np.array([float(t in oov) for t in target])
    if spec.get('per_position'):
      return dict(kind='mean', accum=ind * w, weight=w, tol=tol)
    return dict(kind='mean', accum=np.float64((ind * w).sum()),
                weight=np.float64(n_real), tol=tol)
  raise ValueError(name)


def ref_result(ref):
  if ref['kind'] == 'sum':
    return np.asarray(ref['accum'], dtype=np.float64)
  a = np.asarray(ref['accum'], dtype=np.float64)
  w = np.asarray(ref['weight'], dtype=np.float64)
  a, w = np.broadcast_arrays(a, w)
  out = np.zeros(a.shape)
  nz = w != 0
  out[nz] = a[nz] / w[nz]
  return out


def compare(got, want, tol, clause, what):
  got = np.asarray(got)
  want = np.asarray(want, dtype=np.float64)
  require(got.shape == want.shape, f'{clause}:shape',
          lambda: f'{what}: shape {got.shape}, expected {want.shape}')
  g = got.astype(np.float64)
  if tol == 0.0:
    ok = np.array_equal(g, want)
  else:
    with np.errstate(invalid='ignore'):
      ok = bool(np.all(np.abs(g - want) <= tol * np.maximum(1.0, np.abs(want))))
  require(ok, clause,
          lambda: f'{what}: got {g.tolist()}, reference {want.tolist()}'
                  f' (tolerance {tol})')


def compare_stat(arrays, ref, clause):
  """Statistic fields and result() against the reference."""
  tol = ref['tol']
  compare(arrays['accum'], ref['accum'], tol, f'{clause}:accum', 'accum')
  if ref['kind'] == 'mean':
    compare(arrays['weight'], ref['weight'], 0.0, f'{clause}:weight', 'weight')
  compare(arrays['result'], ref_result(ref), tol or 1e-6, f'{clause}:result',
          'result()')


# ------------------------------------------------------------- direct checks

def _direct(case):
  name = case['metric']
  metric = build_metric(case)
  example, prediction = build_inputs(case, case['target'], case.get('pred'))
  before = _input_bytes(example, prediction)
  stat = evaluate(metric, case['mode'], example, prediction)
  ref = ref_stat(case, case['target'], case.get('pred'))
  arrays = stat_arrays(stat, ref['kind'], name)
  compare_stat(arrays, ref, name)
  # evaluating a metric is a pure function of (example, prediction): the inputs
  # are what they were, so any further metric on them sees the same data
  require(_input_bytes(example, prediction) == before, name + ':inputs_modified',
          lambda: f'container {case.get("container", "jnp")}: example/prediction arrays '
                  'were changed by evaluate_example')
  return metric, example, prediction, arrays, ref


def _input_bytes(example, prediction):
  leaves = jax.tree_util.tree_leaves((example, prediction))
  return [(str(np.asarray(l).dtype), np.asarray(l).shape, np.asarray(l).tobytes())
          for l in leaves]


def run_single_label(case):
  name = case['metric']
  c = case['C']
  if name == 'ConfusionMatrix' and case['cm_classes'] != c:
    # Documented: "Raises ValueError if num_classes is not equal to the number
    # of output classes of the model".
    metric = build_metric(case)
    example, prediction = build_inputs(case, case['target'], case['pred'])
    try:
      evaluate(metric, case['mode'], example, prediction)
    except ValueError:
      return ['cm_mismatch_raises']
    raise Violation('ConfusionMatrix:num_classes_mismatch_not_rejected',
                    f'num_classes={case["cm_classes"]} with {c} scores')
  metric, example, prediction, arrays, _ = _direct(case)
  row = effective_rows(case, case['pred'])[0]
  t = case['target']
  if name == 'TopKAccuracy':
    k = case['k']
    got = float(arrays['result'])
    if k < 1:
      require(got == 0.0, 'identity:k<1_returns_0', f'k={k} gave {got}')
    if k >= c:
      require(got == 1.0, 'identity:k>=num_classes_returns_1', f'k={k} gave {got}')
    if k == 1:
      acc = fm.Accuracy(target_key=case['target_key'], pred_key=case['pred_key'])
      a = stat_arrays(evaluate(acc, case['mode'], example, prediction), 'mean',
                      'Accuracy')
      require(float(a['result']) == got and float(a['accum']) == float(arrays['accum']),
              'identity:top1_equals_accuracy',
              f'TopKAccuracy(k=1)={got} Accuracy={float(a["result"])}')
  if name in ('Accuracy', 'TopKAccuracy'):
    # Tie rule, stated on its own: with m maxima the j-th lowest-indexed
    # maximum is ranked j-th.
    best = max(row)
    maxima = [i for i, v in enumerate(row) if v == best]
    if len(maxima) > 1 and t in maxima:
      rank = maxima.index(t) + 1
      k = 1 if name == 'Accuracy' else case['k']
      require(float(arrays['accum']) == float(rank <= k),
              'identity:ties_lowest_index_first',
              f'target is maximum #{rank} of {len(maxima)}, k={k}, '
              f'got {float(arrays["accum"])}')
  if name == 'ConfusionMatrix':
    cm = arrays['accum']
    require(float(cm.sum()) == 1.0 and float(cm[t].sum()) == 1.0,
            'ConfusionMatrix:one_count_in_target_row',
            lambda: f'target {t}: {cm.tolist()}')
  return None


def run_sequence_scored(case):
  name = case['metric']
  metric, example, prediction, arrays, ref = _direct(case)
  if name == 'SequenceTokenTopKAccuracy':
    k = case['k']
    if k < 1:
      require(not np.any(arrays['accum']), 'identity:k<1_returns_0',
              lambda: f'k={k} accum {arrays["accum"].tolist()}')
    if k >= case['C']:
      require(np.array_equal(arrays['accum'], arrays['weight']),
              'identity:k>=num_classes_returns_1',
              lambda: f'k={k} accum {arrays["accum"].tolist()} '
                      f'weight {arrays["weight"].tolist()}')
    if k == 1:
      kw = {f: getattr(metric, f) for f in
            ('target_key', 'pred_key', 'masked_target_values', 'logits_mask',
             'per_position')}
      acc = fm.SequenceTokenAccuracy(**kw)
      a = stat_arrays(evaluate(acc, case['mode'], example, prediction), 'mean',
                      'SequenceTokenAccuracy')
      require(np.array_equal(a['accum'], arrays['accum']) and
              np.array_equal(a['weight'], arrays['weight']),
              'identity:top1_equals_accuracy',
              lambda: f'top1 accum {arrays["accum"].tolist()} vs accuracy '
                      f'{a["accum"].tolist()}')
  if name == 'SequenceTokenCrossEntropyLoss' and not case['per_position']:
    # The per-sequence loss is the same sum with weight 1 (0 if fully masked).
    seq = fm.SequenceCrossEntropyLoss(
        target_key=metric.target_key, pred_key=metric.pred_key,
        masked_target_values=metric.masked_target_values)
    s = stat_arrays(evaluate(seq, case['mode'], example, prediction), 'mean',
                    'SequenceCrossEntropyLoss')
    compare(s['accum'], ref['accum'], 1e-5, 'identity:sequence_loss_is_token_loss_sum',
            'SequenceCrossEntropyLoss.accum')
    compare(s['weight'], float(np.any(ref_weights(case['target'], case['masked']))),
            0.0, 'identity:sequence_loss_weight_is_nonempty', 'weight')
  return None


def run_target_only(case):
  _direct(case)
  return None


# --------------------------------------------------------- aggregate checks

def fold(stats):
  out = stats[0]
  for s in stats[1:]:
    out = out.merge(s)
  return out


def run_confusion_trace(case):
  c, n = case['C'], case['N']
  spec = {'metric': 'ConfusionMatrix', 'C': c, 'cm_classes': c,
          'pred_dtype': case['pred_dtype']}
  cm_metric = fm.ConfusionMatrix(num_classes=c)
  acc_metric = fm.Accuracy()
  real = [i for i in range(n) if case['mask'][i]]
  want = np.zeros((c, c))
  for i in real:
    row = effective_rows(spec, case['preds'][i])[0]
    want[case['targets'][i], ref_argmax(row)] += 1
  want_acc = float(np.trace(want) / len(real)) if real else 0.0

  # (a) one example at a time, merged.
  cm_stat, acc_stat = cm_metric.zero(), acc_metric.zero()
  for i in real:
    ex, pr = build_inputs(spec, case['targets'][i], case['preds'][i])
    cm_stat = cm_stat.merge(cm_metric.evaluate_example(ex, pr))
    acc_stat = acc_stat.merge(acc_metric.evaluate_example(ex, pr))
  # (b) evaluate_batch with the padding mask.
  dt = case['pred_dtype']
  batch_ex = {'y': jnp.asarray(np.asarray(case['targets'], np.int32))}
  batch_pr = jnp.asarray(np.asarray(case['preds'], dtype=dt))
  batch_mask = jnp.asarray(np.asarray(case['mask'], dtype=bool))
  cm_b = fm.evaluate_batch(cm_metric, batch_ex, batch_pr, batch_mask)
  acc_b = fm.evaluate_batch(acc_metric, batch_ex, batch_pr, batch_mask)

  for tag, cm_s, acc_s in (('merge', cm_stat, acc_stat), ('batch', cm_b, acc_b)):
    cm = np.asarray(cm_s.result())
    compare(cm, want, 0.0, f'{tag}:confusion_matrix_counts', 'confusion matrix')
    require(float(cm.sum()) == float(len(real)), f'{tag}:one_count_per_real_example',
            lambda: f'{len(real)} real examples, total {float(cm.sum())}')
    acc = float(np.asarray(acc_s.result()))
    compare(acc, want_acc, 1e-6, f'{tag}:accuracy', 'accuracy')
    if real:
      ratio = float(np.trace(cm)) / float(cm.sum())
      require(abs(ratio - acc) <= 1e-6, f'{tag}:trace_over_total_is_accuracy',
              lambda: f'trace/total={ratio} accuracy={acc}')
  return None


def run_per_domain(case):
  spec, d = case['spec'], case['D']
  base = build_metric(spec)
  kw = {}
  if case['domain_id_key'] != 'domain_id':
    kw['domain_id_key'] = case['domain_id_key']
  pd = fm.PerDomainMetric(base, d, **kw)
  n = len(case['domains'])
  pd_stats, refs = [], []
  kind = None
  for i in range(n):
    dom = case['domains'][i]
    extra = {case['domain_id_key']: jnp.asarray(np.int32(dom))}
    if case['domain_id_key'] != 'domain_id':
      extra['domain_id'] = jnp.asarray(np.int32((dom + 1) % d))
    pred = case['preds'][i] if case['preds'] is not None else None
    ex, pr = build_inputs(spec, case['targets'][i], pred, extra)
    ref = ref_stat(spec, case['targets'][i], pred)
    kind = ref['kind']
    b_arr = stat_arrays(base.evaluate_example(ex, pr), kind, 'base')
    p_stat = pd.evaluate_example(ex, pr)
    p_arr = stat_arrays(p_stat, kind, 'per_domain')
    fields = ('accum', 'weight') if kind == 'mean' else ('accum',)
    for f in fields + ('result',):
      bshape = np.broadcast_shapes(*(b_arr[g].shape for g in fields))
      require(p_arr[f].shape == (d,) + bshape, 'single:shape',
              lambda: f'{f}: {p_arr[f].shape}, base {bshape}, D={d}')
      for j in range(d):
        if j == dom:
          require(np.array_equal(p_arr[f][j], np.broadcast_to(b_arr[f], bshape),
                                 equal_nan=True),
                  'single:own_domain_row_is_base_statistic',
                  lambda: f'{f}[{j}]={p_arr[f][j].tolist()} base {b_arr[f].tolist()}')
        else:
          require(not np.any(p_arr[f][j]), 'single:other_domain_rows_are_zero',
                  lambda: f'{f}[{j}]={p_arr[f][j].tolist()} (example in domain {dom})')
    pd_stats.append(p_stat)
    refs.append(ref)

  total = stat_arrays(fold(pd_stats), kind, 'per_domain')
  tol = refs[0]['tol']
  for j in range(d):
    mine = [r for r, dom in zip(refs, case['domains']) if dom == j]
    shape = np.shape(refs[0]['accum'])
    agg = {'kind': kind, 'tol': tol,
           'accum': sum((np.asarray(r['accum']) for r in mine), np.zeros(shape))}
    if kind == 'mean':
      wshape = np.shape(refs[0]['weight'])
      agg['weight'] = sum((np.asarray(r['weight']) for r in mine), np.zeros(wshape))
    row = {f: total[f][j] for f in total}
    if kind == 'mean':
      shp = np.broadcast_shapes(np.shape(agg['accum']), np.shape(agg['weight']))
      agg['accum'] = np.broadcast_to(agg['accum'], shp)
      agg['weight'] = np.broadcast_to(agg['weight'], shp)
    compare_stat(row, agg, 'aggregate:domain_equals_base_on_its_examples')
  return None


# ---------------------------------------------------------------- strategies

def menus(tier):
  if tier == 'quick':
    return [2, 3, 5], [1, 3, 4, 6]
  return [2, 3, 4, 5, 7], [1, 2, 3, 4, 6, 8]


TABLE = SPECIAL + [k / 4 for k in range(-8, 9) if k not in (0, 4, -4, 2, -2, 8)]


def score():
  return st.one_of(
      st.sampled_from(TABLE), st.sampled_from(TABLE),
      st.floats(min_value=-BIG, max_value=BIG, width=32, allow_nan=False,
                allow_infinity=False, allow_subnormal=False))


def _fixed(elem, n):
  return st.lists(elem, min_size=n, max_size=n)


@functools.lru_cache(maxsize=None)
def score_row(c, dtype):
  """One row of c class scores (strategy); see RULE for the styles."""
  if dtype == 'int32':
    elem = st.integers(-3, 3)
    free = [_fixed(elem, c)]
    zeros = st.just([0] * c)
  else:
    elem = score()
    free = [_fixed(st.sampled_from(TABLE), c), _fixed(elem, c)]
    zeros = _fixed(st.sampled_from([0.0, -0.0]), c)
  pool = st.lists(elem, min_size=2, max_size=3, unique_by=repr).flatmap(
      lambda vals: _fixed(st.sampled_from(vals), c))
  const = elem.map(lambda v: [v] * c)
  # one_of() drops repeated branches, so weight the styles by index.
  styles = [pool] * 4 + [free[0]] * 2 + [free[-1]] * 3 + [const, zeros]
  return st.sampled_from(range(len(styles))).flatmap(lambda i: styles[i])


def keys_and_mode(draw, spec, with_pred_key=True):
  spec['target_key'] = draw(st.sampled_from(['y', 'y', 'y', 'label']))
  if with_pred_key:
    spec['pred_key'] = draw(st.sampled_from([None, None, None, 'logits']))


MODES = ['eager'] * 9 + ['jit']


def top_k(c):
  return st.one_of(st.integers(-3, c + 2), st.integers(-3, c + 2),
                   st.integers(1, c))


@st.composite
def masked_values(draw, hi):
  return draw(st.one_of(
      st.just([0]), st.just([0]), st.just([]),
      st.lists(st.integers(0, hi - 1), min_size=1, max_size=1),
      st.lists(st.integers(-1, hi), min_size=2, max_size=2),
      st.lists(st.integers(-1, hi), min_size=0, max_size=3)))


@st.composite
def seq_targets(draw, t, c, masked, rows):
  inside = sorted({m for m in masked if 0 <= m < c})
  style = draw(st.sampled_from(['free', 'free', 'masked', 'argmax', 'mixed']))
  if style == 'masked' and inside:
    return [draw(st.sampled_from(inside)) for _ in range(t)]
  if style == 'mixed' and inside:
    return [draw(st.sampled_from(inside)) if draw(st.booleans())
            else draw(st.integers(0, c - 1)) for _ in range(t)]
  if style == 'argmax' and rows is not None:
    return [ref_argmax(r) for r in rows]
  return [draw(st.integers(0, c - 1)) for _ in range(t)]


@st.composite
def logits_mask(draw, c):
  style = draw(st.sampled_from(['none', 'none', 'generic', 'generic',
                                'last_oov', 'all_ninf', 'one_pinf', 'zeros']))
  if style == 'none':
    return None
  if style == 'generic':
    return [draw(st.sampled_from(MASK_VALUES)) for _ in range(c)]
  if style == 'last_oov':
    return [0.0] * (c - 1) + ['-inf']
  if style == 'all_ninf':
    return ['-inf'] * c
  if style == 'zeros':
    return [0.0] * c
  i = draw(st.integers(0, c - 1))
  return ['inf' if j == i else 0.0 for j in range(c)]


@st.composite
def draw_spec(draw, tier, family, n_examples):
  """Returns (spec, targets, preds) with n_examples same-shaped examples."""
  cs, ts = menus(tier)
  c = draw(st.sampled_from(cs))
  spec = {'C': c}
  if family == 'single':
    # labels are often stored in narrow integer dtypes (uint8 image labels);
    # with 17 classes target * num_classes no longer fits into 8 bits
    if draw(st.integers(0, 4)) == 0:
      c = 17
      spec['C'] = c
      spec['target_dtype'] = draw(st.sampled_from(['uint8', 'int8', 'int16', 'int32']))
    elif draw(st.integers(0, 3)) == 0:
      spec['target_dtype'] = draw(st.sampled_from(['uint8', 'int8', 'int16']))
    name = draw(st.sampled_from(['CrossEntropyLoss', 'Accuracy', 'TopKAccuracy',
                                 'TopKAccuracy', 'ConfusionMatrix']))
    spec['metric'] = name
    spec['pred_dtype'] = ('float32' if name in CE_KIND else draw(
        st.sampled_from(['float32', 'float32', 'float32', 'int32'])))
    if name == 'TopKAccuracy':
      spec['k'] = draw(top_k(c))
    if name == 'ConfusionMatrix':
      spec['cm_classes'] = c
    keys_and_mode(draw, spec)
    preds = draw(_fixed(score_row(c, spec['pred_dtype']), n_examples))
    targets = []
    for row in preds:
      if draw(st.integers(0, 3)) == 0:
        best = max(row)
        targets.append(draw(st.sampled_from(
            [i for i, v in enumerate(row) if v == best])))
      else:
        targets.append(draw(st.integers(0, c - 1)))
    return spec, targets, preds
  t = draw(st.sampled_from(ts))
  spec['T'] = t
  if family == 'scored':
    name = draw(st.sampled_from(SCORED + ['SequenceTokenTopKAccuracy']))
    spec['metric'] = name
    spec['pred_dtype'] = ('float32' if name in CE_KIND else draw(
        st.sampled_from(['float32', 'float32', 'float32', 'int32'])))
    spec['masked'] = draw(masked_values(c))
    spec['per_position'] = (draw(st.booleans())
                            if name in HAS_PER_POSITION else False)
    spec['logits_mask'] = (draw(logits_mask(c))
                           if name in HAS_LOGITS_MASK else None)
    if name in TOPK:
      spec['k'] = draw(top_k(c))
    keys_and_mode(draw, spec)
    preds, targets = [], []
    for _ in range(n_examples):
      rows = draw(_fixed(score_row(c, spec['pred_dtype']), t))
      preds.append(rows)
      targets.append(draw(seq_targets(t, c, spec['masked'], rows)))
    return spec, targets, preds
  # target-only metrics: C plays the role of the vocabulary size.
  name = draw(st.sampled_from(TARGET_ONLY + ['SequenceTokenOOVRate',
                                             'SequenceTruncationRate']))
  spec['metric'] = name
  spec['masked'] = draw(masked_values(c))
  spec['per_position'] = (draw(st.booleans())
                          if name in HAS_PER_POSITION else False)
  if name == 'SequenceTokenOOVRate':
    spec['oov'] = draw(st.one_of(
        st.lists(st.integers(0, c - 1), min_size=1, max_size=1),
        st.lists(st.integers(0, c), min_size=0, max_size=3),
        st.lists(st.integers(0, c - 1), min_size=2, max_size=3, unique=True),
        st.just([])))
  if name == 'SequenceTruncationRate':
    spec['eos'] = draw(st.integers(0, c))
  keys_and_mode(draw, spec, with_pred_key=False)
  targets = [draw(seq_targets(t, c, spec['masked'], None))
             for _ in range(n_examples)]
  return spec, targets, None


def direct_strategy(family):
  @st.composite
  def strat(draw, tier):
    spec, targets, preds = draw(draw_spec(tier, family, 1))
    case = dict(spec)
    case['target'] = targets[0]
    if preds is not None:
      case['pred'] = preds[0]
    if spec['metric'] == 'ConfusionMatrix':
      c = spec['C']
      case['cm_classes'] = draw(st.sampled_from([c, c, c, c, c - 1, c + 1]))
    case['mode'] = draw(st.sampled_from(MODES))
    if draw(st.integers(0, 3)) == 0:
      case['container'] = 'numpy'
    return case
  return strat


@st.composite
def confusion_strategy(draw, tier):
  cs, _ = menus(tier)
  c = draw(st.sampled_from(cs))
  n = draw(st.sampled_from([1, 3, 4]))
  dt = draw(st.sampled_from(['float32', 'float32', 'float32', 'int32']))
  preds = draw(_fixed(score_row(c, dt), n))
  targets = []
  for row in preds:
    if draw(st.booleans()):
      targets.append(ref_argmax(row))
    else:
      targets.append(draw(st.integers(0, c - 1)))
  mask = draw(st.one_of(st.just([True] * n),
                        st.lists(st.booleans(), min_size=n, max_size=n)))
  return {'C': c, 'N': n, 'pred_dtype': dt, 'targets': targets, 'preds': preds,
          'mask': mask}


@st.composite
def per_domain_strategy(draw, tier):
  family = draw(st.sampled_from(['single', 'scored', 'scored', 'target_only']))
  n = draw(st.integers(1, 4))
  spec, targets, preds = draw(draw_spec(tier, family, n))
  d = draw(st.sampled_from([1, 2, 2, 3, 3, 4]))
  domains = [draw(st.integers(0, d - 1)) for _ in range(n)]
  return {'spec': spec, 'D': d, 'domains': domains, 'targets': targets,
          'preds': preds,
          'domain_id_key': draw(st.sampled_from(['domain_id', 'domain_id', 'dom']))}


# -------------------------------------------------------------------- labels

def _tie_at_max(rows):
  for r in rows:
    best = max(r)
    if sum(1 for v in r if v == best) > 1:
      return True
  return False


def spec_labels(spec, targets, preds):
  """Class labels of a metric spec with a list of examples."""
  name = spec['metric']
  ls = ['metric:' + name]
  c = spec['C']
  if spec.get('pred_dtype') == 'int32':
    ls.append('int_scores')
  if spec.get('target_key', 'y') != 'y':
    ls.append('target_key')
  if spec.get('pred_key'):
    ls.append('pred_key')
  if name in TOPK:
    k = spec['k']
    ls.append('k<0' if k < 0 else 'k=0' if k == 0 else 'k=1' if k == 1
              else 'k>=C' if k >= c else '1<k<C')
  if spec.get('per_position'):
    ls.append('per_position')
  lm = spec.get('logits_mask')
  if lm is not None:
    ls.append('logits_mask')
    if '-inf' in lm:
      ls.append('logits_mask:-inf')
      if all(v == '-inf' for v in lm):
        ls.append('logits_mask:all-inf')
    if 'inf' in lm:
      ls.append('logits_mask:+inf')
  if preds is not None:
    flat = [v for p in preds for v in np.asarray(p, dtype=np.float64).ravel()]
    if any(abs(v) >= 1e29 for v in flat):
      ls.append('extreme_scores')
    if any(v == 0 and np.signbit(v) for v in flat) and any(
        v == 0 and not np.signbit(v) for v in flat):
      ls.append('signed_zeros')
    rows = [r for p in preds for r in effective_rows(spec, p)]
    if _tie_at_max(rows):
      ls.append('tie_at_max')
    if all(len(set(r)) == 1 for r in rows):
      ls.append('all_scores_equal')
  if name in HAS_MASKED:
    ls.append('masked_len=%d' % len(spec['masked']))
    for t in targets:
      w = ref_weights(t, spec['masked'])
      if not w.any():
        ls.append('fully_masked')
      elif w.all():
        ls.append('nothing_masked')
      else:
        ls.append('partly_masked')
  if name == 'SequenceTokenOOVRate':
    ls.append('oov_len=%d' % len(spec['oov']))
    if len(set(spec['oov'])) != len(spec['oov']):
      ls.append('oov_duplicates')
    if any(v in spec['oov'] for t in targets for v in t):
      ls.append('oov_hit')
  if name == 'SequenceTruncationRate':
    ls.append('eos_present' if any(spec['eos'] in t for t in targets)
              else 'eos_absent')
    if spec['eos'] in spec['masked']:
      ls.append('eos_masked')
  return sorted(set(ls))


def spec_nontrivial(spec, ls):
  name = spec['metric']
  if name in TARGET_ONLY:
    return ('fully_masked' in ls or len(spec['masked']) != 1 or
            (name == 'SequenceTokenOOVRate' and len(spec['oov']) != 1) or
            'eos_masked' in ls)
  return ('tie_at_max' in ls or 'fully_masked' in ls or
          (name in TOPK and not 1 <= spec['k'] < spec['C']) or
          'logits_mask:-inf' in ls or 'logits_mask:+inf' in ls or
          (name in HAS_MASKED and len(spec['masked']) != 1))


def direct_labels(case):
  preds = [case['pred']] if 'pred' in case else None
  ls = spec_labels(case, [case['target']], preds)
  ls.append('mode:' + case['mode'])
  ls.append('container:' + case.get('container', 'jnp'))
  if case['metric'] == 'ConfusionMatrix' and case['cm_classes'] != case['C']:
    ls.append('cm_num_classes_mismatch')
  return ls


def direct_nontrivial(case, ls):
  return spec_nontrivial(case, ls) or 'cm_num_classes_mismatch' in ls


def confusion_labels(case):
  spec = {'metric': 'ConfusionMatrix', 'C': case['C'],
          'pred_dtype': case['pred_dtype']}
  real = [p for p, m in zip(case['preds'], case['mask']) if m]
  ls = ['N=%d' % case['N'], 'C=%d' % case['C']]
  if case['pred_dtype'] == 'int32':
    ls.append('int_scores')
  if not real:
    ls.append('no_real_example')
  elif len(real) < case['N']:
    ls.append('padding_examples')
  if real and _tie_at_max([effective_rows(spec, p)[0] for p in real]):
    ls.append('tie_at_max')
  return ls


def per_domain_labels(case):
  ls = spec_labels(case['spec'], case['targets'], case['preds'])
  ls = [l.replace('metric:', 'base:') for l in ls]
  d = case['D']
  ls.append('D=%d' % d)
  used = set(case['domains'])
  if len(used) < d:
    ls.append('empty_domain')
  if len(case['domains']) > len(used):
    ls.append('domain_with_several_examples')
  if case['spec'].get('per_position') and case['spec'].get('T') not in (1, d):
    ls.append('per_position_T_not_in_{1,D}')
  return ls


# ---------------------------------------------------- CE over the whole range

WIDE = [3.0e38, -3.0e38, 1.0e38, -1.0e38, 2.5e38, 0.0, 1.0, -1.0, 88.0, '-inf']


def _wide_val(v):
  return -np.inf if v == '-inf' else float(np.float32(v))


def _f32_overflow(x):
  """What a correctly rounded float32 result of the float64 value x is."""
  with np.errstate(over='ignore'):
    return float(np.float32(x))


def _same_loss(got, want):
  want32 = _f32_overflow(want)
  if not np.isfinite(want32):
    return got == want32                      # +inf stays +inf, never NaN / 0
  return bool(np.isfinite(got)) and abs(got - want) <= 1e-5 * max(1.0, abs(want))


def run_ce_wide(case):
  """Cross entropy on rows whose spread exceeds the float32 range or that hold
  -inf logits: the loss is -log softmax(row)[t] -- log(#ties at the maximum)
  when the target is at a maximum, +inf when the target's probability is 0 --
  and never NaN."""
  rows = [[_wide_val(v) for v in row] for row in case['rows']]
  targets = case['targets']
  from fedjax.core import metrics as M
  want_tok = []
  for row, t in zip(rows, targets):
    r64 = np.asarray(row, np.float64)
    shifted = r64 - r64.max()
    with np.errstate(divide='ignore'):
      want_tok.append(float(np.log(np.sum(np.exp(shifted))) - shifted[t]))
  def per_domain_rows(base_metric, ex_, pred_, base_stat):
    """The same example through PerDomainMetric: its own domain's row is the
    base statistic (also when that is +inf), every other row is exactly 0."""
    d = case.get('D')
    if not d:
      return
    dom = case['domain'] % d
    pst = M.PerDomainMetric(base_metric, d).evaluate_example(
        dict(ex_, domain_id=jnp.asarray(dom, jnp.int32)), pred_)
    for f in ('accum', 'weight'):
      arr = np.asarray(getattr(pst, f), np.float64)
      b = np.asarray(getattr(base_stat, f), np.float64)
      require(arr.shape == (d,) + b.shape, 'ce_wide:per_domain:shape', f'{f}: {arr.shape}')
      for j in range(d):
        if j == dom:
          require(np.array_equal(arr[j], b), 'ce_wide:per_domain:own_domain_row_is_base_statistic',
                  f'{f}[{j}]={arr[j].tolist()} base {b.tolist()}; rows {case["rows"]}')
        else:
          require(not np.any(arr[j]), 'ce_wide:per_domain:other_domain_rows_are_zero',
                  f'{f}[{j}]={arr[j].tolist()} (example in domain {dom}, base {f} '
                  f'{b.tolist()}); rows {case["rows"]} targets {targets}')

  if len(rows) == 1 and case['metric'] == 'CrossEntropyLoss':
    ex1 = {'y': jnp.asarray(targets[0], jnp.int32)}
    st_ = M.CrossEntropyLoss().evaluate_example(ex1, jnp.asarray(rows[0], jnp.float32))
    per_domain_rows(M.CrossEntropyLoss(), ex1, jnp.asarray(rows[0], jnp.float32), st_)
    got = float(st_.accum)
    require(_same_loss(got, want_tok[0]),
            'ce_wide:CrossEntropyLoss:accum', f'rows {case["rows"]} target {targets}: {got} vs {want_tok[0]}')
    return ['single'] + (['infinite_loss'] if not np.isfinite(want_tok[0]) else [])
  ex = {'y': jnp.asarray(targets, jnp.int32)}
  pred = jnp.asarray(rows, jnp.float32)
  masked = tuple(case['masked'])
  w = np.array([0.0 if t in masked else 1.0 for t in targets])
  want_sum = float(sum(x for x, wi in zip(want_tok, w) if wi))
  if case['metric'] == 'SequenceTokenCrossEntropyLoss':
    base_metric = M.SequenceTokenCrossEntropyLoss(masked_target_values=masked)
    st_ = base_metric.evaluate_example(ex, pred)
    want_acc, want_w = want_sum, float(w.sum())
  else:
    base_metric = M.SequenceCrossEntropyLoss(masked_target_values=masked)
    st_ = base_metric.evaluate_example(ex, pred)
    want_acc, want_w = want_sum, float(w.sum() > 0)
  per_domain_rows(base_metric, ex, pred, st_)
  got_acc, got_w = float(st_.accum), float(st_.weight)
  if want_w == 0:
    want_acc = 0.0
  require(_same_loss(got_acc, want_acc), 'ce_wide:' + case['metric'] + ':accum',
          f'rows {case["rows"]} targets {targets} masked {masked}: {got_acc} vs {want_acc}')
  require(got_w == want_w, 'ce_wide:' + case['metric'] + ':weight', f'{got_w} vs {want_w}')
  return ['sequence'] + (['infinite_loss'] if not np.isfinite(want_acc) else [])


@st.composite
def ce_wide_strategy(draw, tier):
  c = draw(st.sampled_from([2, 3, 5]))
  metric = draw(st.sampled_from(['CrossEntropyLoss', 'SequenceTokenCrossEntropyLoss',
                                 'SequenceCrossEntropyLoss']))
  t_len = 1 if metric == 'CrossEntropyLoss' else draw(st.sampled_from([1, 2, 3]))
  rows, targets = [], []
  for _ in range(t_len):
    row = draw(st.lists(st.sampled_from(WIDE), min_size=c, max_size=c))
    vals = [_wide_val(v) for v in row]
    if not np.isfinite(max(vals)):
      row[0] = 0.0
      vals = [_wide_val(v) for v in row]
    top = [i for i, v in enumerate(vals) if v == max(vals)]
    rows.append(row)
    # mostly the target at a maximum (finite loss); sometimes any class, whose
    # probability may be exactly 0 (loss +inf)
    targets.append(draw(st.sampled_from(top)) if draw(st.integers(0, 3)) else draw(st.integers(0, c - 1)))
  masked = draw(st.sampled_from([[], [0], [1], [0, 1]]))
  # a masked position whose own loss is +inf would make 0 * inf: such positions
  # are outside the metric's input domain (the loss of a padding token must be a
  # number), so positions with an infinite loss are never masked
  for row, t in zip(rows, targets):
    vals = [_wide_val(v) for v in row]
    if t in masked and (vals[t] == -np.inf or max(vals) - vals[t] > 3.0e38):
      masked = [m for m in masked if m != t]
  case = {'metric': metric, 'rows': rows, 'targets': targets, 'masked': masked}
  if draw(st.booleans()):
    # the same example also through PerDomainMetric(base, D)
    case['D'] = draw(st.sampled_from([2, 3]))
    case['domain'] = draw(st.integers(0, 2))
  return case


def ce_wide_labels(case):
  ls = ['metric:' + case['metric']]
  if case.get('D'):
    ls.append('per_domain')
  for row in case['rows']:
    vals = [_wide_val(v) for v in row]
    fin = [v for v in vals if np.isfinite(v)]
    if '-inf' in row:
      ls.append('minus_inf_logit')
    if fin and max(fin) - min(fin) > 3.4e38:
      ls.append('spread_exceeds_float32')
  return sorted(set(ls))


CHECKS = [
    Check(name='single_label', run=run_single_label,
          strategy=direct_strategy('single'),
          labels=direct_labels, nontrivial=direct_nontrivial,
          budget={'quick': 8000, 'thorough': 80000},
          doc='CrossEntropyLoss / Accuracy / TopKAccuracy / ConfusionMatrix on '
              'one example vs the numpy reference; top-1 == accuracy, k<1 => 0, '
              'k>=C => 1, ties toward the lowest index, ValueError on a '
              'num_classes mismatch'),
    Check(name='sequence_scored', run=run_sequence_scored,
          strategy=direct_strategy('scored'),
          labels=direct_labels, nontrivial=direct_nontrivial,
          budget={'quick': 6400, 'thorough': 80000}, time_share=2.5,
          doc='SequenceTokenCrossEntropyLoss / SequenceCrossEntropyLoss / '
              'SequenceTokenAccuracy / SequenceTokenTopKAccuracy vs the '
              'reference over masking patterns, logits masks, k and '
              'per_position'),
    Check(name='sequence_target_only', run=run_target_only,
          strategy=direct_strategy('target_only'),
          labels=direct_labels, nontrivial=direct_nontrivial,
          budget={'quick': 8000, 'thorough': 80000}, time_share=0.7,
          doc='SequenceTokenCount / SequenceCount / SequenceTruncationRate / '
              'SequenceTokenOOVRate / SequenceLength vs the reference over '
              'masked / oov tuples of length 0-3 and all masking patterns'),
    Check(name='confusion_trace', run=run_confusion_trace,
          strategy=confusion_strategy,
          labels=confusion_labels,
          nontrivial=lambda c, ls: 'tie_at_max' in ls or 'padding_examples' in ls,
          budget={'quick': 2400, 'thorough': 20000},
          doc='ConfusionMatrix over 1-4 examples with a padding mask (merged '
              'example statistics and evaluate_batch): one count per real '
              'example at (target, predicted); trace/total == Accuracy'),
    Check(name='per_domain', run=run_per_domain,
          strategy=per_domain_strategy,
          labels=per_domain_labels,
          nontrivial=lambda c, ls: c['D'] >= 2,
          budget={'quick': 3200, 'thorough': 30000}, time_share=1.5,
          doc='PerDomainMetric(base, D) for every base metric: own-domain row '
              '== base statistic, other rows zero; merged over 1-4 examples, '
              'row d == base metric (reference) on the examples of domain d'),
    Check(name='ce_wide_range', run=run_ce_wide, strategy=ce_wide_strategy,
          labels=ce_wide_labels,
          nontrivial=lambda c, ls: 'spread_exceeds_float32' in ls or 'minus_inf_logit' in ls,
          budget={'quick': 1600, 'thorough': 20000}, time_share=0.5,
          doc='cross-entropy metrics on rows whose spread exceeds the float32 range '
              'or that hold -inf at non-target classes (target at a row maximum): '
              'finite and equal to the float64 reference (defect fixed in cea1b0b)'),
]
