"""C02 -- All for-each-client backends equal the sequential per-client fold.

Two generated families.

`fold`: a case is (program table, backend, client population).  The program
table is DATA: which state leaves exist ({'a': f32[k], 'n': i32[], 'm':
f32[2,2], 'flag': bool[]}), how client_init mixes shared and client input
(affine with power-of-two coefficients, or returning a shared / client-input
leaf *unchanged*), the affine client_step update of every leaf (coefficients in
{-2,-1,-1/2,0,1/2,1,2}, optional 1/sum(batch) and log(sum(batch)) terms that
are finite on every real batch and inf / -inf / NaN on an all-zero padding
batch), which per-step results are emitted, and client_final (omitted = the
documented default, or an affine table that also reads the shared input).
`run_fold` builds the three Python closures from the table, binds them through
fedjax.for_each_client under the selected backend and compares every yielded
tuple with the definition final(shared, fold(step, init(shared, cin), batches))
executed eagerly, op by op, without any backend, on separately built arrays.
Afterwards every caller-owned array (shared input, client inputs, batches) must
still be alive and equal to its numpy snapshot.

`threads`: a case is an interleaving [(thread, op, arg)] over 2-3 real worker
threads; each worker executes exactly one command when the harness hands it the
turn (queues), so the schedule is the generated one.  Model: per-thread current
backend + stack of saved backends, default = the jit backend.
"""
import functools
import json
import queue
import threading

import numpy as np
from hypothesis import strategies as st

import jax
import jax.numpy as jnp

import fedjax
from fedjax.core import for_each_client as fec

from vf.core import Check, Violation, canonical, require

PROPERTY_ID = 'C02'
NEEDS_TF = False
LEVEL = 'exploration'
RULE = (
    'fold: Hypothesis draws a client program as a coefficient table (state '
    'leaves: non-empty subset of {a:f32[k], n:i32[], m:f32[2,2], flag:bool[]}, '
    'in a quarter of the programs also z: an int32 accumulator to which every '
    'step adds a float32 multiple of sum(batch) (the state dtype changes once), '
    'k in {1,3}; init per leaf affine in shared/client input or the shared / '
    'client-input leaf returned unchanged, optional 1/client_input.s term; step '
    'per leaf affine in old state and batch reductions with coefficients from '
    '{-2,-1,-1/2,0,1/2,1,2}, optional 1/sum(x) and log(sum(x)) terms; emitted '
    'step results: subset of {sum, cnt, vec, inv, pos}; final omitted or affine '
    'in state and shared input, optionally returning a shared leaf), a backend '
    '(jit, debug, pmap over all 8 devices by name, pmap over devices[:d] for d in '
    '1..8), selection by context manager or set_for_each_client_backend, '
    'with_step_result, 0-11 clients (0-14 thorough) with 0-4 batches each '
    '(0-6 thorough) of B in {1,2,3} rows (integer entries, positive sum), distinct '
    'byte ids, clients as list or one-shot generator, batches as list or one-shot '
    'iterator, batches as jax or numpy arrays, ragged last batch for jit/debug. '
    'Non-trivial: pmap with a client count that is not a multiple of the device '
    'count AND unequal batch counts inside one block (both padding kinds), or '
    'pmap with some padding AND a program term that is non-finite on zero '
    'padding, or a zero-batch client among >= 2 clients. '
    'threads: 2-3 worker threads, up to 30 ops (60 thorough) from {set(b), '
    'enter_context(b), exit_context, exit_context_by_exception, '
    'exit_context_by_BaseException (not an Exception, like KeyboardInterrupt / '
    'GeneratorExit), make_context(b) + enter_the_made_context later (what a '
    'context restores is the backend current at entry), get, bind} with '
    'b in {None, "jit", "debug", "pmap", 4 concrete backend objects}; the main '
    'thread optionally holds its own backend context meanwhile. Non-trivial: '
    'some get/bind is executed by a thread while another thread (or main) '
    'currently has a different backend, and at least one context was exited.')
RULE += (
    ' '
    'Later widenings: a quarter of the fold cases run after an abandoned run of the same func'
    'tion; a third call the function a second time with the same shared container whose entri'
    'es were replaced; thread histories include deferred context entry and exits by BaseExcep'
    'tion.')
ASSUMPTIONS = [
    'client functions are pure jax functions of their arguments (traceable, '
    'shape-stable); within one call all clients have equally shaped client '
    'inputs, and for the pmap backend all batches have one shape (ClientBlock '
    'documents "uniformly shaped clients"); jit/debug also get a ragged last batch',
    'real batches have sum(x) >= 1 and client_input.s != 0, so every reference '
    'value is finite; only zero padding makes the 1/x and log terms non-finite',
    'all inputs are small integers and all coefficients are powers of two: '
    'programs without 1/x or log terms are compared EXACTLY (np.array_equal). '
    'Programs with such a term are compared with |got-want| <= 1e-6 * (1 + max '
    '|value| along that client\'s reference trajectory): the term itself is '
    'rounded once, products with powers of two are exact, so only a different '
    'fusion of the same float32 additions can differ; integer and bool leaves '
    'are always compared exactly',
    'the reference is the same three closures applied eagerly (op-by-op jnp '
    'dispatch, no fedjax code) to arrays built separately from the case',
    'client order: pmap may reorder (documented in _blockify); for jit and debug '
    'the input order is required, as in the for_each_client docstring example '
    'and "each client is processed sequentially"',
    'the function returned by fedjax.for_each_client is cached per (program, '
    'backend, with_step_result, selection) and reused across cases, as '
    'algorithms reuse it across rounds',
    'thread check: string backends are recognised by class, concrete objects by '
    'identity; the default (None) is "an instance of ForEachClientJitBackend" '
    '(BackendChoice.DEFAULT_BACKEND); a new thread starts with the default '
    'regardless of what the creating thread selected',
]

F32 = np.float32
LEAVES = ['a', 'n', 'm', 'flag']
HALVES = [-4, -2, -1, 0, 1, 2, 4]       # numerators over 2
NZ_HALVES = [-4, -2, -1, 1, 2, 4]
INTS = [-2, -1, 0, 1, 2]
EMITS = ['sum', 'cnt', 'vec', 'inv', 'pos']
TOL = 1e-6


def h(c2):
  return F32(c2 / 2.0)


# ------------------------------------------------------------------ programs

def program_is_inexact(prog):
  i, s = prog['init'], prog['step']
  if 'a' in i and i['a'][0] == 'affine' and i['a'][3]:
    return True
  if 'a' in s and (s['a'][3] or s['a'][4]):
    return True
  if 'm' in s and s['m'][2]:
    return True
  return 'inv' in prog['emit']


def program_step_special(prog):
  s = prog['step']
  return bool(('a' in s and (s['a'][3] or s['a'][4])) or ('m' in s and s['m'][2])
              or 'inv' in prog['emit'])


def program_init_special(prog):
  i = prog['init']
  return bool('a' in i and i['a'][0] == 'affine' and i['a'][3])


def _acc(shape, terms):
  """zeros(shape) + sum of c/2 * value over the terms with c != 0."""
  out = jnp.zeros(shape, jnp.float32)
  for c2, v in terms:
    if c2:
      out = out + h(c2) * v
  return out


@functools.lru_cache(maxsize=32)
def build_fns(prog_json):
  """(client_init, client_step_with_result, client_step_plain, client_final|None)."""
  prog = json.loads(prog_json)
  k = prog['k']
  leaves = prog['leaves']
  ini, stp, emit, fin = prog['init'], prog['step'], prog['emit'], prog['final']

  def client_init(shared, cin):
    st_ = {}
    if 'a' in leaves:
      spec = ini['a']
      if spec[0] == 'shared':
        st_['a'] = shared['w']
      elif spec[0] == 'client':
        st_['a'] = cin['u']
      else:
        terms = [(spec[1], shared['w']), (spec[2], cin['u'])]
        if spec[3]:
          terms.append((spec[3], 1.0 / cin['s'].astype(jnp.float32)))
        st_['a'] = _acc((k,), terms)
    if 'n' in leaves:
      spec = ini['n']
      if spec[0] == 'shared':
        st_['n'] = shared['c']
      elif spec[0] == 'client':
        st_['n'] = cin['s']
      else:
        st_['n'] = spec[1] * shared['c'] + spec[2] * cin['s']
    if 'm' in leaves:
      spec = ini['m']
      if spec[0] == 'shared':
        st_['m'] = shared['g']
      else:
        st_['m'] = _acc((2, 2), [(spec[1], shared['g']),
                                 (spec[2], cin['s'].astype(jnp.float32))])
    if 'flag' in leaves:
      spec = ini['flag']
      if spec[0] == 'gt':
        st_['flag'] = cin['s'] > shared['c']
      else:
        st_['flag'] = jnp.asarray(bool(spec[1]))
    if prog.get('z'):
      # an integer accumulator that the first step turns into a float32 one
      # (`count = 0` ... `count + 0.5 * x`): the state's dtype changes once
      st_['z'] = cin['s']
    return st_

  def _step(state, batch):
    x, y = batch['x'], batch['y']
    bx = jnp.sum(x, axis=0)
    bs = jnp.sum(x)
    by = jnp.sum(y)
    new = {}
    if 'a' in leaves:
      c = stp['a']
      terms = [(c[0], state['a']), (c[1], bx)]
      if 'n' in leaves:
        terms.append((c[2], state['n'].astype(jnp.float32)))
      if c[3]:
        terms.append((c[3], 1.0 / bs))
      if c[4]:
        terms.append((c[4], jnp.log(bs)))
      new['a'] = _acc((k,), terms)
    if 'n' in leaves:
      c = stp['n']
      new['n'] = c[0] * state['n'] + c[1] * by + c[2]
    if 'm' in leaves:
      c = stp['m']
      terms = [(c[0], state['m']), (c[1], bs)]
      if c[2]:
        terms.append((c[2], 1.0 / bs))
      new['m'] = _acc((2, 2), terms)
    if 'flag' in leaves:
      mode = stp['flag']
      if mode == 'toggle':
        new['flag'] = jnp.logical_not(state['flag'])
      elif mode == 'xor_pos':
        new['flag'] = jnp.logical_xor(state['flag'], by > 0)
      else:
        new['flag'] = state['flag']
    if prog.get('z'):
      new['z'] = state['z'] + h(prog['z']) * bs
    res = {}
    if 'sum' in emit:
      res['sum'] = bs
    if 'cnt' in emit:
      res['cnt'] = by
    if 'vec' in emit:
      res['vec'] = new['a'] if 'a' in leaves else bx
    if 'inv' in emit:
      res['inv'] = 1.0 / bs
    if 'pos' in emit:
      res['pos'] = by > 0
    return new, res

  def client_step_with_result(state, batch):
    return _step(state, batch)

  def client_step_plain(state, batch):
    return _step(state, batch)[0]

  client_final = None
  if fin is not None:
    def client_final(shared, state):  # pylint: disable=function-redefined
      out = {}
      if 'a' in leaves:
        out['a'] = _acc((k,), [(fin['a'][0], state['a']), (fin['a'][1], shared['w'])])
      if 'n' in leaves:
        out['n'] = state['n'] + fin['n'][0] * shared['c']
      if 'm' in leaves:
        out['m'] = state['m']          # a donated state leaf returned unchanged
      if 'flag' in leaves:
        out['flag'] = state['flag']
      if prog.get('z'):
        out['z'] = state['z']
      if fin['extra_shared']:
        out['g'] = shared['g']         # a shared leaf returned unchanged
      return out

  return client_init, client_step_with_result, client_step_plain, client_final


def backend_of(name):
  """'jit' / 'debug' / 'pmap' stay names (resolved by fedjax); 'pmap:d' -> object."""
  if ':' in name:
    d = int(name.split(':')[1])
    return fec.ForEachClientPmapBackend(jax.local_devices()[:d])
  return name


def device_count(name):
  if not name.startswith('pmap'):
    return None
  return int(name.split(':')[1]) if ':' in name else len(jax.local_devices())


@functools.lru_cache(maxsize=32)
def build_for_each_client(prog_json, backend, with_step_result, select):
  init, step_r, step_p, final = build_fns(prog_json)
  step = step_r if with_step_result else step_p
  kwargs = {'with_step_result': True} if with_step_result else {}

  def make():
    if final is None:
      return fedjax.for_each_client(init, step, **kwargs)
    return fedjax.for_each_client(init, step, final, **kwargs)

  if select == 'set':
    try:
      fedjax.set_for_each_client_backend(backend_of(backend))
      return make()
    finally:
      fedjax.set_for_each_client_backend(None)
  with fedjax.for_each_client_backend(backend_of(backend)):
    return make()


# -------------------------------------------------------------------- inputs

def np_inputs(case):
  """Plain numpy view of the case: (shared, [(id, [batches], client_input)])."""
  k = case['prog']['k']
  sh = case['shared']
  shared = {'w': np.asarray(sh['w'], F32).reshape((k,)),
            'c': np.asarray(sh['c'], np.int32),
            'g': np.asarray(sh['g'], F32).reshape((2, 2))}
  clients = []
  for c in case['clients']:
    batches = []
    for b in c['batches']:
      rows = len(b['y'])
      batches.append({'x': np.asarray(b['x'], F32).reshape((rows, k)),
                      'y': np.asarray(b['y'], np.int32).reshape((rows,))})
    cin = {'u': np.asarray(c['u'], F32).reshape((k,)), 's': np.asarray(c['s'], np.int32)}
    clients.append((bytes.fromhex(c['id']), batches, cin))
  return shared, clients


def to_jax(tree):
  return jax.tree_util.tree_map(lambda v: jnp.asarray(v.copy()), tree)


def reference(case):
  """The definition, executed eagerly without a backend, on its own arrays.

  Returns {id: (output, [step results], scale)}.
  """
  init, step_r, _, final = build_fns(canonical(case['prog']))
  shared_np, clients_np = np_inputs(case)
  shared = to_jax(shared_np)
  out = {}
  for cid, batches, cin in clients_np:
    state = init(shared, to_jax(cin))
    seen = [state]
    results = []
    for b in batches:
      state, res = step_r(state, to_jax(b))
      seen.append(state)
      results.append(res)
    output = state if final is None else final(shared, state)
    seen.append(output)
    seen.extend(results)
    scale = 0.0
    for leaf in jax.tree_util.tree_leaves(seen):
      v = np.asarray(leaf)
      if v.dtype.kind == 'f':
        # Harness sanity: the generated domain keeps every reference value finite.
        assert np.all(np.isfinite(v)), ('non-finite reference value', case)
        if v.size:
          scale = max(scale, float(np.max(np.abs(v))))
    out[cid] = (output, results, scale)
  return out


# ---------------------------------------------------------------- comparison

def _leaf_np(leaf, clause, where):
  if hasattr(leaf, 'is_deleted') and leaf.is_deleted():
    raise Violation(clause + ':deleted_buffer', where)
  return np.asarray(leaf)


def compare_tree(got, want, exact, tol, clause, where):
  gs, ws = jax.tree_util.tree_structure(got), jax.tree_util.tree_structure(want)
  require(gs == ws, clause + ':structure', lambda: f'{where}: {gs} vs {ws}')
  for (path, g), w in zip(jax.tree_util.tree_leaves_with_path(got),
                          jax.tree_util.tree_leaves(want)):
    p = jax.tree_util.keystr(path)
    g = _leaf_np(g, clause, f'{where} leaf {p}')
    w = np.asarray(w)
    if p.endswith("['z']"):
      # the accumulator whose dtype the first step changes: a client that saw no
      # real batch may come back as int32 or (stacked with clients that did, in
      # a pmap block) as float32 -- only its VALUE is compared
      g, w = g.astype(np.float64), w.astype(np.float64)
    require(g.dtype == w.dtype and g.shape == w.shape, clause + ':dtype_or_shape',
            lambda: f'{where} leaf {p}: {g.dtype}{g.shape} vs {w.dtype}{w.shape}')
    if exact or w.dtype.kind != 'f':
      ok = bool(np.array_equal(g, w))
    else:
      ok = bool(np.all(np.isfinite(g)) and np.all(np.abs(g - w) <= tol))
    require(ok, clause + ':value',
            lambda: f'{where} leaf {p}: got {g.tolist()} want {w.tolist()}'
                    + ('' if exact else f' tol {tol:.3e}'))


def pmap_blocks(counts, d):
  s = sorted(counts, reverse=True)
  return [s[i:i + d] for i in range(0, len(s), d)]


# ----------------------------------------------------------------- run: fold

def run_fold(case):
  prog = case['prog']
  pj = canonical(prog)
  backend = case['backend']
  wsr = case['with_step_result']
  func = build_for_each_client(pj, backend, wsr, case['select'])
  want = reference(case)
  exact = not program_is_inexact(prog)

  # Caller-owned inputs.
  shared_np, clients_np = np_inputs(case)
  shared = to_jax(shared_np)
  owned = [('shared_input', f'shared[{k_}]', shared[k_], shared_np[k_]) for k_ in shared]
  clients = []
  for cid, batches_np, cin_np in clients_np:
    cin = to_jax(cin_np)
    for k_ in cin:
      owned.append(('client_input', f'client {cid.hex()} input[{k_}]', cin[k_], cin_np[k_]))
    batches = []
    for bi, b_np in enumerate(batches_np):
      if case['batch_kind'] == 'numpy':
        b = {k_: v.copy() for k_, v in b_np.items()}
      else:
        b = to_jax(b_np)
      for k_ in b:
        owned.append(('batch', f'client {cid.hex()} batch {bi}[{k_}]', b[k_], b_np[k_]))
      batches.append(b)
    clients.append((cid, batches, cin))

  # for_each_client takes any hashable as a client id (`ClientId = Any`):
  # bytes, str, int, tuples -- and None, although None is what the pmap backend
  # uses internally for its padding clients.
  id_kind = case.get('id_kind', 'bytes')

  def external(j, cid):
    if id_kind == 'str':
      return 'id-' + cid.hex()
    if id_kind == 'int':
      return int.from_bytes(cid, 'big') - 7
    if id_kind == 'tuple':
      return (j % 2, cid)
    if id_kind == 'none_one' and j == case.get('none_pos', 0) % max(1, len(clients)):
      return None
    return cid

  ext = {cid: external(j, cid) for j, (cid, _, _) in enumerate(clients)}
  inv = {}
  for cid, e in ext.items():
    inv[e] = cid

  def client_tuples():
    for cid, batches, cin in clients:
      yield ext[cid], (iter(batches) if case['batches_as'] == 'iterator' else batches), cin

  if case.get('abandoned_run') and clients:
    # An earlier run of the SAME function over the same clients was given up
    # after its first results (a consumer that raised, a `break`): what the
    # next run yields is decided by its own arguments alone.
    it = iter(func(shared, [(ext[cid], list(batches), cin) for cid, batches, cin in clients]))
    for _ in range(case['abandoned_run']):
      next(it, None)
    if case['abandoned_run'] % 2 and hasattr(it, 'close'):
      it.close()
    del it
  arg = client_tuples() if case['clients_as'] == 'generator' else list(client_tuples())
  got = list(func(shared, arg))
  bad_ids = [item[0] for item in got if isinstance(item, tuple) and item and
             not (item[0].__hash__ is not None and item[0] in inv)]
  require(not bad_ids, 'result_for_unknown_or_padding_client',
          lambda: f'yielded ids {bad_ids!r} for input ids {list(inv)!r}')
  got = [((inv[item[0]],) + tuple(item[1:])) if isinstance(item, tuple) and item else item
         for item in got]

  ids = [cid for cid, _, _ in clients]
  w = f'backend={backend} clients={len(ids)} batch_counts={[len(b) for _, b, _ in clients]}'
  arity = 3 if wsr else 2
  for item in got:
    require(isinstance(item, tuple) and len(item) == arity, 'result_tuple_arity',
            lambda: f'{w}: {type(item).__name__} of length {len(item)}, want {arity}')
  got_ids = [item[0] for item in got]
  require(all(isinstance(i, bytes) and i in want for i in got_ids),
          'result_for_unknown_or_padding_client',
          lambda: f'{w}: yielded ids {got_ids!r} for input ids {[i.hex() for i in ids]}')
  require(sorted(got_ids) == sorted(ids), 'not_exactly_one_result_per_client',
          lambda: f'{w}: yielded {[i.hex() for i in got_ids]} for {[i.hex() for i in ids]}')
  if not backend.startswith('pmap'):
    require(got_ids == ids, 'order_not_preserved',
            lambda: f'{w}: yielded {[i.hex() for i in got_ids]} for {[i.hex() for i in ids]}')
  nb = {cid: len(b) for cid, b, _ in clients}
  for item in got:
    cid = item[0]
    output, results, scale = want[cid]
    tol = TOL * (1.0 + scale)
    wc = f'{w} client {cid.hex()} ({nb[cid]} batches)'
    compare_tree(item[1], output, exact, tol, 'output', wc)
    if wsr:
      sr = item[2]
      require(isinstance(sr, list), 'step_results:not_a_list', f'{wc}: {type(sr).__name__}')
      require(len(sr) == nb[cid], 'step_results:count',
              lambda: f'{wc}: {len(sr)} step results')
      for j, (g, r) in enumerate(zip(sr, results)):
        compare_tree(g, r, exact, tol, 'step_results', f'{wc} step {j}')

  # The caller's arrays are still valid and unchanged.
  for kind, name, arr, snap in owned:
    if hasattr(arr, 'is_deleted'):
      require(not arr.is_deleted(), f'caller_array_deleted:{kind}', f'{w}: {name}')
    now = np.asarray(arr)
    require(now.dtype == snap.dtype and now.shape == snap.shape and
            bool(np.array_equal(now, snap)), f'caller_array_changed:{kind}',
            lambda: f'{w}: {name}: {now.tolist()} was {snap.tolist()}')

  if case.get('second_call') and clients:
    # The same function is called again with the SAME shared-input container,
    # whose entries were replaced in between (a training loop that keeps its
    # server state in one dict): the call sees the current content.
    case2 = json.loads(json.dumps(case))
    case2['shared']['w'] = [x + 1 for x in case['shared']['w']]
    case2['shared']['c'] = case['shared']['c'] + 1
    want2 = reference(case2)
    sh2, _ = np_inputs(case2)
    shared['w'] = jnp.asarray(sh2['w'].copy())
    shared['c'] = jnp.asarray(sh2['c'].copy())
    arg2 = [(ext[cid], batches, cin) for cid, batches, cin in clients]
    got2 = list(func(shared, arg2))
    require(sorted(inv[item[0]] for item in got2) == sorted(ids),
            'second_call:not_exactly_one_result_per_client', f'{w}')
    for item in got2:
      cid = inv[item[0]]
      output, _, scale = want2[cid]
      compare_tree(item[1], output, exact, TOL * (1.0 + scale),
                   'second_call_with_updated_shared_input:output',
                   f'{w} client {cid.hex()} (shared input replaced in place)')
  return None


# -------------------------------------------------------------- labels: fold

def fold_labels(case):
  prog = case['prog']
  backend = case['backend']
  counts = [len(c['batches']) for c in case['clients']]
  n = len(counts)
  ls = ['backend:' + backend.split(':')[0], 'select:' + case['select'],
        'leaves:%d' % len(prog['leaves'])]
  ls.append('clients:' + ('0' if n == 0 else '1' if n == 1 else '2-4' if n <= 4 else
                          '5-8' if n <= 8 else '9+'))
  if case['with_step_result']:
    ls.append('with_step_result')
    if not prog['emit']:
      ls.append('empty_step_result_tree')
  if case['clients_as'] == 'generator':
    ls.append('clients_generator')
  if case['batches_as'] == 'iterator':
    ls.append('batches_iterator')
  if case['batch_kind'] == 'numpy':
    ls.append('numpy_batches')
  if prog['final'] is None:
    ls.append('final_default')
  elif prog['final']['extra_shared']:
    ls.append('final_returns_shared_leaf')
  for leaf, spec in prog['init'].items():
    if spec[0] == 'shared':
      ls.append('init_returns_shared_leaf')
    if spec[0] == 'client':
      ls.append('init_returns_client_input_leaf')
  if 'flag' in prog['leaves']:
    ls.append('bool_leaf')
  if prog.get('z'):
    ls.append('state_dtype_changes_at_first_step')
  if case.get('second_call'):
    ls.append('second_call_same_shared_container')
  if case.get('abandoned_run'):
    ls.append('after_an_abandoned_run_of_the_same_function')
  step_special = program_step_special(prog)
  init_special = program_init_special(prog)
  if step_special:
    ls.append('step_nonfinite_on_zero_batch')
  if init_special:
    ls.append('init_nonfinite_on_zero_client_input')
  ls.append('inexact_program' if program_is_inexact(prog) else 'exact_program')
  if n >= 1 and 0 in counts:
    ls.append('zero_batch_client')
  if n >= 1 and not any(counts):
    ls.append('all_clients_zero_batches')
  if len(set(counts)) >= 2:
    ls.append('unequal_batch_counts')
  sizes = {len(b['y']) for c in case['clients'] for b in c['batches']}
  if len(sizes) >= 2:
    ls.append('ragged_batch_rows')
  d = device_count(backend)
  if d is not None:
    ls.append('devices:%d' % d)
    blocks = pmap_blocks(counts, d)
    pad_clients = n % d != 0
    pad_batches = any(len(set(b)) > 1 for b in blocks)
    if pad_clients:
      ls.append('pmap:padding_clients')
    if pad_batches:
      ls.append('pmap:padding_batches')
    if pad_clients and pad_batches:
      ls.append('pmap:both_paddings')
    if len(blocks) >= 2:
      ls.append('pmap:blocks>=2')
    if n and n < d:
      ls.append('pmap:fewer_clients_than_devices')
    if step_special and pad_batches:
      ls.append('pmap:nonfinite_step_on_padding_batch')
    if (init_special or step_special) and pad_clients:
      ls.append('pmap:nonfinite_on_padding_client')
    if counts != sorted(counts, reverse=True):
      ls.append('pmap:input_not_sorted_by_batch_count')
  return ls


def fold_nontrivial(case, ls):
  return ('pmap:both_paddings' in ls or 'pmap:nonfinite_step_on_padding_batch' in ls or
          'pmap:nonfinite_on_padding_client' in ls or
          ('zero_batch_client' in ls and len(case['clients']) >= 2))


# ------------------------------------------------------------ strategy: fold

_half = st.sampled_from(HALVES)
_nzhalf = st.sampled_from(NZ_HALVES)
_int = st.sampled_from(INTS)
# a special-term coefficient: absent (0) half of the time
_special = st.one_of(st.just(0), _nzhalf)

# Indexed by (one wide drawn integer) mod len(table): Hypothesis draws small bounded
# integers / menu positions very unevenly, which starved some device counts.
# Positions 0 and 1 (drawn most often) hold the most padding-prone backends.
BACKEND_TABLE = ['pmap:8', 'pmap:3', 'debug', 'pmap', 'pmap', 'pmap:1', 'pmap:2', 'pmap:2',
                 'jit', 'pmap:3', 'pmap:4', 'pmap:4', 'pmap:5', 'pmap:5', 'pmap:6',
                 'pmap:6', 'pmap:7', 'pmap:7', 'jit', 'debug', 'jit']


@st.composite
def program_strategy(draw):
  k = draw(st.sampled_from([1, 3]))
  leaves = sorted(draw(st.sets(st.sampled_from(LEAVES), min_size=1)),
                  key=LEAVES.index)
  # the vector leaf carries most of the arithmetic: keep it common
  if 'a' not in leaves and draw(st.booleans()):
    leaves = ['a'] + leaves
  init, step = {}, {}
  # 2 in 5 programs are exactly representable throughout (no 1/x, log terms)
  special = _special if draw(st.sampled_from([0, 0, 1, 1, 1])) else st.just(0)
  if 'a' in leaves:
    init['a'] = draw(st.one_of(
        st.tuples(st.just('affine'), _half, _half, special).map(list),
        st.tuples(st.just('affine'), _half, _half, special).map(list),
        st.just(['shared']), st.just(['client'])))
    step['a'] = [draw(_half), draw(_half), draw(_half), draw(special), draw(special)]
  if 'n' in leaves:
    init['n'] = draw(st.one_of(
        st.tuples(st.just('affine'), _int, _int).map(list),
        st.just(['shared']), st.just(['client'])))
    step['n'] = [draw(st.sampled_from([-1, 0, 1, 2])), draw(_int), draw(st.sampled_from([0, 1, 1]))]
  if 'm' in leaves:
    init['m'] = draw(st.one_of(
        st.tuples(st.just('affine'), _half, _half).map(list), st.just(['shared'])))
    step['m'] = [draw(_half), draw(_half), draw(special)]
  if 'flag' in leaves:
    init['flag'] = draw(st.one_of(st.just(['gt']), st.tuples(
        st.just('const'), st.integers(0, 1)).map(list)))
    step['flag'] = draw(st.sampled_from(['toggle', 'xor_pos', 'keep']))
  emits = EMITS if special is _special else [e for e in EMITS if e != 'inv']
  emit = sorted(draw(st.sets(st.sampled_from(emits), max_size=3)), key=EMITS.index)
  final = None
  if draw(st.integers(0, 2)):
    final = {'extra_shared': draw(st.booleans())}
    if 'a' in leaves:
      final['a'] = [draw(_nzhalf), draw(_half)]
    if 'n' in leaves:
      final['n'] = [draw(_int)]
  prog = {'k': k, 'leaves': leaves, 'init': init, 'step': step, 'emit': emit,
          'final': final}
  if draw(st.integers(0, 3)) == 0:
    prog['z'] = draw(st.sampled_from([1, -1, 3]))   # halves: 0.5, -0.5, 1.5
  return prog


def _digits(draw, count, lo, hi):
  """`count` integers in [lo, hi] from ONE drawn integer (keeps big populations

  cheap for Hypothesis: few choices per case, so large cases are not discarded).
  """
  base = hi - lo + 1
  v = draw(st.integers(0, base ** count - 1))
  out = []
  for _ in range(count):
    out.append(lo + v % base)
    v //= base
  return out


def _batch(draw, rows, k):
  x = _digits(draw, rows * k, -2, 4)
  total = sum(x)
  if total < 1:
    x[0] += 1 - total           # real batches have a positive sum
  return {'x': x, 'y': _digits(draw, rows, -3, 3)}


@st.composite
def fold_strategy(draw, tier):
  prog = draw(program_strategy())
  k = prog['k']
  backend = BACKEND_TABLE[draw(st.integers(0, 2 ** 16 - 1)) % len(BACKEND_TABLE)]
  max_clients, max_batches = (11, 4) if tier == 'quick' else (14, 6)
  d = device_count(backend)
  # (Hypothesis favours the ends of a menu: keep interesting counts there)
  n = draw(st.sampled_from([5, 1, 2, 3, 0, 4, 6, 8, 9, 10] +
                           list(range(11, max_clients + 1)) + [3, 7]))
  if d is not None and d > 1 and n % d == 0 and draw(st.integers(0, 3)):
    n = min(max_clients, n + draw(st.integers(1, d - 1)))   # not a multiple, mostly
  rows = draw(st.sampled_from([1, 2, 2, 3]))
  ragged = d is None and draw(st.booleans())
  # distinct byte ids by construction (first byte = position + offset)
  offset = draw(st.sampled_from([0, 0x61, 0xf0]))
  ids = [bytes([offset + i]) + draw(st.sampled_from([b'', b'', b'\x00', b'c']))
         for i in range(n)]
  if n and draw(st.booleans()):
    ids[0] = b''
  if draw(st.booleans()):
    ids.reverse()
  count_menu = [1, 0, 2, 1, 3, 2, 0, max_batches]
  clients = []
  for i in range(n):
    nb = draw(st.sampled_from(count_menu))
    batches = []
    for j in range(nb):
      r = rows
      if ragged and nb >= 2 and j == nb - 1:
        r = rows % 3 + 1
      batches.append(_batch(draw, r, k))
    s = draw(st.sampled_from([-3, -2, -1, 1, 2, 3, 4]))
    clients.append({'id': ids[i].hex(),
                    'u': _digits(draw, k, -3, 3),
                    's': s, 'batches': batches})
  return {
      'prog': prog,
      'backend': backend,
      'select': draw(st.sampled_from(['context', 'context', 'set'])),
      'with_step_result': draw(st.sampled_from([True, True, False])),
      'clients_as': draw(st.sampled_from(['list', 'generator'])),
      'id_kind': draw(st.sampled_from(['bytes', 'bytes', 'bytes', 'str', 'int', 'tuple',
                                       'none_one', 'none_one'])),
      'none_pos': draw(st.integers(0, 10)),
      'batches_as': draw(st.sampled_from(['list', 'list', 'iterator'])),
      'batch_kind': draw(st.sampled_from(['jax', 'jax', 'numpy'])),
      'shared': {'w': _digits(draw, k, -3, 3),
                 'c': draw(st.integers(-2, 2)),
                 'g': _digits(draw, 4, -2, 2)},
      'clients': clients,
      'second_call': draw(st.integers(0, 2)) == 0,
      'abandoned_run': draw(st.sampled_from([0, 0, 0, 1, 2])),
  }


# ------------------------------------------------------------- run: threads

NAMES = ['none', 'jit', 'debug', 'pmap', 'objA', 'objB', 'objC', 'objD']
STRING_CLASS = {'none': 'ForEachClientJitBackend', 'jit': 'ForEachClientJitBackend',
                'debug': 'ForEachClientDebugBackend', 'pmap': 'ForEachClientPmapBackend'}


class Recorder(fec.ForEachClientBackend):
  """A concrete backend object; records which thread bound it."""

  def __init__(self, tag):
    self.tag = tag
    self.calls = []

  def __call__(self, client_init, client_step, client_final):
    self.calls.append(threading.get_ident())
    return ('bound', self)

  def __repr__(self):
    return f'<Recorder {self.tag}>'


class _LeaveByException(Exception):
  pass


def _noop_init(shared, cin):
  return shared


def _noop_step(state, batch):
  return state, ()


class _LeaveByBaseException(BaseException):
  """Like KeyboardInterrupt / GeneratorExit / CancelledError: not an Exception."""


def _worker(inbox, outbox, resolve):
  """Executes one command per message; contexts are real `with` blocks."""

  made = []   # context-manager objects created but not entered yet

  def interp():
    while True:
      op, arg = inbox.get()
      if op == 'stop':
        return 'stop'
      if op == 'make':
        # the context object is created now and entered later: what it restores
        # on exit is the backend current at ENTRY
        made.append(fedjax.for_each_client_backend(resolve(arg)))
        outbox.put(('ok', None))
        continue
      if op == 'get':
        outbox.put(('val', fedjax.get_for_each_client_backend()))
      elif op == 'bind':
        outbox.put(('val', fedjax.for_each_client(_noop_init, _noop_step,
                                                  with_step_result=True)))
      elif op == 'set':
        fedjax.set_for_each_client_backend(resolve(arg))
        outbox.put(('ok', None))
      elif op in ('enter', 'enter_made'):
        how = None
        cm = made.pop() if op == 'enter_made' else fedjax.for_each_client_backend(resolve(arg))
        try:
          with cm:
            outbox.put(('ok', None))
            how = interp()
            if how == 'exit_exc':
              raise _LeaveByException()
            if how == 'exit_base':
              raise _LeaveByBaseException()
        except (_LeaveByException, _LeaveByBaseException):
          pass
        if how == 'stop':
          return 'stop'
        outbox.put(('ok', None))
      elif op in ('exit', 'exit_exc', 'exit_base'):
        return op
      else:
        raise AssertionError(op)

  try:
    interp()
    outbox.put(('done', (threading.get_ident(), fedjax.get_for_each_client_backend())))
  except BaseException as e:  # pylint: disable=broad-except
    outbox.put(('error', e))


def simulate_threads(case):
  """Per-thread stack model.  Yields (index, thread, op, arg, expected, others)

  for every observation (`get` / `bind`): expected = the thread's current
  backend name, others = current names of the other threads and of main.
  """
  n = case['threads']
  cur = ['none'] * n
  stack = [[] for _ in range(n)]
  made = [[] for _ in range(n)]
  obs = []
  for i, (t, op, arg) in enumerate(case['ops']):
    if op == 'set':
      cur[t] = arg
    elif op == 'make':
      made[t].append(arg)
    elif op == 'enter':
      stack[t].append(cur[t])
      cur[t] = arg
    elif op == 'enter_made':
      stack[t].append(cur[t])
      cur[t] = made[t].pop()
    elif op in ('exit', 'exit_exc', 'exit_base'):
      cur[t] = stack[t].pop()
    else:
      others = [cur[u] for u in range(n) if u != t] + [case['main'] or 'none']
      obs.append((i, t, op, arg, cur[t], others))
  return obs, cur, stack


def run_threads(case):
  n = case['threads']
  objs = {'objA': Recorder('A'), 'objB': Recorder('B'), 'objC': Recorder('C'),
          'objD': fec.ForEachClientDebugBackend(), 'objM': Recorder('main')}
  recorders = [o for o in objs.values() if isinstance(o, Recorder)]

  def resolve(name):
    if name == 'none':
      return None
    return objs.get(name, name)

  def matches(name, got):
    if name in STRING_CLASS:
      return type(got).__name__ == STRING_CLASS[name] and isinstance(
          got, getattr(fec, STRING_CLASS[name]))
    return got is objs[name]

  main_name = case['main'] or 'none'
  inbox = [queue.Queue() for _ in range(n)]
  outbox = queue.Queue()
  threads = [threading.Thread(target=_worker, args=(inbox[t], outbox, resolve), daemon=True)
             for t in range(n)]
  cur = ['none'] * n
  stack = [[] for _ in range(n)]
  made = [[] for _ in range(n)]
  idents = {}

  def turn(t, op, arg):
    inbox[t].put((op, arg))
    kind, val = outbox.get(timeout=120)
    if kind == 'error':
      raise val
    return kind, val

  def check_main(where):
    got = fedjax.get_for_each_client_backend()
    require(matches(main_name, got), 'main_thread_backend_changed_by_worker',
            lambda: f'{where}: main thread sees {got!r}, selected {main_name}')

  def observe(t, op, where):
    total_before = sum(len(r.calls) for r in recorders)
    _, got = turn(t, op, None)
    want = cur[t]
    if op == 'get':
      require(matches(want, got), 'get:wrong_backend_in_thread',
              lambda: f'{where}: thread {t} sees {got!r}, model says {want} '
                      f'(other threads: {[cur[u] for u in range(n) if u != t]}, main: {main_name})')
    else:
      rec = objs.get(want)
      if isinstance(rec, Recorder):
        require(isinstance(got, tuple) and len(got) == 2 and got[1] is rec,
                'bind:for_each_client_used_wrong_backend',
                lambda: f'{where}: thread {t} bound {got!r}, model says {want}')
      else:
        require(sum(len(r.calls) for r in recorders) == total_before and callable(got),
                'bind:for_each_client_used_wrong_backend',
                lambda: f'{where}: thread {t} bound {got!r}, model says {want}')

  started = []
  try:
    if case['main']:
      fedjax.set_for_each_client_backend(resolve(case['main']))
    for th in threads:
      th.start()
      started.append(th)
    for i, (t, op, arg) in enumerate(case['ops']):
      where = f'after op {i} {[t, op, arg]}'
      if op in ('get', 'bind'):
        observe(t, op, where)
      else:
        turn(t, op, arg)
        if op == 'set':
          cur[t] = arg
        elif op == 'make':
          made[t].append(arg)
        elif op == 'enter':
          stack[t].append(cur[t])
          cur[t] = arg
        elif op == 'enter_made':
          stack[t].append(cur[t])
          cur[t] = made[t].pop()
        else:
          cur[t] = stack[t].pop()
      check_main(where)
    # Final sweep: every thread, then unwind whatever is still open.
    for t in range(n):
      observe(t, 'get', f'final sweep thread {t}')
    for t in range(n):
      kind, val = turn(t, 'stop', None)
      assert kind == 'done'
      bottom = stack[t][0] if stack[t] else cur[t]
      require(matches(bottom, val[1]), 'get:wrong_backend_after_unwinding',
              lambda: f'thread {t} after leaving all contexts sees {val[1]!r}, model says {bottom}')
    check_main('end')
  finally:
    for t, th in enumerate(threads):
      if th in started and th.is_alive():
        inbox[t].put(('stop', None))
    for th in started:
      th.join(timeout=30)
    fedjax.set_for_each_client_backend(None)
  return None


def _kind(name):
  return STRING_CLASS.get(name, name)


def threads_labels(case):
  obs, _, _ = simulate_threads(case)
  ops = case['ops']
  ls = ['threads:%d' % case['threads']]
  n_ops = len(ops)
  ls.append('ops:' + ('0-5' if n_ops <= 5 else '6-15' if n_ops <= 15 else '16-30' if n_ops <= 30 else '31+'))
  kinds = {op for _, op, _ in ops}
  for kname in ('set', 'enter', 'exit', 'exit_exc', 'exit_base', 'make', 'enter_made', 'get', 'bind'):
    if kname in kinds:
      ls.append('op:' + kname)
  if case['main']:
    ls.append('main_holds_backend')
  if any(arg == 'none' for _, op, arg in ops if op in ('set', 'enter')):
    ls.append('select_none')
  if any(arg in STRING_CLASS and arg != 'none' for _, op, arg in ops if op in ('set', 'enter')):
    ls.append('select_by_name')
  depth = [0] * case['threads']
  for t, op, arg in ops:
    if op in ('enter', 'enter_made'):
      depth[t] += 1
      if depth[t] >= 2:
        ls.append('nested_contexts')
      if sum(1 for x in depth if x) >= 2:
        ls.append('contexts_open_in_two_threads')
    elif op in ('exit', 'exit_exc', 'exit_base'):
      depth[t] -= 1
    elif op == 'set' and depth[t]:
      ls.append('set_inside_context')
  if any(depth):
    ls.append('context_left_open_at_end')
  if any(any(_kind(o) != _kind(exp) for o in others) for _, _, _, _, exp, others in obs):
    ls.append('observed_while_other_thread_differs')
  return sorted(set(ls))


def threads_nontrivial(case, ls):
  return ('observed_while_other_thread_differs' in ls and
          ('op:exit' in ls or 'op:exit_exc' in ls or 'op:exit_base' in ls))


@st.composite
def threads_strategy(draw, tier):
  n = draw(st.sampled_from([2, 2, 3]))
  max_ops = 30 if tier == 'quick' else 60
  length = draw(st.integers(0, max_ops))
  depth = [0] * n
  pending = [0] * n
  ops = []
  name = st.sampled_from(NAMES)
  for _ in range(length):
    t = draw(st.integers(0, n - 1))
    op = draw(st.sampled_from(['set', 'enter', 'enter', 'exit', 'exit_exc', 'exit_base', 'get',
                               'get', 'bind', 'make', 'enter_made', 'enter_made']))
    if op in ('exit', 'exit_exc', 'exit_base') and depth[t] == 0:
      op = 'get'
    if op in ('enter', 'enter_made') and depth[t] >= 4:
      op = 'get'
    if op == 'enter_made' and pending[t] == 0:
      op = 'make'
    if op == 'make' and pending[t] >= 2:
      op = 'get'
    if op in ('set', 'enter', 'make'):
      ops.append([t, op, draw(name)])
      if op == 'enter':
        depth[t] += 1
      if op == 'make':
        pending[t] += 1
    elif op == 'enter_made':
      ops.append([t, op, None])
      pending[t] -= 1
      depth[t] += 1
    else:
      ops.append([t, op, None])
      if op != 'get' and op != 'bind':
        depth[t] -= 1
  return {'threads': n, 'main': draw(st.sampled_from([None, 'objM', 'debug'])), 'ops': ops}


CHECKS = [
    Check(name='fold', run=run_fold, strategy=fold_strategy,
          labels=fold_labels, nontrivial=fold_nontrivial,
          budget={"quick": 960, "thorough": 12000}, time_share=5.0,
          doc='every backend (jit, debug, pmap over 1..8 devices) yields exactly '
              'one (id, output[, step results]) per client equal to the eager '
              'sequential fold; padding unobservable; caller arrays alive and unchanged'),
    Check(name='threads', run=run_threads, strategy=threads_strategy,
          labels=threads_labels, nontrivial=threads_nontrivial,
          budget={'quick': 2400, 'thorough': 24000}, time_share=1.0,
          doc='generated interleavings of set / context enter / exit / exit by '
              'exception / get / bind over 2-3 real threads vs a per-thread stack model'),
]
