"""C19 -- Downloaded and decompressed cache files appear only when complete.

Fault enumeration: every call of maybe_download / maybe_lzma_decompress is run
with a fault injected *underneath* the code under test (fake HTTP transport
behind a real requests.Response/urllib3 body, wrappers around the names `open`,
`os.rename`, `lzma.open` as seen from downloads.py).  After every interrupted
call the final cache path must be absent or complete; the following clean call
must return a complete file; a complete cached file is reused without network.
"""
import hashlib
import importlib.util
import io
import lzma as real_lzma
import os
import shutil
import tempfile

import requests as real_requests
import urllib3
from hypothesis import strategies as st

from vf import env as _env
from vf.core import Check, Discard, require

PROPERTY_ID = 'C19'
NEEDS_TF = False
LEVEL = 'fault_enumeration'
RULE = ('Per payload size (0, 1, block-1, block, block+1, 2*block, 3*block+7 '
        'for the 256 KiB transfer block; 0..200 KiB around the 64 KiB copy chunk '
        'for decompression) every single interruption point is enumerated '
        '(transport error / premature EOF at byte offsets on and between block '
        'boundaries, k-th write failing after a 0, 1/2 or all-but-one-byte '
        'prefix, rename failing, process death at each of those points; corrupt '
        'or truncated archive); Hypothesis adds schedules of 1-3 successive '
        'faults, cache pre-states (nothing / stale .partial / complete file), '
        'and hard os._exit crashes in a forked child. '
        'Non-trivial = at least one fault that fires strictly inside a transfer '
        'or decompression (after the first byte was written, before the last).')
RULE += (
    ' '
    'Also: premature EOF on a response that does not enforce the announced length; the downlo'
    'aded archive must survive an interrupted decompression.')
ASSUMPTIONS = [
    'disk-full model (download and decompression): the operating-system level write that hits '
    'the limit stores a prefix and returns the short count, later writes raise '
    'ENOSPC; open() is emulated faithfully (io.BufferedWriter over that raw file '
    'unless buffering=0 is requested)',
    'filesystem model: the cache directory lies on another filesystem than '
    'everything outside it, so shutil.move of a file INTO the cache directory is '
    'a copy onto the final name that can be interrupted; moves inside one '
    'directory are renames',
    'a 5xx answer carries an error page with its own content-length, not the file',
    'crash model: exception (BaseException subclass) at the fault point, plus '
    'a forked child calling os._exit there (no unwinding, no flush); '
    'reordering of distinct files by power loss is not modelled',
    'HTTP transport: a real requests.Response over a real urllib3 2.x '
    'HTTPResponse whose body behaves like http.client (read(n) returns n bytes '
    'unless the peer closed early -> short read without error; a broken '
    'connection raises)',
    'downloads.py is loaded stand-alone from the tree under test; only its '
    'names requests/open/os/lzma/log are rebound to fault-injecting proxies',
    'a corrupt archive is replaced by an intact one before the repairing call',
]

BLOCK = 1 << 18
COPY = 64 * 1024


class Crash(BaseException):
  """Models process death at a fault point (not caught by `except Exception`)."""


class HardExit(BaseException):
  pass


def payload_bytes(size, salt):
  out = bytearray()
  i = 0
  while len(out) < size:
    out += hashlib.sha256(b'%d:%d' % (salt, i)).digest()
    i += 1
  return bytes(out[:size])


def load_downloads():
  path = os.path.join(_env.repo_dir(), 'fedjax', 'datasets', 'downloads.py')
  spec = importlib.util.spec_from_file_location('vf_downloads_under_test', path)
  mod = importlib.util.module_from_spec(spec)
  spec.loader.exec_module(mod)
  mod.log = lambda *a, **k: None
  return mod


_MOD = None


def module():
  global _MOD
  if _MOD is None:
    _MOD = load_downloads()
  return _MOD


# ------------------------------------------------------------ fault injection

class Plan:
  """What to inject during one call, and what was observed."""

  def __init__(self, fault=None, hard=False):
    self.fault = fault or {'site': 'none'}
    self.hard = hard
    self.fired = False
    self.get_calls = 0
    self.lzma_opens = 0
    self.bytes_written = 0
    self.writes = 0
    self.reads = 0

  def die(self, exc):
    self.fired = True
    if self.hard:
      os._exit(17)
    raise exc

  def fail(self, mode, exc):
    """Raise the modelled error, or die if mode == 'crash'."""
    if mode == 'crash':
      self.die(Crash())
    self.fired = True
    raise exc


class FaultyBody:
  """The http.client response under urllib3: read(n) returns exactly
  min(n, remaining content-length) bytes unless the peer closes the connection
  early (then a short, possibly empty, result -- http.client does not raise) or
  the connection breaks (then the read raises and its bytes are lost)."""

  def __init__(self, payload, plan):
    self.payload, self.plan, self.pos = payload, plan, 0
    self.closed = False
    self.eof_at = None

  def read(self, amt=None):
    f = self.plan.fault
    size = len(self.payload)
    end = size if self.eof_at is None else self.eof_at
    want = end - self.pos
    if amt is not None and amt >= 0:
      want = min(want, amt)
    if f['site'] == 'net' and not self.plan.fired and self.pos + want > f['byte']:
      if f['kind'] == 'reset':
        self.plan.fail(f['mode'], ConnectionResetError(104, 'Connection reset by peer'))
      self.plan.fired = True   # premature EOF: the peer closed the connection
      self.eof_at = f['byte']
      want = max(0, f['byte'] - self.pos)
    data = self.payload[self.pos:self.pos + want]
    self.pos += len(data)
    return data

  def close(self):
    self.closed = True

  def flush(self):
    pass

  def fileno(self):
    raise OSError('no fileno')


class FakeRequests:
  """Stands in for the `requests` module inside downloads.py."""

  def __init__(self, payload, plan):
    self.payload, self.plan = payload, plan
    self.exceptions = real_requests.exceptions

  def get(self, url, stream=False, **kw):
    self.plan.get_calls += 1
    f = self.plan.fault
    if f['site'] == 'get':
      self.plan.fail(f['mode'], real_requests.exceptions.ConnectionError('injected'))
    resp = real_requests.Response()
    resp.url = url
    resp.status_code = 503 if f['site'] == 'status' else 200
    body = self.payload
    if f['site'] == 'status':
      self.plan.fired = True
      # what a server in trouble sends: an error page with its own length, not
      # the file that was asked for
      body = b'<html><body><h1>503 Service Unavailable</h1></body></html>\n'
    headers = {'content-length': str(len(body))}
    if f['site'] == 'no_length':
      headers = {}
      self.plan.fired = True
    resp.headers = real_requests.structures.CaseInsensitiveDict(headers)
    resp.raw = urllib3.HTTPResponse(
        body=FaultyBody(body, self.plan), headers=headers,
        status=resp.status_code, preload_content=False, decode_content=False,
        request_method='GET',
        # (urllib3 1.x did not, and 2.x need not, compare what was read with the
        # announced length: with 'lenient' a premature EOF is an ordinary short
        # or EMPTY read instead of an IncompleteRead error)
        enforce_content_length=not f.get('lenient', False))
    return resp


class FileProxy:
  """Write-mode file whose k-th write fails after a prefix reached the file."""

  def __init__(self, f, plan):
    self._f, self._plan = f, plan

  def write(self, data):
    p = self._plan
    f = p.fault
    if f['site'] == 'write' and not p.fired and p.writes == f['index']:
      n = len(data)
      keep = {'none': 0, 'half': n // 2, 'allbut1': max(0, n - 1)}[f['prefix']]
      self._f.write(data[:keep])
      self._f.flush()
      p.bytes_written += keep
      p.fail(f['mode'], OSError(28, 'No space left on device'))
    p.writes += 1
    p.bytes_written += len(data)
    return self._f.write(data)

  def __enter__(self):
    self._f.__enter__()
    return self

  def __exit__(self, *a):
    return self._f.__exit__(*a)

  def __getattr__(self, name):
    return getattr(self._f, name)


class OsProxy:
  """`os` as seen by downloads.py, with rename interceptable."""

  def __init__(self, plan):
    self._plan = plan
    self.path = os.path

  def rename(self, src, dst):
    p = self._plan
    f = p.fault
    if f['site'] == 'rename' and not p.fired:
      p.fail(f['mode'], OSError(5, 'Input/output error'))
    os.rename(src, dst)
    if f['site'] == 'after_rename' and not p.fired:
      p.die(Crash())

  def __getattr__(self, name):
    return getattr(os, name)


class ShutilProxy:
  """`shutil` as seen by downloads.py.  The cache directory is modelled as lying
  on another filesystem than everything outside it (a tmpfs TMPDIR next to a
  cache on disk): moving a file INTO the cache directory from elsewhere cannot
  be a rename -- it is a copy onto the destination name followed by removing the
  source, and it can be interrupted half-way.  Moves inside one directory are
  plain renames."""

  def __init__(self, plan):
    self._plan = plan

  def move(self, src, dst, *a, **k):
    p, f = self._plan, self._plan.fault
    if os.path.dirname(os.path.abspath(src)) == os.path.dirname(os.path.abspath(dst)):
      return shutil.move(src, dst, *a, **k)
    data = open(src, 'rb').read()
    with open(dst, 'wb') as out:
      if f['site'] == 'xdev_move' and not p.fired:
        keep = {'none': 0, 'half': len(data) // 2, 'allbut1': max(0, len(data) - 1)}[f['prefix']]
        out.write(data[:keep])
        out.flush()
        p.fail(f['mode'], OSError(5, 'Input/output error'))
      out.write(data)
    os.remove(src)
    return dst

  def __getattr__(self, name):
    return getattr(shutil, name)


class LzmaReader:

  def __init__(self, f, plan):
    self._f, self._plan = f, plan

  def read(self, n=-1):
    p = self._plan
    f = p.fault
    if f['site'] == 'lzread' and not p.fired and p.reads == f['index']:
      p.fail(f['mode'], OSError(5, 'Input/output error'))
    p.reads += 1
    return self._f.read(n)

  def __enter__(self):
    self._f.__enter__()
    return self

  def __exit__(self, *a):
    return self._f.__exit__(*a)

  def __getattr__(self, name):
    return getattr(self._f, name)


class LzmaProxy:

  def __init__(self, plan):
    self._plan = plan

  def open(self, *a, **k):
    self._plan.lzma_opens += 1
    return LzmaReader(real_lzma.open(*a, **k), self._plan)

  def __getattr__(self, name):
    return getattr(real_lzma, name)


class DiskFullFileIO(io.FileIO):
  """The operating-system level of a file being written while the disk fills up:
  the write that hits the limit stores only part of its bytes and RETURNS that
  smaller count (a short write, no exception); every later write fails with
  ENOSPC.  Python's buffered writer -- what open() returns by default -- retries
  the rest and so surfaces the error; a raw, unbuffered file hands the short
  count to its caller."""

  def __init__(self, path, plan):
    super().__init__(path, 'w')
    self._plan = plan
    self._full = False

  def write(self, data):
    p, f = self._plan, self._plan.fault
    if self._full:
      raise OSError(28, 'No space left on device')
    if f['site'] == 'disk_full' and not p.fired and p.bytes_written + len(data) > f['byte']:
      keep = max(0, f['byte'] - p.bytes_written)
      n = super().write(bytes(data)[:keep]) if keep else 0
      p.bytes_written += n
      p.fired = True
      self._full = True
      if keep == 0:
        raise OSError(28, 'No space left on device')
      return n
    n = super().write(data)
    p.bytes_written += n
    return n


def install(mod, plan, payload=b''):
  mod.requests = FakeRequests(payload, plan)
  mod.os = OsProxy(plan)
  mod.lzma = LzmaProxy(plan)
  mod.shutil = ShutilProxy(plan)

  def fake_open(path, mode='r', *a, **k):
    if 'w' in mode and plan.fault['site'] == 'disk_full':
      assert 'b' in mode
      buffering = k.get('buffering', a[0] if a else -1)
      raw = DiskFullFileIO(path, plan)
      return raw if buffering == 0 else io.BufferedWriter(raw)
    f = open(path, mode, *a, **k)
    if 'w' in mode:
      return FileProxy(f, plan)
    return f
  mod.open = fake_open


def call(fn, plan, hard):
  """Runs fn() under the plan.  Returns ('ok', value) | ('raised', exc) | ('died', None)."""
  if hard:
    pid = os.fork()
    if pid == 0:
      code = 0
      try:
        fn()
      except BaseException:  # pylint: disable=broad-except
        code = 3
      finally:
        os._exit(code)
    _, status = os.waitpid(pid, 0)
    rc = os.waitstatus_to_exitcode(status)
    return ('died' if rc == 17 else ('ok' if rc == 0 else 'raised')), None
  try:
    return 'ok', fn()
  except Crash:
    return 'died', None
  except Exception as e:  # pylint: disable=broad-except
    return 'raised', e


def read_file(path):
  with open(path, 'rb') as f:
    return f.read()


def tmpdir():
  base = '/dev/shm' if os.path.isdir('/dev/shm') and os.access('/dev/shm', os.W_OK) else '/var/tmp'
  return tempfile.mkdtemp(prefix='vf-c19-', dir=base)


def check_final(path, payload, when):
  if os.path.exists(path):
    got = read_file(path)
    require(got == payload, 'final_path_incomplete_after_interruption',
            f'{when}: final path holds {len(got)} bytes, expected {len(payload)} '
            f'(prefix={payload.startswith(got)})')


def check_validate(mod, path, payload, cut):
  sha = hashlib.sha256(payload).hexdigest()
  mod.validate_file(path, len(payload), sha)
  d = os.path.dirname(path)
  if payload:
    cut = min(cut, len(payload) - 1)
    bad = os.path.join(d, 'prefix.bin')
    with open(bad, 'wb') as f:
      f.write(payload[:cut])
    try:
      mod.validate_file(bad, len(payload), sha)
      require(False, 'validate_file_accepts_truncated', f'prefix of {cut} bytes accepted')
    except ValueError:
      pass
    flipped = bytearray(payload)
    flipped[cut] ^= 0x41
    with open(bad, 'wb') as f:
      f.write(bytes(flipped))
    try:
      mod.validate_file(bad, len(payload), sha)
      require(False, 'validate_file_accepts_corrupt', 'same-size different content accepted')
    except ValueError:
      pass
    os.remove(bad)


# ------------------------------------------------------------------ download

def run_download(case):
  mod = module()
  payload = payload_bytes(case['size'], case['salt'])
  d = tmpdir()
  extra = []
  try:
    cache = os.path.join(d, 'cache')
    url = 'https://example.invalid/some/dir/data.bin.lzma?x=1'
    final = os.path.join(cache, 'data.bin.lzma')
    pre = case['pre']
    if pre != 'none':
      os.makedirs(cache, exist_ok=True)
    if pre in ('stale_partial', 'complete_and_partial'):
      with open(final + '.partial', 'wb') as f:
        f.write(b'\xee' * case['stale'])
    if pre in ('complete', 'complete_and_partial'):
      with open(final, 'wb') as f:
        f.write(payload)
    for i, fault in enumerate(case['faults']):
      hard = bool(fault.get('hard'))
      plan = Plan(fault, hard)
      install(mod, plan, payload)
      status, val = call(lambda: mod.maybe_download(url, cache), plan, hard)
      if pre.startswith('complete'):
        require(status == 'ok', 'cached_file_not_reused', f'fault {i}: {status} {val!r}')
        if not hard:
          require(plan.get_calls == 0, 'network_touched_with_complete_cache')
      if status == 'ok' and not hard:
        require(val == final, 'returned_path', f'{val!r}')
        require(os.path.exists(final) and read_file(final) == payload,
                'completed_call_incomplete_file', f'fault {i} ({fault}) did not fire')
        extra.append('cache_hit_call' if pre.startswith('complete') else ('fault_not_reached' if not plan.fired else 'completed_despite_fault'))
      else:
        extra.append(f'interrupted:{status}')
      check_final(final, payload, f'after fault {i} {fault}')
    # the repairing / reusing clean call
    complete_before = os.path.exists(final)
    plan = Plan()
    install(mod, plan, payload)
    status, val = call(lambda: mod.maybe_download(url, cache), plan, False)
    require(status == 'ok', 'clean_call_failed', f'{val!r}')
    require(val == final and os.path.exists(final), 'returned_path', f'{val!r}')
    got = read_file(final)
    require(got == payload, 'clean_call_incomplete_file',
            f'{len(got)} bytes vs {len(payload)}')
    if complete_before:
      require(plan.get_calls == 0, 'network_touched_with_complete_cache')
      extra.append('reused_cache')
    else:
      require(plan.get_calls == 1, 'clean_call_did_not_fetch')
    check_validate(mod, final, payload, case['cut'])
    return extra
  finally:
    shutil.rmtree(d, ignore_errors=True)


def n_blocks(size):
  return (size + BLOCK - 1) // BLOCK


def download_faults(size, modes=('error', 'crash')):
  """Every single interruption point for a payload of this size."""
  out = [{'site': 'status'}, {'site': 'no_length'}, {'site': 'after_rename'}]
  for mode in modes:
    out.append({'site': 'get', 'mode': mode})
    out.append({'site': 'rename', 'mode': mode})
    offs = {0, size}
    for b in range(n_blocks(size) + 1):
      for delta in (-1, 0, 1, BLOCK // 2):
        o = b * BLOCK + delta
        if 0 <= o <= size:
          offs.add(o)
    for o in sorted(offs):
      out.append({'site': 'net', 'kind': 'reset', 'byte': o, 'mode': mode})
    for k in range(max(1, n_blocks(size))):
      for prefix in ('none', 'half', 'allbut1'):
        out.append({'site': 'write', 'index': k, 'prefix': prefix, 'mode': mode})
  for o in sorted(x for x in offs if x < size):
    out.append({'site': 'net', 'kind': 'eof', 'byte': o, 'mode': 'error'})
    out.append({'site': 'net', 'kind': 'eof', 'byte': o, 'mode': 'error', 'lenient': True})
  # the disk fills up after `byte` bytes of the downloaded file
  for o in sorted(x for x in offs if x < size):
    out.append({'site': 'disk_full', 'byte': o, 'mode': 'error'})
  return out


DL_SIZES = [0, 1, BLOCK - 1, BLOCK, BLOCK + 1, 2 * BLOCK, 3 * BLOCK + 7]


def download_exhaustive(tier):
  sizes = DL_SIZES if tier == 'thorough' else [0, 1, BLOCK - 1, BLOCK, BLOCK + 1, 2 * BLOCK + 5]
  pres = ['none', 'stale_partial'] if tier == 'quick' else ['none', 'stale_partial', 'complete']
  for size in sizes:
    for pre in pres:
      for fault in download_faults(size):
        yield {'size': size, 'salt': size % 7, 'pre': pre, 'stale': 5 + size // 3,
               'faults': [fault], 'cut': size // 2}


def fault_inside(case_fault, size, unit):
  f = case_fault
  if f['site'] == 'net':
    return 0 < f['byte'] < size
  if f['site'] == 'write':
    nb = max(1, (size + unit - 1) // unit)
    return size > 0 and f['index'] < nb and (f['index'] > 0 or f['prefix'] != 'none')
  if f['site'] == 'lzread':
    return size > 0 and 0 < f['index'] <= (size + unit - 1) // unit
  if f['site'] in ('truncate', 'flip'):
    return size > 0
  if f['site'] == 'disk_full':
    return 0 < f['byte'] < size
  return False


def dl_labels(case):
  ls = ['pre:' + case['pre'], 'blocks:%d' % min(n_blocks(case['size']), 4),
        'nfaults:%d' % len(case['faults'])]
  for f in case['faults']:
    ls.append('site:' + f['site'] + (':' + f.get('mode', '') if f.get('mode') else ''))
    if f.get('hard'):
      ls.append('hard_exit')
    if fault_inside(f, case['size'], BLOCK):
      ls.append('fault_strictly_inside')
      if n_blocks(case['size']) > 1:
        ls.append('inside_multi_block')
  return ls


def dl_nontrivial(case, ls):
  return 'fault_strictly_inside' in ls and not case['pre'].startswith('complete')


@st.composite
def fault_strategy(draw, size, unit, kind, allow_hard):
  nb = max(1, (size + unit - 1) // unit)
  mode = draw(st.sampled_from(['error', 'crash']))
  if kind == 'download':
    site = draw(st.sampled_from(['net', 'net', 'write', 'write', 'rename', 'get',
                                 'status', 'no_length', 'after_rename']))
  else:
    site = draw(st.sampled_from(['lzread', 'write', 'write', 'rename', 'truncate',
                                 'truncate', 'flip', 'after_rename']))
  f = {'site': site}
  if site == 'net':
    f['kind'] = draw(st.sampled_from(['reset', 'eof']))
    f['byte'] = draw(st.one_of(
        st.integers(0, size),
        st.sampled_from(sorted({0, size, min(size, unit), min(size, unit + 1),
                                max(0, min(size, unit) - 1), size // 2}))))
    if f['kind'] == 'eof':
      if f['byte'] >= size:
        f['kind'] = 'reset'
      elif draw(st.booleans()):
        f['lenient'] = True
      mode = 'error'
    f['mode'] = mode
  elif site == 'write':
    f['index'] = draw(st.integers(0, nb))
    f['prefix'] = draw(st.sampled_from(['none', 'half', 'allbut1']))
    f['mode'] = mode
  elif site == 'lzread':
    f['index'] = draw(st.integers(0, nb + 1))
    f['mode'] = mode
  elif site in ('rename', 'get'):
    f['mode'] = mode
  elif site == 'truncate':
    f['num'] = draw(st.integers(0, 16))      # keep num/16 of the archive
    f['drop'] = draw(st.integers(1, 40))     # and at least this many bytes less
  elif site == 'flip':
    f['num'] = draw(st.integers(0, 15))
  if allow_hard and site in ('net', 'write', 'rename', 'lzread', 'after_rename', 'get') and draw(st.integers(0, 9)) == 0:
    f['hard'] = True
    if 'mode' in f:
      f['mode'] = 'crash'
  return f


@st.composite
def download_strategy(draw, tier):
  size = draw(st.one_of(
      st.sampled_from([0, 1, 2]),
      st.sampled_from([100, 4096, 70000]),
      st.sampled_from([100, 4096, 70000]),
      st.sampled_from([BLOCK - 1, BLOCK, BLOCK + 1]),
      st.sampled_from([BLOCK - 1, BLOCK, BLOCK + 1]),
      st.sampled_from([2 * BLOCK, 2 * BLOCK + 1, 3 * BLOCK + 7]),
      st.sampled_from([2 * BLOCK, 2 * BLOCK + 1, 3 * BLOCK + 7]),
      st.integers(0, 3 * BLOCK + 7)))
  pre = draw(st.sampled_from(['none'] * 4 + ['stale_partial'] * 2 +
                             ['complete', 'complete_and_partial']))
  faults = draw(st.lists(fault_strategy(size, BLOCK, 'download', True), min_size=1, max_size=3))
  return {'size': size, 'salt': draw(st.integers(0, 5)), 'pre': pre,
          'stale': draw(st.sampled_from([0, 1, 17, size // 2, size, size + 9])),
          'faults': faults,
          'cut': draw(st.integers(0, max(0, size - 1)))}


# ---------------------------------------------------------------- decompress

def run_decompress(case):
  mod = module()
  payload = payload_bytes(case['size'], case['salt'])
  fmt = {'xz': real_lzma.FORMAT_XZ, 'alone': real_lzma.FORMAT_ALONE}[case['format']]
  archive = real_lzma.compress(payload, format=fmt, preset=0)
  d = tmpdir()
  extra = []
  try:
    src = os.path.join(d, 'data.sqlite.lzma')
    final = os.path.join(d, 'data.sqlite')

    def write_archive(data):
      with open(src, 'wb') as f:
        f.write(data)

    write_archive(archive)
    pre = case['pre']
    if pre in ('stale_partial', 'complete_and_partial'):
      with open(final + '.partial', 'wb') as f:
        f.write(b'\xee' * case['stale'])
    if pre in ('complete', 'complete_and_partial'):
      with open(final, 'wb') as f:
        f.write(payload)
    for i, fault in enumerate(case['faults']):
      hard = bool(fault.get('hard'))
      plan = Plan(fault, hard)
      install(mod, plan)
      if fault['site'] == 'truncate':
        keep = min(len(archive) * fault['num'] // 16, max(0, len(archive) - fault['drop']))
        write_archive(archive[:keep])
        plan.fired = True
      elif fault['site'] == 'flip':
        if case['format'] != 'xz':
          raise Discard('flip needs an integrity-checked container')
        pos = 24 + (len(archive) - 48) * fault['num'] // 16 if len(archive) > 64 else len(archive) // 2
        b = bytearray(archive)
        b[pos] ^= 0xff
        write_archive(bytes(b))
        plan.fired = True
      else:
        write_archive(archive)
      status, val = call(lambda: mod.maybe_lzma_decompress(src), plan, hard)
      if pre.startswith('complete'):
        require(status == 'ok', 'cached_file_not_reused', f'fault {i}: {status} {val!r}')
        if not hard:
          require(plan.lzma_opens == 0, 'decompressed_again_with_complete_cache')
      if status == 'ok' and not hard and not pre.startswith('complete'):
        require(val == final, 'returned_path', f'{val!r}')
        # A corrupted archive that decompresses without error to the right
        # bytes is fine; to anything else it would be lzma's silent corruption,
        # which the xz CRC excludes -- so the file must be complete.
        require(os.path.exists(final) and read_file(final) == payload,
                'completed_call_incomplete_file', f'fault {i} ({fault})')
        extra.append('cache_hit_call' if pre.startswith('complete') else ('fault_not_reached' if not plan.fired else 'completed_despite_fault'))
      else:
        extra.append(f'interrupted:{status}')
      check_final(final, payload, f'after fault {i} {fault}')
      if fault['site'] not in ('truncate', 'flip'):
        # the downloaded file was complete and correct: whatever went wrong
        # while its content was written out, it is still there to be reused
        # (a later maybe_download must not have to go back to the network)
        require(os.path.exists(src) and read_file(src) == archive,
                'complete_downloaded_file_lost_by_interrupted_decompression',
                f'after fault {i} {fault}: {"missing" if not os.path.exists(src) else "changed"}')
    write_archive(archive)
    complete_before = os.path.exists(final)
    plan = Plan()
    install(mod, plan)
    status, val = call(lambda: mod.maybe_lzma_decompress(src), plan, False)
    require(status == 'ok', 'clean_call_failed', f'{val!r}')
    require(val == final and os.path.exists(final), 'returned_path', f'{val!r}')
    got = read_file(final)
    require(got == payload, 'clean_call_incomplete_file', f'{len(got)} bytes vs {len(payload)}')
    if complete_before:
      require(plan.lzma_opens == 0, 'decompressed_again_with_complete_cache')
      extra.append('reused_cache')
    else:
      require(plan.lzma_opens == 1, 'clean_call_did_not_decompress')
    check_validate(mod, final, payload, case['cut'])
    require(read_file(src) == archive, 'archive_modified')
    return extra
  finally:
    shutil.rmtree(d, ignore_errors=True)


DC_SIZES = [0, 1, COPY - 1, COPY, COPY + 1, 2 * COPY, 3 * COPY + 7]


def decompress_faults(size):
  nb = max(1, (size + COPY - 1) // COPY)
  out = [{'site': 'after_rename'}]
  for mode in ('error', 'crash'):
    out.append({'site': 'rename', 'mode': mode})
    for k in range(nb + 2):
      out.append({'site': 'lzread', 'index': k, 'mode': mode})
    for k in range(nb):
      for prefix in ('none', 'half', 'allbut1'):
        out.append({'site': 'write', 'index': k, 'prefix': prefix, 'mode': mode})
  # a file moved into the cache from another filesystem is copied; the copy is
  # interrupted (fires only if the code under test moves files across directories)
  for mode in ('error', 'crash'):
    for prefix in ('none', 'half', 'allbut1'):
      out.append({'site': 'xdev_move', 'prefix': prefix, 'mode': mode})
  # the disk fills up after `byte` bytes of output (block boundaries, inside the
  # first, a middle and the LAST copy block, one byte before the end)
  cuts = {0, 1, size // 2, max(0, size - 1), max(0, size - COPY // 2)}
  cuts |= {k * COPY for k in range(nb)} | {k * COPY + 1 for k in range(nb)}
  for b in sorted(c for c in cuts if 0 <= c < size):
    out.append({'site': 'disk_full', 'byte': b, 'mode': 'error'})
  for num in range(0, 17):
    out.append({'site': 'truncate', 'num': num, 'drop': 1})
  for num in range(0, 16, 3):
    out.append({'site': 'flip', 'num': num})
  return out


def decompress_exhaustive(tier):
  sizes = DC_SIZES if tier == 'thorough' else [0, 1, COPY - 1, COPY, COPY + 1, 2 * COPY + 5]
  for size in sizes:
    for fmt in ('xz', 'alone'):
      for pre in ('none', 'stale_partial') + (('complete',) if tier == 'thorough' else ()):
        for fault in decompress_faults(size):
          if fault['site'] == 'flip' and fmt != 'xz':
            continue
          yield {'size': size, 'salt': size % 5, 'format': fmt, 'pre': pre,
                 'stale': 3 + size // 2, 'faults': [fault], 'cut': size // 3}


def dc_labels(case):
  ls = ['pre:' + case['pre'], 'format:' + case['format'],
        'chunks:%d' % min((case['size'] + COPY - 1) // COPY, 4),
        'nfaults:%d' % len(case['faults'])]
  for f in case['faults']:
    ls.append('site:' + f['site'] + (':' + f.get('mode', '') if f.get('mode') else ''))
    if f.get('hard'):
      ls.append('hard_exit')
    if fault_inside(f, case['size'], COPY):
      ls.append('fault_strictly_inside')
      if case['size'] > COPY:
        ls.append('inside_multi_chunk')
  return ls


@st.composite
def decompress_strategy(draw, tier):
  size = draw(st.one_of(
      st.sampled_from([0, 1, 100, 5000]),
      st.sampled_from([COPY - 1, COPY, COPY + 1]),
      st.sampled_from([2 * COPY, 2 * COPY + 1, 3 * COPY + 7]),
      st.integers(0, 3 * COPY + 7)))
  fmt = draw(st.sampled_from(['xz', 'alone']))
  pre = draw(st.sampled_from(['none'] * 4 + ['stale_partial'] * 2 +
                             ['complete', 'complete_and_partial']))
  faults = draw(st.lists(fault_strategy(size, COPY, 'decompress', True), min_size=1, max_size=3))
  if fmt != 'xz':
    faults = [f for f in faults if f['site'] != 'flip'] or [{'site': 'truncate', 'num': 8, 'drop': 1}]
  return {'size': size, 'salt': draw(st.integers(0, 5)), 'format': fmt, 'pre': pre,
          'stale': draw(st.sampled_from([0, 1, 17, size // 2, size, size + 9])),
          'faults': faults, 'cut': draw(st.integers(0, max(0, size - 1)))}


CHECKS = [
    Check(name='download_single_fault_exhaustive', run=run_download,
          cases=download_exhaustive, labels=dl_labels, nontrivial=dl_nontrivial,
          doc='every single interruption point of maybe_download per payload size'),
    Check(name='decompress_single_fault_exhaustive', run=run_decompress,
          cases=decompress_exhaustive, labels=dc_labels, nontrivial=dl_nontrivial,
          doc='every single interruption point of maybe_lzma_decompress per payload size'),
    Check(name='download_schedules', run=run_download, strategy=download_strategy,
          labels=dl_labels, nontrivial=dl_nontrivial,
          budget={'quick': 1600, 'thorough': 24000},
          doc='1-3 successive faults, cache pre-states, hard exits'),
    Check(name='decompress_schedules', run=run_decompress, strategy=decompress_strategy,
          labels=dc_labels, nontrivial=dl_nontrivial,
          budget={'quick': 1600, 'thorough': 24000},
          doc='1-3 successive faults incl. corrupt/truncated archives, pre-states, hard exits'),
]
