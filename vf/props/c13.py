"""C13 -- Client sampling is a pure function of (seed, round number).

Histories are data: a case holds the dataset description (client ids as hex
strings, sizes), the sampler configuration and a list of operations
(['sample'] / ['set_round_num', r]).  `run` interprets the list against ONE
sampler object and against a memo table  round -> sample of a FRESH sampler
seated at that round  (model-based testing with the history as a plain list,
so it shrinks and replays as JSON).

Checks
  get_history       history independence / restart reproducibility
  get_within_round  no repeated client, exact ids, right datasets, distinct
                    keys within a round and across rounds
  shuffled_restart  streaming sampler constructed with start_round_num=r
                    reproduces rounds r, r+1, ... of one constructed at 0
"""
import json
import os
import shutil
import tempfile

import numpy as np
from hypothesis import strategies as st

import jax
import fedjax
from fedjax.core import client_samplers

from vf.core import Check, Violation, require

PROPERTY_ID = 'C13'
NEEDS_TF = False
LEVEL = 'exploration'
RULE = ('Hypothesis draws a federated dataset (2-12 clients, up to 40 in '
        'get_within_round; thorough: 20 / 80; byte ids over the alphabet {00,01,3a,61,62,ff} with '
        '0-2 appended zero bytes, so trailing-zero and prefix-related ids are '
        'common; 0-3 examples per client; in-memory or SQLite-backed), a numpy '
        'seed in [0,2^32), a cohort in [1,#clients] and (get_history) a list of '
        '1-10 (thorough: 1-24) operation groups: sample | set_round_num(r)+sample with r drawn '
        'as back-jump, repeat of an already sampled round, forward jump, same '
        'round or arbitrary (small, <=1000, or near 2^31 / 2^32). The model is '
        'a memo table round -> sample of a fresh sampler on a freshly opened '
        'dataset seated at that round. get_history is non-trivial when cohort '
        '>=2 and some round is sampled a second time or after a later round; '
        'get_within_round when cohort>=2 and >=2 distinct rounds are sampled; '
        'shuffled_restart when start_round_num>=1. distinct = distinct '
        'canonical case JSON.')
RULE += (
    ' '
    'Later widenings: subsets built from id lists with repeats; the caller mutates returned c'
    'ohort lists; two seeded streams of one dataset object; a dataset that fails once in the '
    'middle of a bulk read; populations of 65-130 clients; the stream of a dataset whose clie'
    'nts were fetched by id before; restart in a child interpreter under another PYTHONHASHSE'
    'ED.')
RULE += (
    ' '
    'Also: equal in-memory mappings filled in varying key order; a sibling sampler with the s'
    'ame seed over a larger population in the restarting process.')
ASSUMPTIONS = [
    'round numbers are in [0, 2^32 - 64]: without jax_enable_x64 '
    'jax.random.PRNGKey(r) keeps only the low 32 bits of r, so rounds r and '
    'r + 2^32 would share keys; such round counts are outside the searched domain',
    'seeds are in [0, 2^32) as numpy.random.RandomState requires',
    'client ids are bytes (fedjax ClientId); the empty id b"" is included',
    'distinctness of the threefry keys split(PRNGKey(r), n) for different '
    '(r, i) is asserted as the property states it; an accidental 64-bit '
    'collision has probability < 1e-15 per case and would be reproducible',
    'the SQLite dataset is written by fedjax.SQLiteFederatedDataBuilder into a '
    'per-case directory under /var/tmp which is removed afterwards',
    'the seeded client stream of the streaming sampler is '
    'FederatedData.shuffled_clients(buffer_size, seed) re-created from the '
    'same dataset for every sampler',
]

ALPHABET = [0x00, 0x01, 0x3a, 0x61, 0x62, 0xff]
ROUND_MAX = 2**32 - 64
BIG_ROUNDS = [2**31 - 3, 2**31 - 2, 2**31 - 1, 2**31, 2**31 + 1, 2**32 - 100,
              ROUND_MAX]
SEEDS = [0, 1, 2, 42, 2**31 - 1, 2**31, 2**32 - 1]


# ------------------------------------------------------------------ datasets

def examples_for(idx, size):
  """Rows of client number `idx` are recognisable: x encodes (idx, row)."""
  return {
      'x': (np.arange(size, dtype=np.int32) + 1000 * (idx + 1)),
      'tag': np.full((size, 2), idx % 251, dtype=np.uint8),
  }


def spec_of(case):
  """[(id bytes, examples)] in case order; ids are distinct by construction."""
  spec = []
  for idx, c in enumerate(case['clients']):
    spec.append((bytes.fromhex(c['id']), examples_for(idx, c['size'])))
  ids = [i for i, _ in spec]
  if len(set(ids)) != len(ids):
    raise ValueError('case has duplicate client ids')
  return spec


class Backend:
  """Opens fresh FederatedData objects over the dataset a case describes."""

  def __init__(self, case):
    self.kind = case['backend']
    self.spec = spec_of(case)
    self.dir = None
    self.path = None
    self.opened = []

  def __enter__(self):
    if self.kind == 'sqlite':
      self.dir = tempfile.mkdtemp(prefix='C13-', dir='/var/tmp')
      self.path = os.path.join(self.dir, 'fd.sqlite')
      with fedjax.SQLiteFederatedDataBuilder(self.path) as builder:
        builder.add_many([(i, dict(e)) for i, e in self.spec])
    return self

  def open(self):
    if self.kind == 'sqlite':
      fd = fedjax.SQLiteFederatedData.new(self.path)
      self.opened.append(fd)
      return fd
    # every open() fills an equal mapping in another key order (a loader that
    # walks its shards in whatever order they come): what the dataset yields is
    # a function of the mapping, not of the order its keys were inserted in
    self.opens = getattr(self, 'opens', 0) + 1
    k = self.opens % max(1, len(self.spec))
    spec = (self.spec[k:] + self.spec[:k])[::(-1 if self.opens % 2 else 1)]
    mem = fedjax.InMemoryFederatedData(
        {i: {k_: v.copy() for k_, v in e.items()} for i, e in spec})
    if self.kind == 'subset':
      # the generic subset wrapper over all ids: same mapping, its own
      # shuffled_clients implementation.  The id list (an Iterable[ClientId])
      # is in reverse order and names every other id a second time, as the
      # concatenation of two overlapping id groups would.
      ids = [i for i, _ in self.spec]
      return fedjax.SubsetFederatedData(mem, ids[::-1] + ids[::2])
    return mem

  def __exit__(self, *exc):
    for fd in self.opened:
      try:
        fd._connection.close()  # pylint: disable=protected-access
      except Exception:  # pylint: disable=broad-except
        pass
    if self.dir is not None:
      shutil.rmtree(self.dir, ignore_errors=True)
    return False


# ------------------------------------------------------------------- oracles

def key_bits(key):
  a = np.asarray(jax.random.key_data(key))
  return (str(a.dtype), a.shape, a.tobytes())


def same_examples(a, b):
  if list(sorted(a)) != list(sorted(b)):
    return False
  for k in a:
    x, y = np.asarray(a[k]), np.asarray(b[k])
    if x.dtype != y.dtype or x.shape != y.shape or x.tobytes() != y.tobytes():
      return False
  return True


def freeze(sample):
  """(id, examples, key bits) per client: what a caller can observe."""
  out = []
  for cid, ds, key in sample:
    out.append((cid, ds.all_examples(), key_bits(key)))
  return out


def require_same(got, want, clause, what):
  """Bit-exact equality of two frozen samples."""
  require(len(got) == len(want), clause + ':length',
          lambda: f'{what}: {len(got)} vs {len(want)} clients')
  for j, (g, w) in enumerate(zip(got, want)):
    require(type(g[0]) is type(w[0]) and g[0] == w[0], clause + ':ids',
            lambda: f'{what}: position {j}: id {g[0]!r} vs {w[0]!r}; '
                    f'got {[x[0] for x in got]} want {[x[0] for x in want]}')
    require(same_examples(g[1], w[1]), clause + ':datasets',
            lambda: f'{what}: position {j} id {g[0]!r}: examples differ')
    require(g[2] == w[2], clause + ':keys',
            lambda: f'{what}: position {j}: key {g[2][2].hex()} vs {w[2][2].hex()}')


def require_round_ok(frozen, by_id, cohort, what):
  """Within one round: cohort size, exact ids, no repeat, right data, keys."""
  require(len(frozen) == cohort, 'within:cohort_size',
          lambda: f'{what}: {len(frozen)} clients for cohort {cohort}')
  seen = set()
  keys = set()
  for j, (cid, ex, kb) in enumerate(frozen):
    require(isinstance(cid, bytes) and bytes(cid) in by_id,
            'within:id_not_in_dataset',
            lambda: f'{what}: position {j}: {cid!r} not in {sorted(by_id)}')
    cid = bytes(cid)
    require(cid not in seen, 'within:client_repeated',
            lambda: f'{what}: {cid!r} twice in {[x[0] for x in frozen]}')
    seen.add(cid)
    require(same_examples(ex, by_id[cid]), 'within:dataset_not_of_client',
            lambda: f'{what}: id {cid!r}: got x={np.asarray(ex.get("x")).tolist()} '
                    f'want x={by_id[cid]["x"].tolist()}')
    require(kb not in keys, 'within:keys_not_distinct',
            lambda: f'{what}: key {kb[2].hex()} handed to two clients')
    keys.add(kb)
  return keys


class KeyLedger:
  """All keys seen so far -> the round that produced them."""

  def __init__(self):
    self.owner = {}

  def add(self, rnd, keys, what):
    for kb in keys:
      other = self.owner.setdefault(kb, rnd)
      require(other == rnd, 'across:key_reused_in_other_round',
              lambda: f'{what}: key {kb[2].hex()} of round {rnd} was also '
                      f'handed out in round {other}')


# ------------------------------------------------------- check 1: histories

class FlakyFederatedData(fedjax.FederatedData):
  """A dataset whose bulk read can fail once (a transient I/O error of the
  storage underneath) and then works again; everything is delegated."""

  def __init__(self, base):
    self._base = base
    self.fail_next_bulk_read = False

  def slice(self, start=None, stop=None):
    return FlakyFederatedData(self._base.slice(start, stop))

  def num_clients(self):
    return self._base.num_clients()

  def client_ids(self):
    return self._base.client_ids()

  def client_sizes(self):
    return self._base.client_sizes()

  def client_size(self, client_id):
    return self._base.client_size(client_id)

  def clients(self):
    return self._base.clients()

  def shuffled_clients(self, buffer_size, seed=None):
    return self._base.shuffled_clients(buffer_size, seed)

  def get_clients(self, client_ids):
    fail = self.fail_next_bulk_read
    self.fail_next_bulk_read = False
    for j, item in enumerate(self._base.get_clients(client_ids)):
      if fail and j == 0:
        raise TransientReadError('injected: the storage failed in the middle of a bulk read')
      yield item
    if fail:
      raise TransientReadError('injected: the storage failed at the end of a bulk read')

  def get_client(self, client_id):
    return self._base.get_client(client_id)

  def preprocess_client(self, fn):
    return FlakyFederatedData(self._base.preprocess_client(fn))

  def preprocess_batch(self, fn):
    return FlakyFederatedData(self._base.preprocess_batch(fn))


class TransientReadError(OSError):
  pass


def run_history(case):
  cohort, seed, start = case['cohort'], case['seed'], case['start']
  with Backend(case) as be:
    by_id = dict(be.spec)
    ledger = KeyLedger()
    memo = {}

    def model(r):
      """Sample of a fresh sampler on a freshly opened dataset seated at r."""
      if r not in memo:
        a = client_samplers.UniformGetClientSampler(
            be.open(), cohort, seed, start_round_num=r)
        fa = freeze(a.sample())
        b = client_samplers.UniformGetClientSampler(be.open(), cohort, seed)
        b.set_round_num(r)
        fb = freeze(b.sample())
        require_same(fb, fa, 'restart:set_round_num_vs_start_round_num',
                     f'round {r}')
        keys = require_round_ok(fa, by_id, cohort, f'fresh sampler, round {r}')
        ledger.add(r, keys, f'fresh sampler, round {r}')
        memo[r] = fa
      return memo[r]

    flaky = FlakyFederatedData(be.open())
    sampler = client_samplers.UniformGetClientSampler(
        flaky, cohort, seed, start_round_num=start)
    cur = start
    trail = []
    for op in case['ops']:
      if op[0] == 'failed_sample':
        # the storage fails while the cohort of this round is being loaded; the
        # caller retries: the retry (the next 'sample') is still THIS round
        flaky.fail_next_bulk_read = True
        try:
          sampler.sample()
        except TransientReadError:
          trail.append(f'failed_sample@{cur}')
        else:
          raise Violation('history:injected_read_error_swallowed', f'round {cur}')
      elif op[0] == 'set_round_num':
        sampler.set_round_num(op[1])
        cur = op[1]
        trail.append(f'set({cur})')
      elif op[0] == 'sample':
        returned = sampler.sample()
        got = freeze(returned)
        # what the caller does with the list it was handed (trimming, sorting
        # it in place) is the caller's business: a later request for any round
        # must not be affected by it
        if isinstance(returned, list):
          del returned[len(returned) // 2:]
          returned.reverse()
        what = f'round {cur} after [{" ".join(trail[-8:])}]'
        require_round_ok(got, by_id, cohort, what)
        require_same(got, model(cur), 'history', what)
        trail.append(f'sample@{cur}')
        cur += 1
      else:
        raise ValueError(f'unknown op {op!r}')


def sampled_rounds(case):
  cur, out = case['start'], []
  for op in case['ops']:
    if op[0] == 'set_round_num':
      cur = op[1]
    elif op[0] == 'failed_sample':
      continue
    else:
      out.append(cur)
      cur += 1
  return out


def dataset_labels(case):
  ids = [bytes.fromhex(c['id']) for c in case['clients']]
  n = len(ids)
  ls = ['backend:' + case['backend']]
  ls.append('n<=3' if n <= 3 else ('n<=12' if n <= 12 else 'n>12'))
  c = case['cohort']
  ls.append('cohort=1' if c == 1 else ('cohort=n' if c == n else 'cohort:mid'))
  if any(i.endswith(b'\x00') for i in ids):
    ls.append('id_trailing_zero')
  idset = set(ids)
  if any(i.rstrip(b'\x00') != i and i.rstrip(b'\x00') in idset for i in ids):
    ls.append('ids_equal_up_to_trailing_zeros')
  if any(a != b and b.startswith(a) for a in ids for b in ids):
    ls.append('ids_prefix_related')
  if b'' in idset:
    ls.append('empty_id')
  if any(cl['size'] == 0 for cl in case['clients']):
    ls.append('empty_client')
  if case['seed'] >= 2**31:
    ls.append('seed>=2^31')
  return ls


def history_labels(case):
  ls = dataset_labels(case)
  rounds = sampled_rounds(case)
  seen, hi, prev = set(), -1, None
  kinds = set()
  for r in rounds:
    if r in seen:
      kinds.add('repeat')
    elif r < hi:
      kinds.add('backward')
    elif prev is not None and r > prev + 1:
      kinds.add('forward_jump')
    elif prev is not None and r == prev + 1:
      kinds.add('sequential_step')
    seen.add(r)
    hi = max(hi, r)
    prev = r
  ls += ['history:' + k for k in sorted(kinds)]
  if not kinds & {'repeat', 'backward', 'forward_jump'}:
    ls.append('history:sequential_only')
  if case['start'] > 0:
    ls.append('start>0')
  if any(r >= 2**31 - 4 for r in rounds):
    ls.append('round>=2^31-4')
  ls.append('samples<=3' if len(rounds) <= 3 else 'samples>3')
  return ls


def history_nontrivial(case, ls):
  return case['cohort'] >= 2 and ('history:repeat' in ls or
                                  'history:backward' in ls)


# --------------------------------------------------- check 2: within a round

def run_within(case):
  cohort, seed = case['cohort'], case['seed']
  with Backend(case) as be:
    by_id = dict(be.spec)
    ledger = KeyLedger()
    shared = None
    for r in case['rounds']:
      if case['mode'] == 'fresh':
        s = client_samplers.UniformGetClientSampler(
            be.open(), cohort, seed, start_round_num=r)
      else:
        if shared is None:
          shared = client_samplers.UniformGetClientSampler(
              be.open(), cohort, seed)
        s = shared
        s.set_round_num(r)
      fr = freeze(s.sample())
      what = f'round {r} ({case["mode"]})'
      keys = require_round_ok(fr, by_id, cohort, what)
      ledger.add(r, keys, what)


def within_labels(case):
  ls = dataset_labels(case)
  ls.append('mode:' + case['mode'])
  d = len(set(case['rounds']))
  ls.append('rounds:1' if d == 1 else 'rounds:>=2')
  rs = sorted(set(case['rounds']))
  if any(b == a + 1 for a, b in zip(rs, rs[1:])):
    ls.append('adjacent_rounds')
  if any(r >= 2**31 - 4 for r in rs):
    ls.append('round>=2^31-4')
  return ls


def within_nontrivial(case, ls):
  return case['cohort'] >= 2 and len(set(case['rounds'])) >= 2


# ------------------------------------------------- check 3: streaming sampler

def run_shuffled(case):
  cohort, start, rounds = case['cohort'], case['start'], case['rounds']
  with Backend(case) as be:

    def stream():
      return be.open().shuffled_clients(case['buffer'], case['stream_seed'])

    base = client_samplers.UniformShuffledClientSampler(stream(), cohort)
    reference = [freeze(base.sample()) for _ in range(start + rounds)]
    restarted = client_samplers.UniformShuffledClientSampler(
        stream(), cohort, start_round_num=start)
    for k in range(rounds):
      got = freeze(restarted.sample())
      require_same(got, reference[start + k], 'streaming_restart',
                   f'start_round_num={start}, sample #{k} (round {start + k})')
    if case.get('used_before'):
      # The dataset object was in use before its stream is asked for: all its
      # clients were fetched by id, in an order of the caller's choosing (a
      # round-indexed sampler, an evaluation over named clients).  The seeded
      # stream is that of a freshly opened dataset.
      fd = be.open()
      ids = sorted(fd.client_ids())
      k = case['used_before'] % len(ids)
      list(fd.get_clients(ids[k:][::-1] + ids[:k]))
      fd.get_client(ids[-1])
      used = client_samplers.UniformShuffledClientSampler(
          fd.shuffled_clients(case['buffer'], case['stream_seed']), cohort)
      for r in range(start + rounds):
        require_same(freeze(used.sample()), reference[r], 'streaming_on_a_dataset_used_before',
                     f'round {r}')
    if case.get('shared_fd'):
      # Both client streams come from ONE dataset object and are advanced in
      # turn (an evaluation sampler next to the training sampler, a restarted
      # sampler next to the old one): each is still its own seeded stream.
      fd = be.open()
      a = client_samplers.UniformShuffledClientSampler(
          fd.shuffled_clients(case['buffer'], case['stream_seed']), cohort)
      b = client_samplers.UniformShuffledClientSampler(
          fd.shuffled_clients(case['buffer'], case['stream_seed']), cohort,
          start_round_num=start)
      for r in range(start + rounds):
        require_same(freeze(a.sample()), reference[r], 'streaming_two_streams_of_one_dataset',
                     f'stream from round 0, round {r}')
        if r >= start:
          require_same(freeze(b.sample()), reference[r],
                       'streaming_two_streams_of_one_dataset',
                       f'stream seated at round {start}, round {r}')


def shuffled_labels(case):
  n = len(case['clients'])
  ls = dataset_labels(case)
  ls.append('start=0' if case['start'] == 0 else 'start>=1')
  b = case['buffer']
  ls.append('buffer=1' if b == 1 else ('buffer<n' if b < n else 'buffer>=n'))
  if (case['start'] + case['rounds']) * case['cohort'] > n:
    ls.append('crosses_pass_boundary')
  if case['start'] * case['cohort'] >= n:
    ls.append('restart_beyond_first_pass')
  if case.get('used_before'):
    ls.append('stream_of_a_dataset_whose_clients_were_fetched_before')
  return ls


def shuffled_nontrivial(case, ls):
  return case['start'] >= 1


# ---------------------------------------------------------------- strategies

@st.composite
def clients_strategy(draw, nmax, nmins=(2, 2, 4, 7)):
  nmin = draw(st.sampled_from(list(nmins)))
  raw = draw(st.lists(
      st.tuples(st.lists(st.sampled_from(ALPHABET), min_size=0, max_size=3),
                st.integers(0, 2), st.integers(0, 3)),
      min_size=min(nmin, nmax), max_size=nmax))
  clients, seen = [], set()
  for stem, zeros, size in raw:
    cid = bytes(stem) + b'\x00' * zeros
    if cid in seen:
      continue
    seen.add(cid)
    clients.append({'id': cid.hex(), 'size': size})
  k = 0
  while len(clients) < 2:
    cid = b'c%d' % k
    k += 1
    if cid not in seen:
      seen.add(cid)
      clients.append({'id': cid.hex(), 'size': 1})
  return clients


@st.composite
def large_population(draw):
  n = draw(st.sampled_from([65, 66, 100, 129, 130]))
  salt = draw(st.integers(0, 200))
  return [{'id': (b'L%03d' % ((j * 7 + salt) % 1000) + (b'\x00' if j % 5 == 0 else b'')).hex()
           + ('%02x' % (j % 256)), 'size': j % 3} for j in range(n)]


def seed_strategy():
  return st.one_of(st.integers(0, 20), st.sampled_from(SEEDS),
                   st.integers(2**31, 2**32 - 1), st.integers(0, 2**32 - 1))


def round_strategy():
  return st.one_of(st.integers(0, 12), st.integers(0, 12),
                   st.integers(0, 1000), st.sampled_from(BIG_ROUNDS),
                   st.integers(0, ROUND_MAX))


def cohort_strategy(n):
  # n >= 2 always; cohort 1 stays reachable but is not the bulk.
  return st.one_of(st.integers(2, n), st.integers(2, n), st.integers(1, n),
                   st.sampled_from([1, 2, max(1, n - 1), n]))


@st.composite
def history_strategy(draw, tier):
  clients = draw(clients_strategy(12 if tier == 'quick' else 20))
  n = len(clients)
  start = draw(st.one_of(st.just(0), st.just(0), round_strategy()))
  gmax = 10 if tier == 'quick' else 24
  groups = draw(st.one_of(st.integers(1, gmax), st.integers(4, gmax)))
  ops, cur, sampled = [], start, []
  kinds = ['sample', 'sample', 'sample', 'back', 'repeat', 'repeat', 'fwd',
           'same', 'any', 'double']
  for _ in range(groups):
    kind = draw(st.sampled_from(kinds))
    if kind == 'sample' and draw(st.integers(0, 9)) == 0:
      ops.append(['failed_sample'])
    if kind == 'sample':
      pass
    else:
      if kind == 'repeat' and sampled:
        r = draw(st.sampled_from(sampled))
      elif kind == 'back':
        r = draw(st.integers(max(0, cur - 5), cur))
      elif kind == 'fwd':
        r = min(ROUND_MAX, cur + draw(st.integers(1, 5)))
      elif kind == 'same':
        r = cur
      else:
        r = draw(round_strategy())
      if kind == 'double':
        ops.append(['set_round_num', draw(round_strategy())])
      ops.append(['set_round_num', r])
      cur = r
    ops.append(['sample'])
    sampled.append(cur)
    cur += 1
  return {'backend': draw(st.sampled_from(['memory', 'memory', 'sqlite', 'subset'])),
          'clients': clients, 'seed': draw(seed_strategy()),
          'cohort': draw(cohort_strategy(n)), 'start': start, 'ops': ops}


@st.composite
def within_strategy(draw, tier):
  clients = draw(st.one_of(
      clients_strategy(12),
      clients_strategy(12),
      clients_strategy(40 if tier == 'quick' else 80, nmins=(13, 20, 30)),
      clients_strategy(40 if tier == 'quick' else 80, nmins=(13, 20, 30)),
      # a population well beyond 64 clients (bulk reads in more than one chunk)
      large_population()))
  n = len(clients)
  base = draw(round_strategy())
  rounds = draw(st.one_of(
      st.lists(round_strategy(), min_size=1, max_size=6),
      st.integers(2, 6).map(lambda k: [min(ROUND_MAX, base + j) for j in range(k)])))
  return {'backend': draw(st.sampled_from(['memory', 'memory', 'sqlite', 'subset'])),
          'clients': clients, 'seed': draw(seed_strategy()),
          'cohort': draw(cohort_strategy(n)),
          'mode': draw(st.sampled_from(['fresh', 'shared'])),
          'rounds': rounds}


@st.composite
def shuffled_strategy(draw, tier):
  clients = draw(clients_strategy(12 if tier == 'quick' else 20))
  n = len(clients)
  return {'backend': draw(st.sampled_from(['memory', 'memory', 'sqlite', 'subset', 'subset'])),
          'clients': clients, 'seed': 0,
          'stream_seed': draw(st.one_of(st.sampled_from([0, 0, 1]), seed_strategy())),
          'buffer': draw(st.one_of(st.integers(2, n + 3), st.integers(1, n + 3),
                                   st.sampled_from([1, 2, n - 1, n, n + 1]))),
          'cohort': draw(cohort_strategy(n)),
          'start': draw(st.one_of(st.integers(0, 6 if tier == 'quick' else 12),
                                  st.integers(1, 3))),
          'rounds': draw(st.integers(1, 4)),
          'shared_fd': draw(st.booleans()),
          'used_before': draw(st.sampled_from([0, 0, 1, 2, 5]))}


# ------------------------------------------------- restart in a new process

def _child_sample(spec):
  """Runs in a fresh interpreter: the cohorts of rounds r..r+k-1 as JSON."""
  case = spec['case']
  with Backend(case) as be:
    fd = be.open()
    sampler = fedjax.client_samplers.UniformGetClientSampler(
        fd, case['cohort'], case['seed'])
    out = []
    for r in spec['rounds']:
      sampler.set_round_num(r)
      clients = sampler.sample()
      out.append([[cid.hex(), np.asarray(jax.random.key_data(k)).tobytes().hex(),
                   int(len(ds))] for cid, ds, k in clients])
  return out


def run_cross_process(case):
  """A restart is a NEW PROCESS: nothing process-specific (such as the hash
  randomisation of bytes/str, which changes the iteration order of sets and
  dicts keyed by client ids) may influence what round r returns."""
  import subprocess
  import sys
  from vf import env as _env
  rounds = case['rounds']
  if case.get('sibling'):
    # In THIS process another sampler with the same seed has already visited
    # the same rounds over a larger population (an evaluation sampler over the
    # held-out clients next to the training sampler).  The restarted processes
    # know nothing of it.
    n_big = len(case['clients']) + case['sibling']
    big = fedjax.InMemoryFederatedData(
        {b'big%03d' % j: {'x': np.zeros((1 + j % 3, 1), np.float32)} for j in range(n_big)})
    sib = fedjax.client_samplers.UniformGetClientSampler(
        big, min(case['cohort'] + 1, n_big), case['seed'])
    for r in rounds:
      sib.set_round_num(r)
      sib.sample()
  here = _child_sample({'case': case, 'rounds': rounds})
  outs = []
  for hs in case['hashseeds']:
    env = _env.worker_env()
    env['PYTHONHASHSEED'] = str(hs)
    p = subprocess.run(
        [sys.executable, '-m', 'vf.props.c13', json.dumps({'case': case, 'rounds': rounds})],
        env=env, cwd=_env.VERIF_DIR, capture_output=True, text=True, timeout=900)
    line = [l for l in p.stdout.splitlines() if l.startswith('@@C13@@')]
    if p.returncode != 0 or not line:
      raise Violation('restart:child_process_failed', p.stderr[-800:])
    outs.append(json.loads(line[0][7:]))
  for hs, other in zip(case['hashseeds'], outs):
    for r, a, b in zip(rounds, here, other):
      require([x[0] for x in a] == [x[0] for x in b], 'restart_in_new_process:ids',
              lambda: f'round {r}: PYTHONHASHSEED={hs} gives {[x[0] for x in b]}, '
                      f'this process {[x[0] for x in a]}')
      require(a == b, 'restart_in_new_process:keys_or_sizes', f'round {r} PYTHONHASHSEED={hs}')
  return []


@st.composite
def cross_process_strategy(draw, tier):
  clients = draw(clients_strategy(10, nmins=(4, 6, 8)))
  n = len(clients)
  return {'backend': draw(st.sampled_from(['memory', 'memory', 'sqlite', 'subset'])),
          'clients': clients, 'seed': draw(seed_strategy()),
          'cohort': draw(cohort_strategy(n)),
          'rounds': draw(st.lists(st.integers(0, 40), min_size=2, max_size=4)),
          'hashseeds': draw(st.lists(st.integers(1, 10**6), min_size=2, max_size=2, unique=True)),
          'sibling': draw(st.sampled_from([0, 3, 7, 20]))}


CHECKS = [
    Check(name='get_history', run=run_history, strategy=history_strategy,
          labels=history_labels, nontrivial=history_nontrivial,
          budget={'quick': 6000, 'thorough': 120000}, time_share=2.0,
          doc='UniformGetClientSampler: every sample() of one sampler driven '
              'through a generated history of sample / set_round_num equals '
              'the sample of a fresh sampler seated at that round (ids, '
              'dataset contents, keys bit-equal) and advances the round by one'),
    Check(name='get_within_round', run=run_within, strategy=within_strategy,
          labels=within_labels, nontrivial=within_nontrivial,
          budget={'quick': 3000, 'thorough': 60000}, time_share=1.0,
          doc='UniformGetClientSampler: a round returns cohort many pairwise '
              'different clients of the dataset with byte-exact ids and their '
              'own examples, pairwise distinct keys, and keys of different '
              'rounds are disjoint'),
    Check(name='shuffled_restart', run=run_shuffled, strategy=shuffled_strategy,
          labels=shuffled_labels, nontrivial=shuffled_nontrivial,
          budget={'quick': 3000, 'thorough': 60000}, time_share=1.0,
          doc='UniformShuffledClientSampler(start_round_num=r) over a re-seeded '
              'shuffled_clients stream reproduces rounds r, r+1, ... of a '
              'sampler started at round 0'),
    Check(name='restart_in_new_process', run=run_cross_process,
          strategy=cross_process_strategy,
          labels=lambda c: ['backend:' + c['backend']],
          nontrivial=lambda c, ls: c['cohort'] >= 2,
          budget={'quick': 16, 'thorough': 320}, time_share=0.6,
          doc='UniformGetClientSampler seated at round r in two fresh interpreter '
              'processes with different PYTHONHASHSEED returns the same ids, '
              'sizes and keys as in this process (a restart is a new process)'),
]


if __name__ == '__main__':
  import sys as _sys
  print('@@C13@@' + json.dumps(_child_sample(json.loads(_sys.argv[1]))))
