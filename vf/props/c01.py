"""C01 -- A federated-averaging round equals its mathematical definition.

Generated domain: client pools with dyadic-rational data, client/server
optimizers, ShuffleRepeatBatchHParams, backend (jit / debug / pmap over 1..8
virtual devices), multi-round cohorts with fresh keys, a permutation.
Oracles: (a) float64 numpy reference with hand-written SGD/momentum/nesterov
recurrences, (b) op-by-op reference with raw optax transformations for the
adaptive optimizers; metamorphic relations (permutation, backend, empty-client
removal, all-empty cohort, per-client key decomposition).
"""
import collections
import functools

import numpy as np
from hypothesis import strategies as st

import jax
import jax.numpy as jnp
import optax

import fedjax
from fedjax.core import for_each_client as fec

from vf.core import Check, Discard, Violation, require

PROPERTY_ID = 'C01'
NEEDS_TF = False
LEVEL = 'exploration'
RULE = ('Hypothesis draws a pool of 1-6 clients (sizes 0-9, rows k/8 with |k|<=8, '
        'targets |k|<=32), model dim 1-3 with dyadic initial params, client and '
        'server optimizers from {sgd, momentum, nesterov, adam(eps=1e-3), '
        'adagrad, rmsprop} with step sizes 2^-j, batching hparams (batch_size '
        '1-5, num_epochs None/1-3, num_steps None/0-5, drop_remainder, '
        'skip_shuffle, integer seed), a backend (jit, debug, pmap over 1-8 '
        'devices), 1-3 rounds each with its own cohort (clients may return) and '
        'per-client keys, and a permutation of each cohort. Non-trivial: >=2 '
        'clients of different sizes in some round, some size not divisible by '
        'batch_size, and >=2 local steps for some client.')
RULE += (
    ' '
    'Later widenings: batch sizes up to 8; a sixth of the cohorts lists one client twice (cou'
    'nted per occurrence); client ids rotate among the pool between rounds; the float64 refer'
    "ence re-checks that the batch stream it reads consists of passes over the client's examp"
    'les; one check runs in a child interpreter with JAX_ENABLE_X64=1.')
ASSUMPTIONS = [
    'the per-client batch stream is taken from ClientDataset.shuffle_repeat_batch '
    'with the same integer seed (the stream itself is decided by C04)',
    'float64 reference vs float32 implementation: tolerance 2e-5 * (1 + max |value| '
    'seen along the reference trajectory); raw-optax float32 reference: 1e-5 * scale; '
    'permutation/backend relations: 2e-6 * scale',
    'step sizes and data are bounded so that the least-squares dynamics stay '
    'bounded (|x|<=1, lr<=1/4); Adam uses eps=1e-3 so a near-zero gradient '
    'cannot amplify rounding into a sign flip',
    'num_epochs and num_steps are not both None; a cohort containing an empty '
    'client always has num_epochs set (otherwise batching never terminates; '
    'outside the documented domain N>=1 of C04)',
    'rng-dependent loss: the statement does not fix how a client derives per-step '
    'keys, so the checks relations/client_keys assert only metamorphic relations; '
    'the separate check documented_key_schedule compares with a reference that '
    'follows the schedule the documentation gives for the client loop '
    '(docs/notebooks/algorithms_tutorial.ipynb: rng, use_rng = split(rng); '
    'grad_fn(params, batch, use_rng) at every step) -- a change of that schedule '
    'is reported there and only there',
    'client ids within a cohort are distinct (samplers never repeat a client)',
]

BACKENDS = ['jit', 'jit', 'debug'] + ['pmap:%d' % k for k in (1, 2, 3, 5, 8)]
OPTS = ['sgd', 'momentum', 'nesterov', 'adam', 'adagrad', 'rmsprop']


# -------------------------------------------------------------- model / data

def per_example_loss(params, batch, rng):
  pred = batch['x'] @ params['w'] + params['b']
  return (pred - batch['y']) ** 2


def noisy_per_example_loss(params, batch, rng):
  # + g(rng) * sum(w): the gradient wrt w shifts by the dyadic number g(rng)
  g = jax.random.randint(rng, (), -4, 5).astype(jnp.float32) / 4.0
  return per_example_loss(params, batch, rng) + g * jnp.sum(params['w'])


GRAD = {False: fedjax.grad(per_example_loss), True: fedjax.grad(noisy_per_example_loss)}


def make_dataset(client, d):
  rows = np.asarray(client['rows'], dtype=np.float32).reshape((-1, d + 1)) / 8.0
  return fedjax.ClientDataset({'x': rows[:, :d].copy(), 'y': rows[:, d].copy()})


def fj_optimizer(spec):
  name, lr = spec['name'], 2.0 ** -spec['lr_exp']
  if name == 'sgd':
    return fedjax.optimizers.sgd(lr)
  if name == 'momentum':
    return fedjax.optimizers.sgd(lr, momentum=spec['momentum'] / 8.0)
  if name == 'nesterov':
    return fedjax.optimizers.sgd(lr, momentum=spec['momentum'] / 8.0, nesterov=True)
  if name == 'adam':
    return fedjax.optimizers.adam(lr, b1=0.5, b2=0.75, eps=1e-3)
  if name == 'adagrad':
    return fedjax.optimizers.adagrad(lr)
  if name == 'rmsprop':
    return fedjax.optimizers.rmsprop(lr, decay=0.5, eps=1e-3)
  raise ValueError(name)


def hparams_of(h):
  return fedjax.ShuffleRepeatBatchHParams(
      batch_size=h['batch_size'], num_epochs=h['num_epochs'],
      num_steps=h['num_steps'], drop_remainder=h['drop_remainder'],
      seed=h['seed'], skip_shuffle=h['skip_shuffle'])


def backend_of(name):
  if name == 'jit':
    return fec.ForEachClientJitBackend()
  if name == 'debug':
    return fec.ForEachClientDebugBackend()
  k = int(name.split(':')[1])
  return fec.ForEachClientPmapBackend(jax.local_devices()[:k])


def build_algorithm(case, backend_name, noisy=None):
  noisy = case['noisy'] if noisy is None else noisy
  with fedjax.for_each_client_backend(backend_of(backend_name)):
    return fedjax.algorithms.fed_avg.federated_averaging(
        GRAD[noisy], fj_optimizer(case['client_opt']),
        fj_optimizer(case['server_opt']), hparams_of(case['hparams']))


def init_params(case):
  # float64 parameters when the process runs with jax_enable_x64 (only the
  # child process of the x64 check does)
  ft = np.float64 if jax.config.jax_enable_x64 else np.float32
  return {'w': jnp.asarray(np.asarray(case['w0'], ft) / 8.0),
          'b': jnp.asarray(ft(case['b0'] / 8.0))}


def cohort(case, rnd, datasets):
  """(client id, dataset, key) triples of one round.  With case['id_shift'] the
  ids are rotated among the pool from round to round: a client id may come back
  with ANOTHER dataset (another size) -- the train and the held-out split of the
  same user, say.  A round is a function of the clients it is given, not of what
  an id was associated with before."""
  shift = 0
  shifts = case.get('id_shift')
  if shifts:
    r = next((j for j, x in enumerate(case['rounds']) if x is rnd), 0)
    shift = shifts[r % len(shifts)]
  n = len(case['pool'])
  return [(bytes.fromhex(case['pool'][(i + shift) % n]['id']), datasets[i],
           jax.random.PRNGKey(seed)) for i, seed in rnd]


# ---------------------------------------------------------------- references

class RefSgd:
  """Hand-written float64 SGD / heavy-ball / Nesterov recurrences."""

  def __init__(self, spec):
    self.lr = 2.0 ** -spec['lr_exp']
    self.mom = spec['momentum'] / 8.0 if spec['name'] != 'sgd' else None
    self.nesterov = spec['name'] == 'nesterov'

  def init(self, params):
    return None if self.mom is None else {k: np.zeros_like(v, dtype=np.float64) for k, v in params.items()}

  def apply(self, grads, state, params):
    if self.mom is None:
      return None, {k: params[k] - self.lr * grads[k] for k in params}
    new_state = {k: grads[k] + self.mom * state[k] for k in params}
    if self.nesterov:
      upd = {k: grads[k] + self.mom * new_state[k] for k in params}
    else:
      upd = new_state
    return new_state, {k: params[k] - self.lr * upd[k] for k in params}


class RefOptax:
  """Raw optax transformation applied eagerly in float32 (no fedjax wrapper, no jit)."""

  def __init__(self, spec):
    lr = 2.0 ** -spec['lr_exp']
    self.tx = {'adam': lambda: optax.adam(lr, b1=0.5, b2=0.75, eps=1e-3),
               'adagrad': lambda: optax.adagrad(lr),
               'rmsprop': lambda: optax.rmsprop(lr, decay=0.5, eps=1e-3)}[spec['name']]()

  def init(self, params):
    return self.tx.init({k: jnp.asarray(v, jnp.float32) for k, v in params.items()})

  def apply(self, grads, state, params):
    p32 = {k: jnp.asarray(v, jnp.float32) for k, v in params.items()}
    g32 = {k: jnp.asarray(v, jnp.float32) for k, v in grads.items()}
    with jax.disable_jit():
      updates, state = self.tx.update(g32, state, p32)
      new = optax.apply_updates(p32, updates)
    return state, {k: np.asarray(v, np.float64) for k, v in new.items()}


def ref_optimizer(spec):
  return RefSgd(spec) if spec['name'] in ('sgd', 'momentum', 'nesterov') else RefOptax(spec)


def ref_grad(params, batch):
  x = np.asarray(batch['x'], np.float64)
  y = np.asarray(batch['y'], np.float64)
  r = x @ params['w'] + params['b'] - y
  n = x.shape[0]
  return {'w': 2.0 * (r @ x) / n, 'b': np.float64(2.0 * r.sum() / n)}


def _row_keys(batch):
  x = np.asarray(batch['x'], np.float64)
  y = np.asarray(batch['y'], np.float64)
  return [tuple(x[r].tolist()) + (float(y[r]),) for r in range(x.shape[0])]


def documented_steps(n, hp):
  """Number of batches ShuffleRepeatBatchHParams documents for N examples."""
  b, e, t, drop = hp['batch_size'], hp['num_epochs'], hp['num_steps'], hp['drop_remainder']
  if e is None:
    return t          # (None, None) is never generated
  steps = (n * e) // b if drop else -(-(n * e) // b)
  return steps if t is None else min(t, steps)


class Reference:
  """FedAvg by its definition, carrying its own server optimizer state."""

  def __init__(self, case):
    self.case = case
    self.params = {'w': np.asarray(case['w0'], np.float64) / 8.0,
                   'b': np.float64(case['b0'] / 8.0)}
    self.server = ref_optimizer(case['server_opt'])
    self.server_state = self.server.init(self.params)
    self.scale = 1.0
    self.steps = {}

  def grad(self, params, batch):
    return ref_grad(params, batch)

  def begin_client(self, seed):
    pass

  def _track(self, tree):
    for v in tree.values():
      self.scale = max(self.scale, float(np.max(np.abs(v))) if np.size(v) else 0.0)

  def round(self, rnd, datasets):
    hp = hparams_of(self.case['hparams'])
    total = 0.0
    acc = {k: np.zeros_like(v, dtype=np.float64) for k, v in self.params.items()}
    for i, seed in rnd:
      ds = datasets[i]
      self.begin_client(seed)
      opt = ref_optimizer(self.case['client_opt'])
      p = dict(self.params)
      s = opt.init(p)
      nsteps = 0
      stream = []
      for batch in ds.shuffle_repeat_batch(hp):
        g = self.grad(p, batch)
        s, p = opt.apply(g, s, p)
        self._track(p)
        nsteps += 1
        stream.extend(_row_keys(batch))
      self.steps[i] = nsteps
      n = len(ds)
      # (same reason as for the step count below: the stream the reference reads
      # is the implementation's own, so what the hparams document about it --
      # shuffle, repeat, batch: every pass over the data uses every example
      # once before any example is used again -- is re-checked here)
      own = collections.Counter(_row_keys(ds.all_examples())) if n else collections.Counter()
      for at in range(0, len(stream), max(n, 1)):
        window = collections.Counter(stream[at:at + n])
        full = at + n <= len(stream)
        require(window == own if full else not (window - own),
                'client_batches_not_passes_over_its_examples',
                lambda: f'client of {n} examples, hparams {self.case["hparams"]}: examples '
                        f'{at}..{at + n} of its batch stream are not one pass over its data')
      want_steps = documented_steps(n, self.case['hparams'])
      if want_steps is not None:
        # (the stream is C04's property; its length is re-derived here from the
        # documentation so that a wrong number of local steps is not mirrored
        # by a reference that reads the same stream)
        require(nsteps == want_steps, 'client_local_steps_differ_from_documented_count',
                f'client of {n} examples, hparams {self.case["hparams"]}: {nsteps} local steps, '
                f'documented {want_steps}')
      for k in acc:
        acc[k] = acc[k] + n * (self.params[k] - p[k])
      total += n
    mean = {k: (acc[k] / total if total > 0 else np.zeros_like(acc[k])) for k in acc}
    self.server_state, self.params = self.server.apply(mean, self.server_state, self.params)
    self._track(self.params)
    return self.params


class KeyedReference(Reference):
  """The rng-dependent loss under the key schedule the documentation gives for
  the FedAvg client loop (docs/notebooks/algorithms_tutorial.ipynb, "for batch
  in ...: client_rng, use_rng = jax.random.split(client_rng); grads =
  grad_fn(params, batch, use_rng)"): every step splits the carried key and
  hands the second half to the gradient."""

  def begin_client(self, seed):
    self._rng = jax.random.PRNGKey(seed)

  def grad(self, params, batch):
    self._rng, use_rng = jax.random.split(self._rng)
    shift = float(jax.random.randint(use_rng, (), -4, 5)) / 4.0
    g = ref_grad(params, batch)
    g['w'] = g['w'] + shift
    return g


def to_np(params):
  return {k: np.asarray(v, np.float64) for k, v in params.items()}


def close(a, b, tol):
  return all(np.all(np.isfinite(a[k])) and np.all(np.abs(a[k] - b[k]) <= tol) for k in a)


def diff(a, b):
  return max(float(np.max(np.abs(a[k] - b[k]))) for k in a)


# --------------------------------------------------------------------- checks

def run_round_history(case, backend_name, twice=False):
  """Runs all rounds with fedjax on one backend; returns list of params per round.

  twice: every round is applied a second time to the SAME server state object,
  with the cohort listed in reverse order (a state may be used for more than
  one round: another client order, an evaluation branch, a retry)."""
  d = case['d']
  datasets = [make_dataset(c, d) for c in case['pool']]
  alg = build_algorithm(case, backend_name)
  state = alg.init(init_params(case))
  out = []
  for rnd in case['rounds']:
    clients = cohort(case, rnd, datasets)
    old_state = state
    state, diag = alg.apply(old_state, clients)
    if twice:
      again, _ = alg.apply(old_state, list(reversed(clients)))
      a, b = to_np(again.params), to_np(state.params)
      sc = 1.0 + max(float(np.max(np.abs(v))) for v in b.values())
      require(close(a, b, 2e-6 * sc), 'second_round_from_the_same_state_differs',
              lambda: f'backend {backend_name}: same state, cohort reversed: differ by '
                      f'{diff(a, b):.3e}')
    ids = [c[0] for c in clients]
    require(set(diag) == set(ids) and len(diag) == len(set(ids)), 'diagnostics_keys',
            f'backend {backend_name}: diagnostics for {sorted(diag)} vs clients {sorted(ids)}')
    out.append(to_np(state.params))
  return out, datasets


def child_definition_x64(case):
  """Runs in a child interpreter started with JAX_ENABLE_X64=1."""
  assert jax.config.jax_enable_x64
  try:
    extra = run_definition(case, x64=True)
  except Violation as v:
    return {'clause': v.clause, 'message': v.message}
  return {'extra': extra}


def _x64_case(c):
  """jit backend; SGD-family optimizers only (step sizes and momenta are dyadic,
  so no hyper-parameter is itself rounded: Adam-type optimizers carry constants
  such as eps = 1e-3 whose float32 / float64 representations differ)."""
  c = dict(c, backend='jit')
  for k in ('client_opt', 'server_opt'):
    if c[k]['name'] not in ('sgd', 'momentum', 'nesterov'):
      c[k] = dict(c[k], name='momentum')
  return c


def run_definition_x64(case):
  """float64 server parameters (jax_enable_x64): the round equals its definition
  to float64 accuracy -- nothing on the way (example counts, the weighted mean,
  the optimizers) is rounded to float32."""
  import json
  import subprocess
  import sys
  from vf import env as _env
  env = _env.worker_env()
  env['JAX_ENABLE_X64'] = '1'
  p = subprocess.run([sys.executable, '-m', 'vf.child', 'vf.props.c01', 'child_definition_x64',
                      json.dumps(case), '--no-tf'], env=env, cwd=_env.VERIF_DIR,
                     capture_output=True, text=True, timeout=1800)
  line = [l for l in p.stdout.splitlines() if l.startswith('@@CHILD@@')]
  if p.returncode != 0 or not line:
    # an exception inside the tree under test, or a harness problem
    raise Violation('x64:child_process_failed', p.stderr[-1500:])
  res = json.loads(line[0][9:])
  if 'clause' in res:
    raise Violation('x64:' + res['clause'], res['message'])
  return res.get('extra', [])


def run_definition(case, x64=False):
  """Clause: value equals the mathematical definition, every round, every backend."""
  got, datasets = run_round_history(case, case['backend'])
  ref = KeyedReference(case) if case['noisy'] else Reference(case)
  extra = []
  for r, rnd in enumerate(case['rounds']):
    want = ref.round(rnd, datasets)
    adaptive = any(case[o]['name'] in ('adam', 'adagrad', 'rmsprop') for o in ('client_opt', 'server_opt'))
    tol = (1e-4 if adaptive else 2e-5) * ref.scale
    if x64:
      tol = (1e-9 if adaptive else 1e-11) * ref.scale
    require(close(got[r], want, tol),
            'round_differs_from_definition_under_documented_key_schedule' if case['noisy']
            else 'round_differs_from_definition',
            lambda: f'round {r} backend {case["backend"]}: max abs diff {diff(got[r], want):.3e} '
                    f'tol {tol:.3e}; got {got[r]} want {want}')
    if sum(len(datasets[i]) for i, _ in rnd) == 0:
      extra.append('all_empty_round')
  if max(ref.steps.values(), default=0) >= 2:
    extra.append('multi_step')
  return extra


def run_relations(case):
  """Permutation, backend, empty-client and all-empty-cohort relations."""
  d = case['d']
  base, datasets = run_round_history(case, 'jit', twice=True)
  scale = 1.0 + max(float(np.max(np.abs(v))) for p in base for v in p.values())
  require(all(np.all(np.isfinite(v)) for p in base for v in p.values()), 'non_finite_params',
          f'{base}')
  tol = 2e-6 * scale
  extra = []
  # other backend
  if case['backend'] != 'jit':
    other, _ = run_round_history(case, case['backend'])
    for r in range(len(base)):
      require(close(other[r], base[r], tol), 'backend_dependent_result',
              lambda: f'round {r}: {case["backend"]} vs jit differ by {diff(other[r], base[r]):.3e}')
  # permuted cohorts
  permuted = dict(case)
  permuted['rounds'] = [[rnd[j % len(rnd)] for j in _perm(case['perm'], len(rnd))] for rnd in case['rounds']]
  if permuted['rounds'] != case['rounds']:
    extra.append('permuted')
    perm_out, _ = run_round_history(permuted, case['backend'])
    for r in range(len(base)):
      require(close(perm_out[r], base[r], tol), 'client_order_dependent_result',
              lambda: f'round {r}: differ by {diff(perm_out[r], base[r]):.3e}')
  # zero-example clients carry zero weight: removing them changes nothing
  has_empty = any(len(datasets[i]) == 0 for rnd in case['rounds'] for i, _ in rnd)
  if has_empty:
    extra.append('has_empty_client')
    pruned = dict(case)
    pruned['rounds'] = [[(i, s) for i, s in rnd if len(datasets[i]) > 0] for rnd in case['rounds']]
    pr_out, _ = run_round_history(pruned, case['backend'])
    for r in range(len(base)):
      require(close(pr_out[r], base[r], tol), 'empty_client_changes_result',
              lambda: f'round {r}: differ by {diff(pr_out[r], base[r]):.3e}')
  # a round that saw no examples leaves params unchanged under plain SGD
  if case['server_opt']['name'] == 'sgd':
    prev = to_np(init_params(case))
    for r, rnd in enumerate(case['rounds']):
      if sum(len(datasets[i]) for i, _ in rnd) == 0:
        extra.append('all_empty_round')
        require(all(np.array_equal(base[r][k], prev[k]) for k in prev), 'all_empty_round_changed_params',
                lambda: f'round {r}: {prev} -> {base[r]}')
      prev = base[r]
  return extra


def _perm(keys, n):
  """A permutation of range(n) decoded from a list of ints (sort by key)."""
  ks = [(keys[j % len(keys)] if keys else 0, j) for j in range(n)]
  return [j for _, j in sorted(ks, key=lambda t: (t[0] * 2654435761 % 1000003, t[1]))]


def run_keys(case):
  """Own batch stream with own random key (rng-dependent loss, server SGD(1))."""
  d = case['d']
  datasets = [make_dataset(c, d) for c in case['pool']]
  c = dict(case)
  c['noisy'] = True
  c['server_opt'] = {'name': 'sgd', 'lr_exp': 0, 'momentum': 0}
  rnd = case['rounds'][0]
  alg = build_algorithm(c, case['backend'])
  p0 = init_params(c)
  state0 = alg.init(p0)
  full, _ = alg.apply(state0, cohort(c, rnd, datasets))
  full = to_np(full.params)
  p0n = to_np(p0)
  # (i) decomposition: p - sum n_i delta_i / sum n_i with delta_i from solo rounds
  acc = {k: np.zeros_like(v) for k, v in p0n.items()}
  total = 0
  deltas = {}
  for i, seed in rnd:
    solo, _ = alg.apply(state0, cohort(c, [(i, seed)], datasets))
    n = len(datasets[i])
    delta = {k: p0n[k] - to_np(solo.params)[k] for k in p0n}
    if n == 0:
      require(all(np.array_equal(to_np(solo.params)[k], p0n[k]) for k in p0n),
              'all_empty_round_changed_params', 'solo empty client')
    deltas[(i, seed)] = delta
    for k in acc:
      acc[k] = acc[k] + n * delta[k]
    total += n
  want = {k: p0n[k] - (acc[k] / total if total else 0) for k in p0n}
  scale = 1.0 + max(float(np.max(np.abs(v))) for v in list(full.values()) + list(want.values()))
  require(close(full, want, 4e-6 * scale), 'client_delta_depends_on_other_clients',
          lambda: f'multi-client round differs from recomposition of solo rounds by {diff(full, want):.3e}')
  extra = []
  # (ii) same data + same key => same delta; different key => different delta
  i0, s0 = rnd[0]
  n0 = len(datasets[i0])
  hp = case['hparams']
  steps0 = len(list(datasets[i0].shuffle_repeat_batch(hparams_of(hp)))) if n0 else 0
  again, _ = alg.apply(state0, cohort(c, [(i0, s0)], datasets))
  require(all(np.array_equal(to_np(again.params)[k], p0n[k] - deltas[(i0, s0)][k]) for k in p0n),
          'same_key_different_delta', 'identical solo rounds differ')
  if steps0 >= 1:
    # the w-gradient shift is one of 9 values per step; over 12 other keys at least
    # one must give a different trajectory unless the key is ignored
    differs = False
    for alt in range(1, 13):
      other, _ = alg.apply(state0, cohort(c, [(i0, s0 + 1000 * alt)], datasets))
      if any(not np.array_equal(to_np(other.params)[k], to_np(again.params)[k]) for k in p0n):
        differs = True
        break
    require(differs, 'client_key_ignored', '12 different keys gave bit-identical client deltas')
    extra.append('key_sensitivity_checked')
  return extra


# ----------------------------------------------------------------- strategies

def opt_strategy():
  return st.fixed_dictionaries({
      'name': st.sampled_from(OPTS), 'lr_exp': st.integers(2, 6),
      'momentum': st.sampled_from([2, 4, 6, 7])})


@st.composite
def case_strategy(draw, tier, relation=False):
  d = draw(st.integers(1, 3))
  npool = draw(st.sampled_from([1, 2, 3, 4, 4, 5, 6, 6]))
  pool = []
  for i in range(npool):
    n = draw(st.sampled_from([0, 0, 1, 2, 3, 4, 5, 7, 9]))
    rows = draw(st.lists(st.integers(-8, 8), min_size=n * (d + 1), max_size=n * (d + 1)))
    # targets may be larger than inputs
    for r in range(n):
      rows[r * (d + 1) + d] *= draw(st.sampled_from([1, 2, 4]))
    pool.append({'id': (b'c%d' % i + (b'\x00' if i % 2 else b'')).hex(), 'rows': rows})
  bs = draw(st.sampled_from([1, 2, 3, 4, 5, 1, 2, 3, 4, 5, 8]))
  num_epochs = draw(st.sampled_from([None, 1, 1, 2, 3]))
  num_steps = draw(st.sampled_from([None, None, 0, 1, 2, 5]))
  if num_epochs is None and num_steps is None:
    num_steps = draw(st.integers(1, 5))
  hparams = {'batch_size': bs, 'num_epochs': num_epochs, 'num_steps': num_steps,
             'drop_remainder': draw(st.booleans()), 'seed': draw(st.integers(0, 2**31 - 1)),
             'skip_shuffle': draw(st.booleans())}
  nonempty = [i for i, c in enumerate(pool) if c['rows']]
  allowed = list(range(npool)) if num_epochs is not None else nonempty
  rounds = []
  for _ in range(draw(st.integers(1, 3))):
    if not allowed:
      members = []
    else:
      # an empty cohort is legal but rare; most rounds have several clients
      lo = 0 if (num_epochs is not None and draw(st.integers(0, 9)) == 0) else 1
      members = draw(st.lists(st.sampled_from(allowed), min_size=min(lo, len(allowed)),
                              max_size=len(allowed), unique=True))
      if lo and len(members) < min(2, len(allowed)) and draw(st.booleans()):
        members = list(allowed)
    if members and draw(st.integers(0, 5)) == 0:
      # a cohort sampled with replacement: the same client (id and dataset)
      # once more, somewhere in the round; it counts once per occurrence
      members.insert(draw(st.integers(0, len(members))), draw(st.sampled_from(members)))
    rounds.append([[i, draw(st.integers(0, 2**20))] for i in members])
  if all(not r for r in rounds) and allowed:
    rounds[0] = [[allowed[0], 7]]
  id_shift = [0] + [draw(st.sampled_from([0, 0, 1, 2])) for _ in rounds[1:]]
  return {'d': d, 'w0': draw(st.lists(st.integers(-16, 16), min_size=d, max_size=d)),
          'b0': draw(st.integers(-16, 16)), 'pool': pool, 'id_shift': id_shift,
          'client_opt': draw(opt_strategy()), 'server_opt': draw(opt_strategy()),
          'hparams': hparams, 'rounds': rounds,
          'perm': draw(st.lists(st.integers(0, 1000), min_size=1, max_size=6)),
          'backend': draw(st.sampled_from(BACKENDS)), 'noisy': False}


def _sizes(case):
  return [len(c['rows']) // (case['d'] + 1) for c in case['pool']]


def labels(case):
  sizes = _sizes(case)
  ls = ['backend:' + case['backend'].split(':')[0], 'client:' + case['client_opt']['name'],
        'server:' + case['server_opt']['name'], 'rounds:%d' % len(case['rounds'])]
  if case['backend'].startswith('pmap'):
    k = int(case['backend'].split(':')[1])
    if any(len(r) % k for r in case['rounds']):
      ls.append('pmap_cohort_not_multiple_of_devices')
  seen = set()
  for r in case['rounds']:
    if any(sizes[i] == 0 for i, _ in r):
      ls.append('round_with_empty_client')
    if not r:
      ls.append('empty_cohort')
    if len({i for i, _ in r}) < len(r):
      ls.append('client_twice_in_one_cohort')
    if any(i in seen for i, _ in r):
      ls.append('returning_client')
    seen.update(i for i, _ in r)
  hp = case['hparams']
  if hp['num_epochs'] is None:
    ls.append('num_epochs=None')
  if hp['drop_remainder']:
    ls.append('drop_remainder')
  return sorted(set(ls))


def nontrivial(case, ls):
  sizes = _sizes(case)
  bs = case['hparams']['batch_size']
  for r in case['rounds']:
    ss = [sizes[i] for i, _ in r]
    if len(set(ss)) >= 2 and any(s % bs for s in ss) and 'multi_step' in ls:
      return True
  return False


def nontrivial_rel(case, ls):
  sizes = _sizes(case)
  bs = case['hparams']['batch_size']
  return any(len({sizes[i] for i, _ in r}) >= 2 and any(sizes[i] % bs for i, _ in r)
             for r in case['rounds'])


CHECKS = [
    Check(name='definition', run=run_definition,
          strategy=lambda tier: case_strategy(tier),
          labels=labels, nontrivial=nontrivial,
          budget={'quick': 320, 'thorough': 5000}, time_share=3.0,
          doc='every round equals server_opt(example-weighted mean of (p - p_i)) '
              'computed by an independent float64 / raw-optax reference'),
    Check(name='documented_key_schedule', run=run_definition,
          strategy=lambda tier: case_strategy(tier).map(lambda c: dict(c, noisy=True)),
          labels=labels, nontrivial=nontrivial,
          budget={'quick': 96, 'thorough': 1500}, time_share=1.2,
          doc='the definition check with a loss that uses its key (gradient shift '
              'drawn from the key): the float64 reference follows the per-step key '
              'schedule of the documented FedAvg client loop (algorithms tutorial: '
              'split the carried key, hand the second half to grad_fn)'),
    Check(name='definition_float64', run=run_definition_x64,
          strategy=lambda tier: case_strategy(tier).map(_x64_case),
          labels=labels, nontrivial=nontrivial,
          budget={'quick': 80, 'thorough': 800}, time_share=1.0,
          doc='the definition check in a child interpreter with JAX_ENABLE_X64=1 and '
              'float64 server parameters, tolerance 1e-11 * scale (1e-9 with adaptive '
              'optimizers): no example count, weight or update is rounded to float32'),
    Check(name='relations', run=run_relations,
          strategy=lambda tier: case_strategy(tier),
          labels=labels, nontrivial=nontrivial_rel,
          budget={'quick': 160, 'thorough': 2500}, time_share=2.0,
          doc='order of clients, backend, zero-example clients, all-empty cohort'),
    Check(name='client_keys', run=run_keys,
          strategy=lambda tier: case_strategy(tier).filter(lambda c: len(c['rounds'][0]) >= 1),
          labels=labels, nontrivial=lambda c, ls: len(c['rounds'][0]) >= 2 and 'key_sensitivity_checked' in ls,
          budget={'quick': 96, 'thorough': 1500}, time_share=1.5,
          doc='a client trains on its own stream with its own key: decomposition '
              'into solo rounds; identical keys replay; different keys differ'),
]
