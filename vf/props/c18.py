"""C18 -- Walsh-Hadamard transform is exact; structured rotation invertible.

Transform clauses (walsh_hadamard_transform):
  * equals multiplication by the Sylvester Hadamard matrix of order n = 2^p
    for every block size 2^s, s in 1..8, passed positionally, by keyword or
    defaulted (reference: scipy.linalg.hadamard in float64, dense for
    n <= 2^10, for larger n the Kronecker split H_{2^(a+b)} = H_{2^a} (x) H_{2^b}
    into two dense factors, spot-checked row-wise against the bit-parity
    definition H[i,j] = (-1)^popcount(i&j));
  * linear, and applying it twice multiplies by n.

Rotation clauses (structured_rotation(_pytree), inverse_structured_rotation(_pytree)):
  * the Euclidean norm is preserved, the result is H D pad(x) / sqrt(d) for a
    +-1 diagonal D (checked without knowing how D is drawn from the key);
  * the inverse with the same key restores values, shape and tree structure;
  * different keys give different rotations;
  * the same leaf-wise for trees.

Cases are small JSON descriptions; the (possibly 2^14-long) vectors are built
deterministically from them: a quadratic residue pattern
x[i] = (((a i^2 + b i + c) mod M) - M//2) * 2^exp overridden by explicit
"spikes" [position, mantissa, exponent].  Every value is mantissa * 2^e with
|mantissa| < 2^24 and e >= -30, so nothing is subnormal and sums never are.
"""
import functools
import json
import math

import numpy as np
import scipy.linalg
from hypothesis import strategies as st

import jax
import jax.numpy as jnp
from fedjax.aggregators import walsh_hadamard as wh

from vf.core import Check, Discard, Violation, require

PROPERTY_ID = 'C18'
NEEDS_TF = False
LEVEL = 'exploration'
RULE = (
    'Transform: (p, s) with length 2^p, p in 0..14, block size 2^s, s in 1..8, '
    'is enumerated exhaustively (every pair with <= 6 Kronecker factors '
    'ceil(p/s) compiled as usual; the 7-factor pairs (7,1), (13,2), (14,2) and '
    'the single 8-factor pair (8,1) are executed op by op under '
    'jax.disable_jit() in the quick tier because compiling them as one XLA '
    'program takes 14-450 s; the 7-factor pairs are also compiled in the '
    'thorough tier; pairs with >= 9 factors must raise the documented '
    'ValueError) x call style {positional, keyword, default}, each with a '
    'fixed integer vector, a fixed generic vector, three scaled unit vectors '
    'and the involution; Hypothesis additionally draws (p, s) from the '
    '<= 6-factor menu, the call style (positional / keyword / with an explicit '
    'precision as string or enum / defaulted), numpy or jax input, dtype '
    '(float32; minority int32, float16, bfloat16) and vectors as a quadratic '
    'residue pattern (modulus 1..2^24, binary exponent -30..30) overridden by '
    '0-8 explicit spikes [position, 24-bit mantissa, exponent], plus a second '
    'vector and dyadic scalars for linearity. Rotation: array shapes of total '
    'size >= 1 from a menu (0-d, (1,), (1,1), (3,), (2,3), (5,1,2), sizes '
    '2^k-1, 2^k, 2^k+1 up to 2^12+1 quick / 2^14+1 thorough (26 shapes quick, 60 thorough: '
    'every new shape costs ~1 s of XLA compiles per shard process), multi-dimensional '
    'shapes of non-power-of-two size) or free shapes with 1-4 dimensions, '
    'numpy / jax / numpy-scalar containers, two 64-bit raw keys, and trees '
    '(dict / nested dict / list / tuple / mixed / bare leaf / empty) of 0-6 such '
    'leaves. Non-trivial: transform cases with more than one (and at most 8) '
    'Kronecker factors (p >= s+1) and an explicitly passed block size; rotation cases containing '
    'a leaf with >= 2 dimensions whose size is not a power of two. '
    'distinct = distinct canonical case JSON.')
RULE += (
    ' '
    'Later widenings: 7-8 factor pairs run op by op; empty / one-element tuple nodes, integer'
    ' leaves, tied leaves; typed key arrays; int32 vectors with 25-30 significant bits; the r'
    'otation clauses in a child interpreter with JAX_THREEFRY_PARTITIONABLE=0; rotated trees '
    'compared bit for bit with a child interpreter under another PYTHONHASHSEED.')
ASSUMPTIONS = [
    'valid block size = power of two 2^1..2^8 for which the function does not '
    'raise its documented ValueError ("small_n is too small", i.e. more than 8 '
    'Kronecker factors); that error is accepted for ceil(p/s) >= 9 and is a '
    'violation for ceil(p/s) <= 8',
    'the 8-factor pair (p=8, s=1) is executed only op by op under '
    'jax.disable_jit() (XLA compile ~450 s), which runs the same public '
    'function without the outer jit; the '
    '7-factor pairs (7,1), (13,2), (14,2) (~14 s compile each) run jit-compiled '
    'in the thorough tier only (op by op in the quick tier)',
    'only precision="highest" / jax.lax.Precision.HIGHEST (the default) is '
    'asserted: lower precisions are allowed to use reduced-precision passes',
    'comparison is bit-exact whenever every value is a multiple of 2^q and '
    '||x||_1 / 2^q <= 2^t (t = 24 float32, 11 float16, 8 bfloat16, 31 int32): '
    'then every partial sum in any summation order is representable. '
    'Otherwise (float32 only) the tolerance is the rigorous worst-case bound '
    '|err_i| <= 1.1 * B * 2^-24 * ||x||_1 with B = sum of the block sizes of '
    'the Kronecker stages (gamma_B of Higham for any summation order, FMA or '
    'not); reference in float64',
    'rotation tolerances (float32 leaves only): with e1 = the transform bound '
    'above (0 in the exact class), S = sum of block_size^1.5 and e2 = 4 * 2^-24 '
    'for sqrt + division (or reciprocal multiplication): norm '
    '| ||y|| - ||x|| | <= 1.01 min(e1, 1.1 u S ||x||_2) + e2 ||x||_2; '
    'structure | |H y / sqrt d| - |pad x| | <= 1.01 e1 + 1.01 e2 ||y||_1 / sqrt d; '
    'inverse |z_i - x_i| <= min(A1, A2) + 1.01 e2 |x_i| with '
    'A1 = 1.02 e1 + 1.02 (e2 + 1.1 B u) ||y||_1 / sqrt d and '
    'A2 = 1.02 (min-route norm error + e2 ||x||_2 + 1.1 u S ||x||_2)',
    'different keys: the two rotations of a leaf must differ when the leaf has '
    '>= 32 non-zero entries (two independent sign vectors agree on them with '
    'probability 2^-32); for 2..31 non-zero entries only "16 consecutive keys '
    'do not all give the same rotation" is asserted (probability <= 2^-30); '
    'both only when the smallest non-zero |x_i| exceeds 1.5 x the rounding '
    'noise bound of one rotation (otherwise float32 absorption can legitimately '
    'hide the differing signs of tiny entries next to a huge one). '
    'DESIGN says size >= 8, which would false-alarm once in 256 cases',
    'keys are legacy raw uint32[2] key data (fedjax.core.typing.PRNGKey)',
    'rotated length is only required to be a power of two >= size (the '
    'docstring does not promise the *next* power of two)',
    'TensorFlow import blocked (NEEDS_TF=False)',
]

U = 2.0 ** -24
MANT_BITS = {'float32': 24, 'float16': 11, 'bfloat16': 8, 'int32': 31}
DEFAULT_S = 7   # small_n = 2**7 is the documented default
T = wh.walsh_hadamard_transform


# ------------------------------------------------------------------ reference

@functools.lru_cache(maxsize=None)
def dense_h(p):
  """Sylvester Hadamard matrix of order 2^p in float64 (p <= 10)."""
  assert p <= 10
  return scipy.linalg.hadamard(2 ** p).astype(np.float64)


def _parity_row(i, n):
  """Row i of H_n from the definition H[i,j] = (-1)^popcount(i & j)."""
  v = np.bitwise_and(np.arange(n, dtype=np.int64), i)
  for sh in (32, 16, 8, 4, 2, 1):
    v = v ^ (v >> sh)
  return 1.0 - 2.0 * (v & 1)


def _self_check():
  for p in range(0, 7):
    n = 2 ** p
    want = np.stack([_parity_row(i, n) for i in range(n)])
    assert np.array_equal(dense_h(p), want), 'scipy.linalg.hadamard is not Sylvester'


_self_check()


def ref_transform(x64):
  """H_n @ x in float64."""
  n = x64.shape[0]
  p = n.bit_length() - 1
  assert n == 2 ** p
  if p <= 10:
    return dense_h(p) @ x64
  a = p // 2
  b = p - a
  out = (dense_h(a) @ x64.reshape(2 ** a, 2 ** b) @ dense_h(b)).ravel()
  # Independent spot check of the Kronecker split against the definition.
  l1 = float(np.abs(x64).sum())
  for i in (0, 1, n - 1, n // 2 + 1, (0x5555 & (n - 1)), (0x6b3a & (n - 1))):
    got = float(_parity_row(i, n) @ x64)
    assert abs(got - out[i]) <= 1e-10 * l1, ('reference self-check', p, i)
  return out


def stage_sizes(p, s):
  """Block sizes of the Kronecker stages for length 2^p and block 2^s."""
  if p == 0:
    return []
  k = -(-p // s)
  return [2 ** (p - s * (k - 1))] + [2 ** s] * (k - 1)


def n_factors(p, s):
  return len(stage_sizes(p, s))


# -------------------------------------------------------------------- vectors

def build_vec(spec, n):
  """float64 vector of length n; every value is mantissa * 2^e, exactly."""
  m = spec['mod']
  if m > 1:
    i = np.arange(n, dtype=np.int64)
    base = ((spec['a'] * i * i + spec['b'] * i + spec['c']) % m) - m // 2
    x = base.astype(np.float64) * 2.0 ** spec['exp']
  else:
    x = np.zeros(n, np.float64)
  for pos, mant, e in spec['spikes']:
    x[pos % n] = mant * 2.0 ** e
  return x


def quantum_exp(spec):
  """q such that every value of the vector is an integer multiple of 2^q."""
  qs = [e for _, mant, e in spec['spikes'] if mant]
  if spec['mod'] > 1:
    qs.append(spec['exp'])
  return min(qs) if qs else 0


def is_exact(l1, q, bits):
  """True iff every signed partial sum is exactly representable (see ASSUMPTIONS)."""
  return l1 / 2.0 ** q <= 2.0 ** bits


def to_dtype(x64, dtype, container):
  """The array handed to fedjax (numpy or jax), and a float64 copy of its values."""
  if dtype == 'bfloat16':
    arr = jnp.asarray(x64, dtype=jnp.bfloat16)
  elif container == 'jnp':
    arr = jnp.asarray(x64.astype(dtype))
  else:
    arr = x64.astype(dtype)
  back = np.asarray(arr).astype(np.float64)
  if not np.array_equal(back, x64):
    raise Discard('values_not_representable_in_dtype')
  return arr


class TooManyFactors(Exception):
  """The documented ValueError for more than 8 Kronecker factors."""


def guarded(clause, fn, *args, **kw):
  """Calls fedjax on a documented-valid input: any exception is a violation.

  (jit argument errors never enter a frame of the tree under test, so the
  worker's own classification would call them harness errors.)
  """
  try:
    return jax.block_until_ready(fn(*args, **kw))
  except Exception as e:  # pylint: disable=broad-except
    raise Violation(f'{clause}:raised:{type(e).__name__}',
                    f'{type(e).__name__}: {str(e)[:300]}')


def _call_transform(x, s, call):
  small_n = 2 ** s
  if call == 'pos':
    return T(x, small_n)
  if call == 'kw':
    return T(x, small_n=small_n)
  if call == 'kw_prec':
    return T(x, small_n=small_n, precision='highest')
  if call == 'pos_prec_enum':
    return T(x, small_n, jax.lax.Precision.HIGHEST)
  if call == 'default':
    return T(x)
  if call == 'default_prec':
    return T(x, precision='highest')
  raise AssertionError(call)


_EAGER = [False]


def call_transform(x, s, call):
  p = int(x.shape[0]).bit_length() - 1
  try:
    if _EAGER[0]:
      # op-by-op execution of the public function: pairs with 7-8 Kronecker
      # factors take minutes to compile as one XLA program but seconds this way
      with jax.disable_jit():
        return jax.block_until_ready(_call_transform(x, s, call))
    return jax.block_until_ready(_call_transform(x, s, call))
  except ValueError as e:
    if 'small_n' in str(e) and 'too small' in str(e):
      if n_factors(p, s) >= 9:
        raise TooManyFactors(str(e))
      raise Violation('transform:raised_on_valid_block_size',
                      f'n=2^{p} small_n=2^{s} ({n_factors(p, s)} factors): ValueError: {e}')
    raise Violation('transform:raised:ValueError', f'call={call}: {str(e)[:300]}')
  except Exception as e:  # pylint: disable=broad-except
    raise Violation(f'transform:raised:{type(e).__name__}',
                    f'call={call} n=2^{p} small_n=2^{s}: {type(e).__name__}: {str(e)[:300]}')


def effective_s(case):
  return DEFAULT_S if case['call'].startswith('default') else case['s']


def transform_checked(x, x64, s, call, dtype, q, where):
  """Calls the transform and compares with the dense reference.

  Returns (float64 copy of the output, reference, exact?, elementwise bound).
  """
  n = x64.shape[0]
  p = n.bit_length() - 1
  y = call_transform(x, s, call)
  want_dtype = np.asarray(x).dtype
  ya = np.asarray(y)
  require(ya.shape == (n,), 'transform:output_shape', f'{where}: {ya.shape} for n={n}')
  require(ya.dtype == want_dtype, 'transform:output_dtype',
          f'{where}: {ya.dtype} for input {want_dtype}')
  y64 = ya.astype(np.float64)
  ref = ref_transform(x64)
  l1 = float(np.abs(x64).sum())
  sizes = stage_sizes(p, s)
  exact = is_exact(l1, q, MANT_BITS[dtype])
  if exact:
    bad = np.flatnonzero(y64 != ref)
    require(bad.size == 0, 'transform:differs_from_hadamard_product:exact_class',
            lambda: f'{where} n={n} block={2**s} stages={sizes}: index {bad[0]}: '
                    f'got {y64[bad[0]]!r} want {ref[bad[0]]!r} ({bad.size} of {n} differ)')
    return y64, ref, True, 0.0
  if dtype != 'float32':
    raise Discard('inexact_class_only_asserted_for_float32')
  tol = 1.1 * sum(sizes) * U * l1
  err = np.abs(y64 - ref)
  require(bool(np.all(np.isfinite(y64))) and float(err.max(initial=0.0)) <= tol,
          'transform:differs_from_hadamard_product:rounding_class',
          lambda: f'{where} n={n} block={2**s} stages={sizes}: max |err| '
                  f'{err.max()!r} at {int(err.argmax())} > bound {tol!r} (||x||_1={l1!r})')
  return y64, ref, False, tol


# ------------------------------------------------------------ transform: runs

def run_transform(case):
  p, s = case['p'], effective_s(case)
  n = 2 ** p
  dtype = case['dtype']
  x64 = build_vec(case['vec'], n)
  x = to_dtype(x64, dtype, case['container'])
  keep = np.asarray(x).copy()
  _, _, exact, _ = transform_checked(x, x64, s, case['call'], dtype,
                                     quantum_exp(case['vec']), 'x')
  require(np.array_equal(np.asarray(x), keep), 'transform:input_mutated')
  return ['exact_class' if exact else 'rounding_class']


def run_linear(case):
  p, s, call = case['p'], effective_s(case), case['call']
  n = 2 ** p
  sizes = stage_sizes(p, s)
  b_sum = sum(sizes)
  x64 = build_vec(case['vec'], n)
  w64 = build_vec(case['vec2'], n)
  qx, qw = quantum_exp(case['vec']), quantum_exp(case['vec2'])
  ca = case['a'][0] * 2.0 ** case['a'][1]
  cb = case['b'][0] * 2.0 ** case['b'][1]
  x = x64.astype(np.float32)
  w = w64.astype(np.float32)
  tx, refx, exx, tolx = transform_checked(x, x64, s, call, 'float32', qx, 'x')
  tw, _, _, tolw = transform_checked(w, w64, s, call, 'float32', qw, 'y')
  out = []

  # Linearity: T(a x + b y) == a T(x) + b T(y).
  comb = ca * x64 + cb * w64                     # exact in float64 (<= 50 bits)
  z = comb.astype(np.float32)
  z64 = z.astype(np.float64)
  rounding_in = float(np.abs(z64 - comb).sum())  # ||H (z - comb)||_inf <= ||z - comb||_1
  if not np.all(np.isfinite(z64)):
    raise Discard('combination_overflows_float32')
  qz = min(qx + case['a'][1], qw + case['b'][1])
  lz = float(np.abs(z64).sum())
  exz = rounding_in == 0.0 and is_exact(lz, qz, 24)
  tz = np.asarray(call_transform(z, s, call)).astype(np.float64)
  tolz = 0.0 if exz else 1.1 * b_sum * U * lz
  tol = tolz + abs(ca) * tolx + abs(cb) * tolw + rounding_in
  err = np.abs(tz - (ca * tx + cb * tw))
  require(float(err.max(initial=0.0)) <= tol, 'transform:not_linear',
          lambda: f'n={n} block={2**s} a={ca} b={cb}: max |T(ax+by) - aT(x) - bT(y)| = '
                  f'{err.max()!r} at {int(err.argmax())} > bound {tol!r}')
  out.append('linearity_exact' if tol == 0.0 else 'linearity_tolerance')

  # Involution: T(T(x)) == n x.
  ttx = np.asarray(call_transform(tx.astype(np.float32), s, call)).astype(np.float64)
  l1x = float(np.abs(x64).sum())
  l1y = float(np.abs(refx).sum())
  ex2 = exx and is_exact(l1y, qx, 24)
  tol2 = 0.0 if ex2 else 1.2 * b_sum * U * ((0.0 if exx else n * l1x) + l1y)
  err2 = np.abs(ttx - n * x64)
  require(float(err2.max(initial=0.0)) <= tol2, 'transform:twice_is_not_n_times_identity',
          lambda: f'n={n} block={2**s}: max |T(T(x)) - n x| = {err2.max()!r} at '
                  f'{int(err2.argmax())} > bound {tol2!r}')
  out.append('involution_exact' if ex2 else 'involution_tolerance')
  return out


GRID_INT = {'mod': 7, 'a': 5, 'b': 3, 'c': 1, 'exp': 0, 'spikes': []}
GRID_GEN = {'mod': 16777213, 'a': 2654435, 'b': 40503, 'c': 977, 'exp': -24,
            'spikes': [[3, 11184811, -7], [1000, -13421773, 5]]}


def run_grid(case):
  _EAGER[0] = bool(case.get('eager'))
  try:
    return _run_grid(case)
  finally:
    _EAGER[0] = False


def _run_grid(case):
  p, s, call = case['p'], effective_s(case), case['call']
  n = 2 ** p
  k = n_factors(p, s)
  out = ['eager'] if case.get('eager') else []
  try:
    for name, spec in (('int', dict(GRID_INT, c=1 + p + s)), ('generic', GRID_GEN)):
      x64 = build_vec(spec, n)
      x = x64.astype(np.float32)
      y64, ref, exact, _ = transform_checked(x, x64, s, call, 'float32',
                                             quantum_exp(spec), name)
      out.append(f'{name}:{"exact" if exact else "rounding"}')
      if name == 'int':
        ttx = np.asarray(call_transform(y64.astype(np.float32), s, call)).astype(np.float64)
        l1y = float(np.abs(ref).sum())
        ex2 = exact and is_exact(l1y, 0, 24)
        tol2 = 0.0 if ex2 else 1.2 * sum(stage_sizes(p, s)) * U * l1y
        err2 = np.abs(ttx - n * x64)
        require(float(err2.max(initial=0.0)) <= tol2,
                'transform:twice_is_not_n_times_identity',
                lambda: f'n={n} block={2**s}: max err {err2.max()!r} > {tol2!r}')
    # Columns of the matrix: scaled unit vectors are transformed exactly.
    for pos, mant in ((0, 3), (n - 1, -5), (0x2d6b & (n - 1), 7)):
      spec = {'mod': 1, 'a': 0, 'b': 0, 'c': 0, 'exp': 0, 'spikes': [[pos, mant, 0]]}
      x64 = build_vec(spec, n)
      transform_checked(x64.astype(np.float32), x64, s, call, 'float32', 0, f'{mant}*e_{pos}')
  except TooManyFactors:
    # >= 9 Kronecker factors (only raised by call_transform in that case): the
    # documented rejection.  Had the call been accepted it had to be right.
    assert k >= 9
    return ['rejected_too_many_factors']
  return out


def grid_cases(tier):
  max_f = 6 if tier == 'quick' else 7
  for p in range(0, 15):
    for s in range(1, 9):
      k = n_factors(p, s)
      if k == 8 or (k == 7 and max_f < 7):
        # too slow to compile as one program: executed with jit disabled
        yield {'p': p, 's': s, 'call': 'pos', 'eager': True}
        continue
      calls = ['pos', 'kw'] if k < 7 else ['pos']
      for call in calls:
        yield {'p': p, 's': s, 'call': call}
    yield {'p': p, 's': DEFAULT_S, 'call': 'default'}


# ---------------------------------------------------------- rotation: oracle

def next_pow2(n):
  return 1 << max(0, (n - 1).bit_length())


_KEY_KIND = ['raw']


def key_array(words):
  raw = jnp.array(words, dtype=jnp.uint32)
  if _KEY_KIND[0] == 'typed':
    # the same key as a new-style typed key array (jax.random.key / wrap_key_data)
    return jax.random.wrap_key_data(raw)
  return raw


def with_key_kind(run):
  """Runs `run(case)` with the key representation the case names; with a typed
  key the rotated values must be those of the raw uint32 key (same key data)."""
  @functools.wraps(run)
  def wrapped(case):
    _KEY_KIND[0] = case.get('key_kind', 'raw')
    try:
      return run(case)
    finally:
      _KEY_KIND[0] = 'raw'
  return wrapped


def make_leaf(leaf):
  """Builds the array handed to fedjax and its float64 values (flat)."""
  shape = tuple(leaf['shape'])
  size = int(np.prod(shape, dtype=np.int64)) if shape else 1
  x64 = build_vec(leaf['vec'], size)
  x32 = x64.astype(np.float32)
  assert np.array_equal(x32.astype(np.float64), x64)
  arr = x32.reshape(shape)
  if (leaf.get('as_int') and size and np.array_equal(x64, np.rint(x64)) and
      float(np.abs(x64).max()) < 2 ** 24 and
      2.0 * float(np.abs(x64).sum()) < 2 ** 31):
    # integer-typed parameters / counters: same values, integer dtype -- as
    # long as no signed sum of the entries (nor of their doubles, for the
    # homogeneity probe) can leave int32: overflow is not the transform's doing
    arr = arr.astype(np.int32)
  kind = leaf.get('container', 'np')
  if kind == 'jnp':
    arr = jnp.asarray(arr)
  elif kind == 'np_scalar' and shape == ():
    arr = arr.dtype.type(arr)
  return arr, x64, shape


def check_rotated(x64, shape, q, y, sh, where):
  """Clauses on one rotated leaf.  Returns a context for the inverse check."""
  size = x64.shape[0]
  sha = np.asarray(sh)
  require(sha.ndim == 1 and sha.tolist() == list(shape), 'rotation:recorded_shape_wrong',
          f'{where}: recorded {sha.tolist()} ({sha.dtype}{sha.shape}) for shape {list(shape)}')
  require(np.issubdtype(sha.dtype, np.integer), 'rotation:recorded_shape_not_integer',
          f'{where}: recorded shape has dtype {sha.dtype} for shape {list(shape)}')
  ya = np.asarray(y)
  d = int(ya.shape[0]) if ya.ndim == 1 else -1
  require(ya.ndim == 1 and d >= size and d & (d - 1) == 0, 'rotation:rotated_length',
          f'{where}: rotated shape {ya.shape} for size {size}')
  require(ya.dtype == np.float32, 'rotation:rotated_dtype', f'{where}: {ya.dtype}')
  y64 = ya.astype(np.float64)
  require(bool(np.all(np.isfinite(y64))), 'rotation:not_finite', where)
  pd = d.bit_length() - 1
  sizes = stage_sizes(pd, DEFAULT_S)
  b_sum = sum(sizes)
  s_sum = sum(b ** 1.5 for b in sizes)
  l1 = float(np.abs(x64).sum())
  l2 = math.sqrt(float((x64 * x64).sum()))
  exact = is_exact(l1, q, 24)
  e1 = 0.0 if exact else 1.1 * b_sum * U * l1
  nroute = 0.0 if exact else min(e1, 1.1 * U * s_sum * l2)
  e2 = 4 * U
  sq = math.sqrt(d)

  ny = math.sqrt(float((y64 * y64).sum()))
  tol_n = 1.01 * nroute + e2 * l2
  require(abs(ny - l2) <= tol_n, 'rotation:norm_not_preserved',
          lambda: f'{where} shape={list(shape)} d={d}: ||R(x)||={ny!r} ||x||={l2!r} '
                  f'diff {abs(ny - l2)!r} > bound {tol_n!r}')

  # R(x) = H D pad(x) / sqrt(d) for a +-1 diagonal D  <=>  |H y / sqrt(d)| == |pad(x)|.
  back = ref_transform(y64) / sq
  w = np.zeros(d)
  w[:size] = x64
  y1 = float(np.abs(y64).sum())
  tol_s = 1.01 * e1 + 1.01 * e2 * y1 / sq
  dev = np.abs(np.abs(back) - np.abs(w))
  require(float(dev.max()) <= tol_s, 'rotation:not_hadamard_times_sign_flip',
          lambda: f'{where} shape={list(shape)} d={d}: |H y/sqrt d| deviates from |pad x| by '
                  f'{dev.max()!r} at {int(dev.argmax())} > bound {tol_s!r}')
  a1 = 1.02 * e1 + 1.02 * (e2 + 1.1 * b_sum * U) * y1 / sq
  a2 = 1.02 * (nroute + e2 * l2 + 1.1 * U * s_sum * l2)
  # Two rotations whose sign vectors differ on a non-zero entry are at distance
  # >= 2 min|x_i != 0| in exact arithmetic; each computed one is within `noise`
  # of its exact value, so they are certainly distinct arrays when min > noise.
  nz = np.abs(x64[x64 != 0])
  noise = 1.01 * nroute + e2 * l2
  return {'tol_inv': min(a1, a2), 'e2': e2, 'd': d, 'nnz': int(nz.size), 'y': ya,
          'keys_observable': bool(nz.size and float(nz.min()) > 1.5 * noise)}


def check_restored(x64, shape, ctx, z, where):
  za = np.asarray(z)
  require(za.shape == tuple(shape), 'inverse:shape_not_restored',
          f'{where}: restored shape {za.shape} for original {tuple(shape)}')
  require(za.dtype == np.float32, 'inverse:dtype', f'{where}: {za.dtype}')
  z64 = za.astype(np.float64).reshape(-1)
  tol = ctx['tol_inv'] + 1.01 * ctx['e2'] * np.abs(x64)
  err = np.abs(z64 - x64)
  bad = np.flatnonzero(~(err <= tol))
  require(bad.size == 0, 'inverse:values_not_restored',
          lambda: f'{where} shape={list(shape)} d={ctx["d"]}: index {bad[0]}: got '
                  f'{z64[bad[0]]!r} want {x64[bad[0]]!r} (bound {tol[bad[0]]!r}; '
                  f'{bad.size} of {x64.size} off)')


def bump_key(words, j):
  return [words[0], (words[1] + j) % 2 ** 32]


# ------------------------------------------------------------ rotation: runs

def run_rotation(case):
  leaf = case['leaf']
  arr, x64, shape = make_leaf(leaf)
  q = quantum_exp(leaf['vec'])
  keep = np.asarray(arr).copy()
  key = key_array(case['key'])
  y, sh = guarded('rotation', wh.structured_rotation, arr, key)
  if _KEY_KIND[0] == 'typed':
    y_raw, _ = guarded('rotation', wh.structured_rotation, arr,
                       jnp.array(case['key'], dtype=jnp.uint32))
    require(np.array_equal(np.asarray(y), np.asarray(y_raw)),
            'rotation:typed_key_rotates_differently_from_its_raw_key')
  ctx = check_rotated(x64, shape, q, y, sh, 'leaf')
  z = guarded('inverse', wh.inverse_structured_rotation, y, key, sh)
  check_restored(x64, shape, ctx, z, 'leaf')
  out = []

  # Same key, same rotation (bit for bit); R(2x) == 2 R(x) (D does not depend on x).
  y_again, _ = guarded('rotation', wh.structured_rotation, arr, key_array(case['key']))
  require(np.array_equal(np.asarray(y_again), ctx['y']), 'rotation:same_key_not_deterministic')
  # (the doubled input keeps the dtype of the input: integer inputs take an
  # exact integer path through the transform, float inputs a rounded one)
  two = np.asarray(arr).dtype.type(2)
  y_twice, _ = guarded('rotation', wh.structured_rotation,
                        np.asarray(arr) * two, key)
  require(np.array_equal(np.asarray(y_twice), ctx['y'] * np.float32(2)),
          'rotation:not_homogeneous', 'R(2x, key) != 2 R(x, key)')

  # Different keys, different rotations.
  nnz = ctx['nnz']
  if case['key2'] != case['key'] and nnz >= 32 and ctx['keys_observable']:
    y2, _ = guarded('rotation', wh.structured_rotation, arr, key_array(case['key2']))
    require(not np.array_equal(np.asarray(y2), ctx['y']), 'rotation:different_keys_same_rotation',
            f'shape={list(shape)} keys {case["key"]} and {case["key2"]} ({nnz} non-zero entries)')
    out.append('two_keys_compared')
  elif 2 <= nnz < 32 and ctx['keys_observable']:
    same = True
    for j in range(1, 16):
      yj, _ = guarded('rotation', wh.structured_rotation, arr,
                      key_array(bump_key(case['key'], j)))
      if not np.array_equal(np.asarray(yj), ctx['y']):
        same = False
        break
    require(not same, 'rotation:different_keys_same_rotation',
            f'shape={list(shape)}: 16 consecutive keys from {case["key"]} give one rotation')
    out.append('key_family_compared')
  require(np.array_equal(np.asarray(arr), keep), 'rotation:input_mutated')
  return out


def build_tree(node, tied=None):
  """JSON tree -> (pytree handed to fedjax, list of (leaf json) in flatten order).

  Leaves marked 'tie' with the same description are ONE array object placed at
  several positions of the tree (tied / shared weights)."""
  tied = {} if tied is None else tied
  if 'leaf' in node:
    if node.get('tie'):
      key = json.dumps(node['leaf'], sort_keys=True)
      if key not in tied:
        tied[key] = make_leaf(node['leaf'])[0]
      return tied[key]
    arr, _, _ = make_leaf(node['leaf'])
    return arr
  if 'd' in node:
    return {k: build_tree(v, tied) for k, v in node['d'].items()}
  if 'l' in node:
    return [build_tree(v, tied) for v in node['l']]
  if 't' in node:
    return tuple(build_tree(v, tied) for v in node['t'])
  raise ValueError(node)


def tree_leaves_json(node):
  """Leaf descriptions in jax flatten order (dict keys sorted)."""
  if 'leaf' in node:
    return [node['leaf']]
  if 'd' in node:
    return [l for k in sorted(node['d']) for l in tree_leaves_json(node['d'][k])]
  kids = node['l'] if 'l' in node else node['t']
  return [l for v in kids for l in tree_leaves_json(v)]


def run_pytree(case):
  tree = build_tree(case['tree'])
  descs = tree_leaves_json(case['tree'])
  structure = jax.tree_util.tree_structure(tree)
  require(structure.num_leaves == len(descs), 'harness:leaf_order')
  key = key_array(case['key'])
  rot, shapes = guarded('pytree_rotation', wh.structured_rotation_pytree, tree, key)
  if _KEY_KIND[0] == 'typed':
    raw_rot, _ = guarded('pytree_rotation', wh.structured_rotation_pytree, tree,
                         jnp.array(case['key'], dtype=jnp.uint32))
    require(all(np.array_equal(np.asarray(a), np.asarray(b)) for a, b in zip(
        jax.tree_util.tree_leaves(rot), jax.tree_util.tree_leaves(raw_rot))),
            'pytree:typed_key_rotates_differently_from_its_raw_key')
  require(jax.tree_util.tree_structure(rot) == structure, 'pytree:rotated_structure_differs',
          f'{jax.tree_util.tree_structure(rot)} vs {structure}')
  require(jax.tree_util.tree_structure(shapes) == structure, 'pytree:shapes_structure_differs',
          f'{jax.tree_util.tree_structure(shapes)} vs {structure}')
  rl = jax.tree_util.tree_leaves(rot)
  sl = jax.tree_util.tree_leaves(shapes)
  ctxs = []
  for i, desc in enumerate(descs):
    _, x64, shape = make_leaf(desc)
    ctxs.append((x64, shape, check_rotated(x64, shape, quantum_exp(desc['vec']),
                                           rl[i], sl[i], f'leaf {i}')))
  back = guarded('pytree_inverse', wh.inverse_structured_rotation_pytree, rot, key, shapes)
  require(jax.tree_util.tree_structure(back) == structure, 'pytree:restored_structure_differs',
          f'{jax.tree_util.tree_structure(back)} vs {structure}')
  bl = jax.tree_util.tree_leaves(back)
  for i, (x64, shape, ctx) in enumerate(ctxs):
    check_restored(x64, shape, ctx, bl[i], f'leaf {i}')
  out = []
  if case['key2'] != case['key'] and any(
      c['nnz'] >= 32 and c['keys_observable'] for _, _, c in ctxs):
    rot2, _ = guarded('pytree_rotation', wh.structured_rotation_pytree, tree,
                      key_array(case['key2']))
    rl2 = jax.tree_util.tree_leaves(rot2)
    for i, (_, shape, ctx) in enumerate(ctxs):
      if ctx['nnz'] >= 32 and ctx['keys_observable']:
        require(not np.array_equal(np.asarray(rl2[i]), ctx['y']),
                'pytree:different_keys_same_rotation',
                f'leaf {i} shape={list(shape)} keys {case["key"]} / {case["key2"]}')
    out.append('two_keys_compared')
  return out


# ------------------------------------------------------------------- labels

def vec_labels(spec, prefix=''):
  ls = []
  if spec['mod'] == 1:
    ls.append(prefix + ('vec:unit' if len(spec['spikes']) == 1 else
                        'vec:zero' if not spec['spikes'] else 'vec:sparse'))
  elif spec['mod'] >= 2 ** 16:
    ls.append(prefix + 'vec:dense_24bit')
  else:
    ls.append(prefix + 'vec:dense_small')
  return ls


def transform_labels(case):
  p, s = case['p'], effective_s(case)
  k = n_factors(p, s)
  ls = [f'factors:{k}', 'call:' + case['call'], f's:{s}',
        'p:' + ('0' if p == 0 else '1-4' if p <= 4 else '5-9' if p <= 9 else
                '10-12' if p <= 12 else '13-14')]
  if 'dtype' in case:
    ls.append('dtype:' + case['dtype'])
    ls.append('input:' + case['container'])
  if p and p % s:
    ls.append('remainder_factor')
  if p and k > 1 and p % s == 0:
    ls.append('equal_factors')
  if 'vec' in case:
    ls += vec_labels(case['vec'])
  return ls


def transform_nontrivial(case, ls):
  return (case['p'] >= case['s'] + 1 and not case['call'].startswith('default') and
          n_factors(case['p'], case['s']) <= 8)


def leaf_labels(leaf):
  shape = leaf['shape']
  size = int(np.prod(shape, dtype=np.int64)) if shape else 1
  ls = [f'ndim:{len(shape)}']
  if not shape:
    ls.append('zero_d:' + leaf.get('container', 'np'))
  if size == 1:
    ls.append('size:1')
  elif size & (size - 1) == 0:
    ls.append('size:pow2')
  elif (size + 1) & size == 0:
    ls.append('size:pow2-1')
  elif (size - 1) & (size - 2) == 0:
    ls.append('size:pow2+1')
  else:
    ls.append('size:other')
  d = next_pow2(size)
  ls.append('d:' + ('1' if d == 1 else '2-16' if d <= 16 else '32-128' if d <= 128 else
                    '256-1024' if d <= 1024 else '2048-4096' if d <= 4096 else '>=8192'))
  if d > 128:
    ls.append('multi_stage_default_block')
  if len(shape) >= 2 and size & (size - 1):
    ls.append('multi_dim_non_pow2')
  ls.append('container:' + leaf.get('container', 'np'))
  return ls + vec_labels(leaf['vec'])


def rotation_labels(case):
  return leaf_labels(case['leaf'])


def _tree_kind(node):
  if 'leaf' in node:
    return 'bare_leaf'
  if 'd' in node:
    nested = any('leaf' not in v for v in node['d'].values())
    return 'nested_dict' if nested else 'dict'
  return 'list' if 'l' in node else 'tuple'


def pytree_labels(case):
  descs = tree_leaves_json(case['tree'])
  ls = ['tree:' + _tree_kind(case['tree']), f'leaves:{len(descs)}']
  seen = set()
  for d in descs:
    seen.update(l for l in leaf_labels(d) if not l.startswith(('vec:', 'container:', 'd:')))
  shapes = [tuple(d['shape']) for d in descs]
  if len(set(shapes)) < len(shapes):
    seen.add('repeated_leaf_shape')
  return ls + sorted(seen)


def rotation_nontrivial(case, ls):
  return 'multi_dim_non_pow2' in ls


# --------------------------------------------------------------- strategies

def _pairs(max_factors):
  return [(p, s) for p in range(0, 15) for s in range(1, 9)
          if n_factors(p, s) <= max_factors]


PAIRS6 = _pairs(6)
PAIRS6_MULTI = [(p, s) for p, s in PAIRS6 if p >= s + 1]

_exp = st.integers(-30, 30)
_mant24 = st.one_of(st.integers(-(2 ** 24 - 1), 2 ** 24 - 1), st.integers(-16, 16),
                    st.sampled_from([1, -1, 2 ** 23, 2 ** 24 - 1, -(2 ** 24 - 1), 3]))
_pos = st.one_of(st.integers(0, 2 ** 14 - 1), st.sampled_from([0, 1, 2 ** 14 - 1, 2 ** 13]))


@st.composite
def vec_strategy(draw, flavour='f32'):
  """flavour: 'f32' anything; 'int' small integers; 'low' sparse tiny integers."""
  if flavour == 'low':
    spikes = draw(st.lists(st.tuples(_pos, st.integers(-15, 15), st.just(0)).map(list),
                           min_size=1, max_size=8))
    return {'mod': 1, 'a': 0, 'b': 0, 'c': 0, 'exp': 0, 'spikes': spikes}
  if flavour == 'int':
    m = draw(st.integers(1, 16))
    spikes = draw(st.lists(st.tuples(_pos, st.integers(-1024, 1024), st.just(0)).map(list),
                           max_size=4))
    return {'mod': m, 'a': draw(st.integers(0, m - 1)), 'b': draw(st.integers(0, m - 1)),
            'c': draw(st.integers(0, m - 1)), 'exp': 0, 'spikes': spikes}
  style = draw(st.sampled_from(['int_dense', 'int_dense', 'dense24', 'dense24', 'sparse',
                                'unit', 'dense_small_exp']))
  if style == 'unit':
    return {'mod': 1, 'a': 0, 'b': 0, 'c': 0, 'exp': 0,
            'spikes': [[draw(_pos), draw(_mant24.filter(bool)), draw(_exp)]]}
  if style == 'sparse':
    spikes = draw(st.lists(st.tuples(_pos, _mant24, _exp).map(list), min_size=0, max_size=8))
    return {'mod': 1, 'a': 0, 'b': 0, 'c': 0, 'exp': 0, 'spikes': spikes}
  if style == 'int_dense':
    m = draw(st.integers(2, 64))
    e = draw(st.sampled_from([0, 0, 0, -3, 4]))
    sp = st.tuples(_pos, st.integers(-64, 64), st.just(e)).map(list)
  elif style == 'dense_small_exp':
    m = draw(st.integers(2, 4096))
    e = draw(_exp)
    sp = st.tuples(_pos, _mant24, _exp).map(list)
  else:
    m = draw(st.integers(2 ** 20, 2 ** 24))
    e = draw(st.sampled_from([-24, -24, -30, 0, 17]))
    sp = st.tuples(_pos, _mant24, _exp).map(list)
  return {'mod': m, 'a': draw(st.integers(0, m - 1)), 'b': draw(st.integers(0, m - 1)),
          'c': draw(st.integers(0, m - 1)), 'exp': e,
          'spikes': draw(st.lists(sp, max_size=3))}


CALLS = ['pos', 'pos', 'kw', 'kw', 'kw_prec', 'pos_prec_enum', 'default', 'default_prec']


@st.composite
def transform_strategy(draw, tier):
  p, s = draw(st.one_of(st.sampled_from(PAIRS6_MULTI), st.sampled_from(PAIRS6)))
  call = draw(st.sampled_from(CALLS))
  if call.startswith('default'):
    s = DEFAULT_S
  dtype = draw(st.sampled_from(['float32'] * 10 + ['int32', 'int32', 'float16', 'bfloat16']))
  if dtype == 'float32':
    vec = draw(vec_strategy('f32'))
    container = draw(st.sampled_from(['np', 'np', 'jnp']))
  elif dtype == 'int32':
    vec = draw(vec_strategy('int'))
    container = draw(st.sampled_from(['np', 'jnp']))
  else:
    vec = draw(vec_strategy('low'))
    container = 'jnp' if dtype == 'bfloat16' else draw(st.sampled_from(['np', 'jnp']))
  return {'p': p, 's': s, 'call': call, 'dtype': dtype, 'container': container, 'vec': vec}


_scalar = st.tuples(st.sampled_from([1, -1, 3, -3, 5, 7, 0, 2, 11]),
                    st.integers(-4, 4)).map(list)


@st.composite
def linear_strategy(draw, tier):
  p, s = draw(st.one_of(st.sampled_from(PAIRS6_MULTI), st.sampled_from(PAIRS6)))
  call = draw(st.sampled_from(['pos', 'kw', 'pos', 'kw', 'default']))
  if call == 'default':
    s = DEFAULT_S
  return {'p': p, 's': s, 'call': call, 'vec': draw(vec_strategy('f32')),
          'vec2': draw(vec_strategy('f32')), 'a': draw(_scalar), 'b': draw(_scalar)}


SHAPES_QUICK = [
    [], [1], [1, 1], [2], [3], [2, 3], [5, 1, 2], [7], [1, 7], [8], [4, 4], [5, 7], [33],
    [3, 11], [63], [2, 3, 4, 5], [128], [129], [10, 13], [3, 5, 17], [23, 45], [1025],
    [5, 5, 41], [4096], [4097], [64, 65]]
SHAPES_THOROUGH = SHAPES_QUICK + [
    [3, 3], [9], [17], [31], [32], [5, 13], [65], [127], [255], [257], [16, 16], [511], [513],
    [1023], [2047], [2049], [4095], [64], [256], [512], [1024], [2048], [8191], [8192], [8193],
    [16383], [16384], [16385], [128, 129], [3, 43, 127], [1, 1, 1, 1], [2, 2, 2, 2],
    [100, 100], [7, 11, 13, 2]]
LEAF_SHAPES = [[], [1], [1, 1], [3], [2, 3], [5, 1, 2], [7], [4, 4], [5, 7], [33], [3, 11],
               [10, 13], [128], [129], [23, 45], [1025]]

_key = st.tuples(st.integers(0, 2 ** 32 - 1) | st.sampled_from([0, 1, 2 ** 32 - 1]),
                 st.integers(0, 2 ** 32 - 1) | st.sampled_from([0, 1, 2 ** 32 - 1])).map(list)


def other_key(key):
  """A key that differs from `key` by construction (a non-zero word offset)."""
  off = st.one_of(st.integers(1, 2 ** 32 - 1), st.sampled_from([1, 2, 2 ** 31, 2 ** 32 - 1]))
  any_off = st.integers(0, 2 ** 32 - 1)
  return st.one_of(
      st.tuples(any_off, off), st.tuples(off, any_off), st.tuples(st.just(0), off),
      st.tuples(off, st.just(0))).map(
          lambda o: [(key[0] + o[0]) % 2 ** 32, (key[1] + o[1]) % 2 ** 32])


def _is_nt_shape(shape):
  size = int(np.prod(shape, dtype=np.int64)) if shape else 1
  return len(shape) >= 2 and size & (size - 1) != 0


@st.composite
def leaf_strategy(draw, shapes, free_dim_max):
  if free_dim_max and draw(st.integers(0, 15)) == 0:
    shape = draw(st.lists(st.integers(1, free_dim_max), min_size=1, max_size=4))
  else:
    shape = list(draw(st.one_of(st.sampled_from(shapes),
                                st.sampled_from([x for x in shapes if _is_nt_shape(x)]))))
  container = draw(st.sampled_from(['np', 'np', 'jnp', 'np_scalar'] if not shape
                                   else ['np', 'np', 'jnp']))
  return {'shape': shape, 'container': container, 'vec': draw(vec_strategy('f32')),
          'as_int': draw(st.integers(0, 3)) == 0}


@st.composite
def rotation_strategy(draw, tier):
  shapes = SHAPES_QUICK if tier == 'quick' else SHAPES_THOROUGH
  leaf = draw(leaf_strategy(shapes, 9 if tier == 'quick' else 12))
  key = draw(_key)
  return {'leaf': leaf, 'key': key, 'key2': draw(other_key(key)),
          'key_kind': draw(st.sampled_from(['raw', 'raw', 'raw', 'typed']))}


_names = st.sampled_from(['w', 'b', 'linear', 'conv', 'a', 'z', 'embed'])


@st.composite
def tree_strategy(draw, tier):
  leaf = leaf_strategy(LEAF_SHAPES if tier == 'quick' else LEAF_SHAPES + [[4097], [64, 65]],
                       0 if tier == 'quick' else 6).map(lambda l: {'leaf': l})
  kind = draw(st.sampled_from(['dict', 'dict', 'nested', 'nested', 'nested', 'list', 'list',
                               'tuple', 'tuple', 'bare', 'mixed', 'mixed', 'mixed', 'empty']))
  if kind == 'bare':
    return draw(leaf)
  if kind == 'empty':
    return draw(st.sampled_from([{'d': {}}, {'l': []}, {'d': {'a': {'d': {}}}}]))
  if kind == 'dict':
    d = draw(st.dictionaries(_names, leaf, min_size=1, max_size=4))
    if draw(st.integers(0, 2)) == 0:
      # the very same array object a second time (tied weights)
      src = sorted(d)[draw(st.integers(0, len(d) - 1))]
      d[src] = dict(d[src], tie=True)
      d['tied_' + src] = dict(d[src])
    return {'d': d}
  if kind == 'list':
    return {'l': draw(st.lists(leaf, min_size=1, max_size=4))}
  if kind == 'tuple':
    return {'t': draw(st.lists(leaf, min_size=1, max_size=3))}
  inner = st.dictionaries(st.sampled_from(['w', 'b']), leaf, min_size=0, max_size=2).map(
      lambda d: {'d': d})
  if kind == 'nested':
    return {'d': draw(st.dictionaries(_names, inner, min_size=1, max_size=3))}
  return {'d': draw(st.dictionaries(
      _names, st.one_of(leaf, inner, st.lists(leaf, max_size=2).map(lambda l: {'l': l}),
                        # tuple nodes, also the EMPTY tuple (a parameter-less
                        # module, an empty NamedTuple state)
                        st.lists(leaf, max_size=1).map(lambda l: {'t': l})),
      min_size=1, max_size=3))}


@st.composite
def pytree_strategy(draw, tier):
  key = draw(_key)
  return {'tree': draw(tree_strategy(tier)), 'key': key, 'key2': draw(other_key(key)),
          'key_kind': draw(st.sampled_from(['raw', 'raw', 'raw', 'typed']))}


# ---------------------------------------------------- other random-bit layout

def child_rotation_batch(cases):
  """Runs in a child interpreter started with JAX_THREEFRY_PARTITIONABLE=0."""
  assert not jax.config.jax_threefry_partitionable
  for i, case in enumerate(cases):
    try:
      run_rotation(case)
    except Violation as v:
      return {'clause': v.clause, 'message': f'case {i}: {v.message}', 'index': i}
  return {}


def run_rotation_legacy_rng(case):
  """The rotation clauses under the other documented layout of JAX's random
  bits (jax_threefry_partitionable=False, the default of the JAX releases
  fedjax was written for): there, draws of different lengths from one key do
  not share a prefix, so the forward and the inverse rotation must ask for
  their signs in exactly the same way."""
  import subprocess
  import sys
  from vf import env as _env
  env = _env.worker_env()
  env['JAX_THREEFRY_PARTITIONABLE'] = '0'
  p = subprocess.run([sys.executable, '-m', 'vf.child', 'vf.props.c18', 'child_rotation_batch',
                      json.dumps(case['cases']), '--no-tf'], env=env, cwd=_env.VERIF_DIR,
                     capture_output=True, text=True, timeout=1800)
  line = [l for l in p.stdout.splitlines() if l.startswith('@@CHILD@@')]
  if p.returncode != 0 or not line:
    raise Violation('legacy_rng:child_process_failed', p.stderr[-1500:])
  res = json.loads(line[0][9:])
  if 'clause' in res:
    raise Violation('legacy_rng:' + res['clause'], res['message'])


@st.composite
def legacy_rng_strategy(draw, tier):
  return {'cases': [draw(rotation_strategy(tier)) for _ in range(6)]}


def legacy_rng_labels(case):
  return sorted({l for c in case['cases'] for l in rotation_labels(c)})


# ------------------------------------------------------- across processes

def _rotate_hex(case):
  tree = build_tree(case['tree'])
  rot, shapes = wh.structured_rotation_pytree(tree, key_array(case['key']))
  return {'rot': [np.asarray(l).astype(np.float64).tobytes().hex()
                  for l in jax.tree_util.tree_leaves(rot)],
          'shapes': [np.asarray(l).tolist() for l in jax.tree_util.tree_leaves(shapes)]}


def child_rotate_batch(cases):
  out = []
  for case in cases:
    try:
      out.append(_rotate_hex(case))
    except Exception as e:  # pylint: disable=broad-except
      out.append({'error': f'{type(e).__name__}: {e}'})
  return out


def run_pytree_across_processes(case):
  """The rotation of a tree is a function of (tree, key) -- in every process.
  A rotated tree is un-rotated by whoever holds the key (the server of another
  job, a restarted run): the rotated values and recorded shapes computed here
  are compared bit for bit with those computed by a fresh interpreter with
  another PYTHONHASHSEED (names of dict entries hash differently there)."""
  from vf import child
  here = []
  for c in case['cases']:
    here.append(guarded('pytree_rotation', _rotate_hex, c))
  there = child.call('vf.props.c18', 'child_rotate_batch', case['cases'],
                     {'PYTHONHASHSEED': str(4242 + case['hashseed'])}, 'across_processes')
  require(len(there) == len(here), 'across_processes:child_result_count')
  for i, (a, b) in enumerate(zip(here, there)):
    require('error' not in b, 'across_processes:raised_in_other_process', lambda: f'case {i}: {b}')
    require(a['shapes'] == b['shapes'], 'across_processes:recorded_shapes_differ',
            lambda: f'case {i}: {a["shapes"]} vs {b["shapes"]}')
    diff = [j for j, (x, y) in enumerate(zip(a['rot'], b['rot'])) if x != y]
    require(not diff and len(a['rot']) == len(b['rot']),
            'across_processes:same_key_other_rotation',
            lambda: f'case {i}: leaves {diff} of {len(a["rot"])} differ between two processes')
  return []


@st.composite
def across_strategy(draw, tier):
  return {'cases': [draw(pytree_strategy(tier)) for _ in range(6)],
          'hashseed': draw(st.integers(0, 3))}


def across_labels(case):
  return sorted({l for c in case['cases'] for l in pytree_labels(c)})


# ----------------------------------------------------- wide integer entries

def run_transform_wide_int(case):
  """int32 vectors whose entries need up to 30 bits (sums stay below 2^31):
  the transform of an integer vector is the exact integer H x, in int32 -- the
  additions and subtractions are done in the input's own type, nothing is
  rounded through a narrower mantissa on the way."""
  p = case['p']
  n = 2 ** p
  vals = [(v % (2 ** (30 - p))) * (1 if i % 3 else -1) for i, v in enumerate(case['vals'])]
  vals = (vals * n)[:n]
  x = jnp.asarray(np.asarray(vals, np.int32))
  want = dense_h(p).astype(np.int64) @ np.asarray(vals, np.int64)
  got = call_transform(x, case['s'], 'kw')
  g = np.asarray(got)
  require(g.dtype == np.int32 and g.shape == (n,), 'wide_int:dtype_or_shape', f'{g.dtype}{g.shape}')
  bad = np.nonzero(g.astype(np.int64) != want)[0]
  require(bad.size == 0, 'wide_int:transform_of_integers_not_exact',
          lambda: f'n={n} block 2^{case["s"]}: index {int(bad[0])}: got {int(g[bad[0]])} '
                  f'want {int(want[bad[0]])} ({bad.size} of {n} off)')
  return []


@st.composite
def wide_int_strategy(draw, tier):
  # (few shapes: every (length, block) pair is a compilation)
  p, s = draw(st.sampled_from([(2, 1), (3, 2), (4, 2), (5, 3), (6, 7), (3, 1), (1, 1)]))
  return {'p': p, 's': s, 'vals': draw(st.lists(st.integers(2 ** 24, 2 ** 30), min_size=1,
                                                max_size=16))}


CHECKS = [
    Check(name='transform_grid', run=run_grid, cases=grid_cases,
          labels=transform_labels, nontrivial=transform_nontrivial, time_share=1.5,
          doc='exhaustive (p in 0..14, s in 1..8) x {positional, keyword} + defaulted block '
              'size: integer vector, 24-bit generic vector, three scaled unit vectors '
              '(columns of the matrix) against the dense Sylvester product, T(T(x)) = n x; '
              '>= 9 Kronecker factors must raise the documented ValueError'),
    Check(name='transform_vs_dense', run=run_transform, strategy=transform_strategy,
          labels=transform_labels, nontrivial=transform_nontrivial,
          budget={'quick': 2000, 'thorough': 40000}, time_share=1.5,
          doc='generated (p, s, call style, dtype, input container, vector): output equals '
              'scipy.linalg.hadamard(n) @ x (bit-exact in the exact class, rigorous rounding '
              'bound otherwise), shape and dtype kept, input untouched'),
    Check(name='transform_linear_involution', run=run_linear, strategy=linear_strategy,
          labels=transform_labels, nontrivial=transform_nontrivial,
          budget={'quick': 1000, 'thorough': 20000}, time_share=1.0,
          doc='T(a x + b y) = a T(x) + b T(y) for dyadic scalars; T(T(x)) = n x'),
    Check(name='transform_wide_integers', run=run_transform_wide_int, strategy=wide_int_strategy,
          labels=lambda c: ['p:%d' % c['p'], 's:%d' % c['s']],
          nontrivial=lambda c, ls: c['p'] >= 2,
          budget={'quick': 300, 'thorough': 6000}, time_share=0.5,
          doc='int32 vectors with entries of 25-30 significant bits: the transform is the '
              'exact integer H x in int32'),
    Check(name='rotation_roundtrip', run=with_key_kind(run_rotation), strategy=rotation_strategy,
          labels=rotation_labels, nontrivial=rotation_nontrivial,
          budget={'quick': 1200, 'thorough': 30000}, time_share=3.0,
          doc='structured_rotation / inverse_structured_rotation on one array of any shape: '
              'recorded shape, norm, R(x) = H D pad(x)/sqrt(d) for a sign diagonal D, inverse '
              'restores values and shape, same key deterministic, R(2x) = 2R(x), different '
              'keys differ'),
    Check(name='rotation_roundtrip_legacy_rng', run=run_rotation_legacy_rng,
          strategy=legacy_rng_strategy, labels=legacy_rng_labels,
          nontrivial=rotation_nontrivial,
          budget={'quick': 32, 'thorough': 640}, time_share=1.0,
          doc='six rotation_roundtrip cases per child interpreter started with '
              'JAX_THREEFRY_PARTITIONABLE=0 (draws of different lengths from one key '
              'share no prefix there): every clause of rotation_roundtrip'),
    Check(name='rotation_pytree_across_processes', run=run_pytree_across_processes,
          strategy=across_strategy, labels=across_labels, nontrivial=rotation_nontrivial,
          budget={'quick': 32, 'thorough': 480}, time_share=0.8,
          doc='six trees per case: rotated values and recorded shapes are bit-identical '
              'between this process and a fresh interpreter with another PYTHONHASHSEED'),
    Check(name='rotation_pytree', run=with_key_kind(run_pytree), strategy=pytree_strategy,
          labels=pytree_labels, nontrivial=rotation_nontrivial,
          budget={'quick': 600, 'thorough': 12000}, time_share=1.5,
          doc='structured_rotation_pytree / inverse_structured_rotation_pytree: tree structure '
              'of rotated values and of recorded shapes, every leaf clause of '
              'rotation_roundtrip, restored tree, different keys differ leaf-wise'),
]
