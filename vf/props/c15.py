"""C15 -- Centralised streams over many clients neither lose nor duplicate.

Observed functions: fedjax.padded_batch_client_datasets,
padded_batch_federated_data, buffered_shuffle,
buffered_shuffle_batch_client_datasets, shuffle_repeat_batch_federated_data,
RepeatableIterator.

Every example row carries a unique global id (1..total, never 0, so a real row
is always distinguishable from zero padding); all other feature values are a
pure function of the id.  The oracles are numpy/pure-python models: the
concatenation in client and example order, multiset equality for shuffles, a
position-pointer model for the repeatable iterator.
"""
import collections
import hashlib
import itertools

import numpy as np
from hypothesis import strategies as st

import fedjax
from fedjax.core import client_datasets as cds

from vf.core import Check, require

PROPERTY_ID = 'C15'
NEEDS_TF = False
FUZZ_CHECKS = ['padded_client_datasets', 'mismatch_rejected', 'repeatable_iterator']
FUZZ_INSTRUMENT = ['fedjax.core.client_datasets', 'fedjax.core.federated_data']
FUZZ_RUNS = {'quick': 3000, 'thorough': 300000}
LEVEL = 'exploration'
RULE = (
    'Hypothesis draws a batch size B in 1..9 (thorough 1..16), 0-8 clients whose '
    'sizes are chosen *relative to the rows carried over so far* (empty / fits '
    'under B / exactly fills / one over / fills and adds whole batches / '
    'multiples of B / free 0..3B+2), 1-4 buckets, 0-2 extra features of mixed '
    'dtype and trailing shape, a shared chain of 0-2 per-example batch '
    'preprocessors, the iterable kind (list/tuple/generator/iterator) and the '
    'call form (kwargs / hparams); for the federated variants the clients are '
    'inserted into InMemoryFederatedData in a generated permutation. Shuffle '
    'cases add buffer sizes 1..len+3 and three distinct RandomState seeds that '
    'are fields of the case; shuffled_clients cases draw an implementation '
    '(in-memory, SQLite, each also wrapped in SubsetFederatedData from an id list '
    'with repeats or sliced), 1-16 clients, a buffer shorter than / equal to / '
    'longer than the view, 1-3 passes and two seeds; mismatch cases put a foreign preprocessor object or '
    'feature set at a generated position >=1; RepeatableIterator cases draw a '
    'base kind (list/tuple/dict/str/bytes/range/generator/iterator/map, empty '
    'included) and 1-8 read operations (take j items / read to the end). '
    'Non-trivial: padded streams -- the size sequence exercises >=2 of the four '
    'carry-over paths (fits in buffer / exactly fills a batch / one client '
    'spans several batches / exact batch left at the end), computed by a model '
    'that does not call fedjax; shuffles -- >=2 items and buffer >=2; mismatch -- '
    'always; repeatable iterator -- >=1 item and >=2 completed passes. '
    'distinct = distinct canonical case JSON.')
RULE += (
    ' '
    'Later widenings: clients listing one feature set in different key orders; byte-string fe'
    'atures whose width differs between clients (content compared as bytes); interleaved seed'
    'ed streams of one dataset object; half of the client-dataset streams are built from slic'
    'es of longer datasets in use.')
RULE += (
    ' '
    'Also: client ids ending in a NUL byte.')
ASSUMPTIONS = [
    'batch preprocessors are deterministic and strictly per-example, and all '
    'clients of one stream share dtype and trailing shape per feature '
    '(BatchPreprocessor / concat_examples preconditions); for byte-string '
    'features the dtype KIND is shared and the width may differ per client',
    'after trailing empty clients behind an exact batch boundary (or for a '
    'stream of empty clients only) the code emits one extra final batch without '
    'real rows; nothing is lost or duplicated, so a final all-padding batch of '
    'any bucket size is accepted (label trailing_all_padding); a non-final '
    'batch must always be completely real',
    'batching functions are called with kwargs only or an hparams object only '
    '(hparams + kwargs needs dataclass.replace, unrelated to C15)',
    'buffer sizes start at 1 (buffer 0 is not a buffered shuffle)',
    '"non-trivial order" is decided as: for >=12 distinct items and buffer >=2 '
    'at least one of the 3 seeds of the case gives an order different from the '
    'input order. For the code as written the identity is impossible when the '
    'stream is longer than the buffer (the last buffer slot is only emitted at '
    'the end) and has probability 1/n! <= 2.1e-9 per seed otherwise; for an '
    'idealised uniform buffered shuffle it is <= (2^-11)^3 per case',
    'shuffle_repeat_batch_federated_data is an infinite stream whose example '
    'buffer mixes consecutive passes, so "once per pass" is decided as the '
    'conservation law it implies: client-level passes are exact permutations, '
    'an item emitted at index t was among the first t+b stream items (b = '
    'example buffer), hence among the first q*n-b emitted rows (n = total '
    'examples) no example occurs more than q times, and among any first m rows '
    'no example occurs more than ceil((m+b)/n) times with at most (m+b) mod n '
    'examples reaching that maximum; this also bounds the loss by b rows',
    'shuffle_repeat_batch_federated_data needs >=1 example in the federated '
    'data (with none the documented "infinite stream of batches" cannot exist '
    'and the call never returns); such inputs are not generated',
    'for the two-level stream the order claim is only made where a trivial '
    'order is impossible/negligible for structural reasons: example buffer >=2, '
    'n >= max(12, buffer) and either the client order is deterministic (client '
    'buffer 1 or <=1 non-empty client) or every non-empty client has >= '
    '2*buffer-1 examples',
    'a mismatching dataset counts as rejected when consuming the stream raises '
    'ValueError and no row of the mismatching (or any later) dataset was '
    'emitted before the error',
    'a RepeatableIterator pass ends when __next__ raises StopIteration (as '
    'documented); reading exactly the remaining items does not end the pass',
    'all reads from possibly-broken iterators are bounded with itertools.islice '
    'so that a mutant that never terminates is reported instead of hanging',
]

MASK = fedjax.EXAMPLE_MASK_KEY

DTYPES = ['int8', 'int32', 'int64', 'float32', 'float64', 'bool', 'bytes']
TRAILS = [[], [2], [2, 3], [0]]
PREPS = ['derive', 'cast', 'drop', 'scale']
ITER_KINDS = ['list', 'tuple', 'generator', 'iterator']


# ------------------------------------------------------------------ data model

def make_feature(ids, dtype, trail, salt):
  """Feature rows as a pure function of the (1-based, unique) example ids."""
  n = len(ids)
  shape = (n,) + tuple(trail)
  size = int(np.prod(trail)) if trail else 1
  base = np.asarray(ids, dtype=np.int64).reshape((n,) + (1,) * len(trail))
  if dtype == 'bytes':
    # fixed-width byte strings whose width follows the values: clients holding
    # ids of different magnitudes hold the feature as S2, S3, S4, ...
    tok = np.asarray([b'r%d' % (int(i) + salt) for i in np.asarray(ids).reshape(-1)] or [b''])[:n]
    return np.broadcast_to(tok.reshape((n,) + (1,) * len(trail)), shape).copy()
  if dtype == 'bool':
    return np.broadcast_to((base + salt) % 2 == 0, shape).copy()
  if dtype == 'int8':
    return np.broadcast_to(base % 100 + 1 + salt, shape).astype(np.int8)
  offs = np.arange(size).reshape((1,) + tuple(trail)) if trail else 0
  return (np.broadcast_to(base, shape) * 4 + offs % 4 + salt).astype(dtype)


def make_examples(ids, features):
  ids = np.asarray(ids, dtype=np.int64)
  out = {'id': ids.copy()}
  for j, f in enumerate(features):
    out[f'f{j}'] = make_feature(ids, f['dtype'], f['trail'], j)
  return out


def prep_fn(name):
  if name == 'derive':
    return lambda x: {**x, 'derived': x['id'] * 3 + 1}
  if name == 'cast':
    return lambda x: {**x, 'id_f': x['id'].astype(np.float32)}
  if name == 'drop':
    return lambda x: {k: v for k, v in x.items() if k != 'f1'}
  if name == 'scale':
    def scale(x):
      out = dict(x)
      if 'f0' in out and out['f0'].dtype.kind in 'if':
        out['f0'] = out['f0'] * 2
      return out
    return scale
  raise ValueError(name)


def apply_preps(preps, examples):
  out = dict(examples)
  for p in preps:
    out = prep_fn(p)(out)
  return out


def build_prep(case):
  """The shared BatchPreprocessor object (or None = library default)."""
  if not case['preps'] and not case.get('explicit_prep', False):
    return None
  return cds.BatchPreprocessor([prep_fn(p) for p in case['preps']])


def client_ids(sizes):
  """Global example ids of every client, in stream order."""
  out, start = [], 1
  for s in sizes:
    out.append(np.arange(start, start + s, dtype=np.int64))
    start += s
  return out


def build_datasets(case, prep):
  raws = [make_examples(ids, case['features']) for ids in client_ids(case['sizes'])]
  if case.get('key_orders'):
    # the same feature SET, listed in another order by some clients (dicts built
    # by different code paths): features are matched by name, never by position
    for j, r in enumerate(raws):
      rot = case['key_orders'][j % len(case['key_orders'])] % max(1, len(r))
      keys = list(r)
      raws[j] = {k: r[k] for k in keys[rot:] + keys[:rot]}
  mk = (lambda r: fedjax.ClientDataset(r)) if prep is None else (
      lambda r: fedjax.ClientDataset(r, prep))
  if case.get('sliced'):
    # Every client dataset is a slice ds[a:a+n] of a longer dataset that was in
    # use before (its length taken): a client's train / held-out part, the
    # first n examples of a client.  The rows outside the slice are not its.
    lead, trail = case['sliced'] % 3, 1 + case['sliced'] % 2
    parents, dss = [], []
    for r in raws:
      n = len(r['id'])
      junk = make_examples(np.arange(900001, 900001 + lead + trail), case['features'])
      parent = {k: np.concatenate([junk[k][:lead], r[k], junk[k][lead:]]) for k in r}
      pds = mk(parent)
      len(pds)
      parents.append(parent)
      dss.append(pds[lead:lead + n])
    return parents, dss
  return raws, [mk(r) for r in raws]


def as_iterable(items, kind):
  if kind == 'list':
    return list(items)
  if kind == 'tuple':
    return tuple(items)
  if kind == 'generator':
    return (x for x in items)
  if kind == 'iterator':
    return iter(list(items))
  raise ValueError(kind)


def build_federated(case):
  """InMemoryFederatedData whose sorted-id order is the order of case['sizes']."""
  raws = [make_examples(ids, case['features']) for ids in client_ids(case['sizes'])]
  mapping = {}
  for j in case['insert_order']:
    # (every other id ends in a NUL byte: a client id is arbitrary bytes)
    mapping[b'c%03d' % j + (b'\x00' if j % 2 else b'')] = raws[j]
  if case.get('prep_via', 'ctor') == 'ctor':
    if not case['preps'] and not case.get('explicit_prep', False):
      fd = fedjax.InMemoryFederatedData(mapping)
    else:
      fd = fedjax.InMemoryFederatedData(
          mapping,
          preprocess_batch=cds.BatchPreprocessor([prep_fn(p) for p in case['preps']]))
  else:
    fd = fedjax.InMemoryFederatedData(mapping)
    for p in case['preps']:
      fd = fd.preprocess_batch(prep_fn(p))
  return raws, fd


def raws_digest(raws):
  h = hashlib.sha1()
  for raw in raws:
    for k in sorted(raw):
      v = raw[k]
      h.update(k.encode() + str(v.dtype).encode() + str(v.shape).encode())
      h.update(np.ascontiguousarray(v).tobytes())
  return h.hexdigest()


def same_array(a, b):
  a, b = np.asarray(a), np.asarray(b)
  if a.dtype.kind == 'S' and b.dtype.kind == 'S':
    # byte strings: the width is whatever the pieces at hand needed
    return a.shape == b.shape and a.tolist() == b.tolist()
  if a.dtype != b.dtype or a.shape != b.shape:
    return False
  return bool(np.array_equal(a, b))


def same_dtype(a, b):
  return a == b or (a.kind == 'S' and b.kind == 'S')


def ref_final_size(r, b, k):
  """min{ floor(B/2^j) : 0<=j<K, floor(B/2^j) >= r } computed independently."""
  cands = [b >> j for j in range(k) if (b >> j) >= r]
  return min(cands)


def bucket_sizes(b, k):
  return sorted({b >> j for j in range(k)})


# ------------------------------------------------------- padded stream oracle

def check_padded_stream(case, batches, total):
  """Both directions: every real row is the next reference row; every reference
  row is emitted (row count).  Returns the extra labels observed."""
  b, k = case['batch_size'], case['buckets']
  ref = apply_preps(case['preps'],
                    make_examples(np.arange(1, total + 1), case['features']))
  feats = set(ref)
  extra = []
  pos = 0
  nb = len(batches)
  for bi, batch in enumerate(batches):
    keys = set(batch)
    require(MASK in keys, 'padded:mask_missing', f'batch {bi}')
    mask = np.asarray(batch[MASK])
    require(mask.dtype == np.bool_ and mask.ndim == 1, 'padded:mask_type',
            f'{mask.dtype} {mask.shape}')
    size = mask.shape[0]
    real = int(mask.sum())
    require(bool(np.array_equal(mask, np.arange(size) < real)),
            'padded:mask_not_prefix', f'batch {bi} mask {mask.tolist()}')
    require(keys - {MASK} == feats, 'padded:features_differ',
            f'{sorted(keys)} vs {sorted(feats)}')
    if bi < nb - 1:
      require(real == b and size == b, 'padded:non_final_batch_not_full',
              f'batch {bi} of {nb}: size {size}, real {real}, batch_size {b}')
    elif real == 0:
      require(size in bucket_sizes(b, k), 'padded:final_batch_size',
              f'all-padding final batch of size {size}, B={b} K={k}')
      extra.append('trailing_all_padding')
    else:
      require(real <= b, 'padded:final_batch_too_many_rows', f'{real} > {b}')
      want = ref_final_size(real, b, k)
      require(size == want, 'padded:final_batch_size',
              f'real={real} B={b} K={k}: {size} vs {want}')
    require(pos + real <= total, 'padded:rows_invented_or_duplicated',
            f'batch {bi}: {pos}+{real} real rows, stream has {total}')
    for f in feats:
      v = np.asarray(batch[f])
      require(v.shape[0] == size, 'padded:inconsistent_rows',
              f'{f}: {v.shape} vs {size}')
      require(same_dtype(v.dtype, ref[f].dtype) and v.shape[1:] == ref[f].shape[1:],
              'padded:dtype_or_trailing_shape_changed',
              f'{f}: {v.dtype}{v.shape} vs {ref[f].dtype}{ref[f].shape}')
      want_rows = ref[f][pos:pos + real]
      require(same_array(v[:real], want_rows), 'padded:rows_differ',
              lambda: f'batch {bi} feature {f}: got {v[:real].tolist()} '
                      f'want {want_rows.tolist()}')
      if size > real:
        pad = v[real:]
        require(same_array(pad, np.zeros(pad.shape, pad.dtype)),
                'padded:padding_not_zero',
                lambda: f'batch {bi} feature {f}: {pad.tolist()}')
    pos += real
  require(pos == total, 'padded:rows_lost',
          f'{pos} real rows emitted, stream has {total}')
  return extra


def run_padded_cds(case):
  b, k = case['batch_size'], case['buckets']
  total = sum(case['sizes'])
  prep = build_prep(case)
  raws, dss = build_datasets(case, prep)
  before = raws_digest(raws)
  stream = as_iterable(dss, case['kind'])
  if case['call'] == 'kwargs':
    it = fedjax.padded_batch_client_datasets(
        stream, batch_size=b, num_batch_size_buckets=k)
  elif case['call'] == 'override':
    # documented form: hparams object overridden by keyword arguments
    it = fedjax.padded_batch_client_datasets(
        stream, fedjax.PaddedBatchHParams(batch_size=b + 3, num_batch_size_buckets=k + 1),
        batch_size=b, num_batch_size_buckets=k)
  else:
    it = fedjax.padded_batch_client_datasets(
        stream, fedjax.PaddedBatchHParams(batch_size=b, num_batch_size_buckets=k))
  batches = list(itertools.islice(it, total // b + 4))
  extra = check_padded_stream(case, batches, total)
  require(raws_digest(raws) == before, 'inputs_mutated')
  return extra


def run_padded_fd(case):
  b, k = case['batch_size'], case['buckets']
  total = sum(case['sizes'])
  raws, fd = build_federated(case)
  before = raws_digest(raws)
  if case['call'] == 'kwargs':
    it = fedjax.padded_batch_federated_data(
        fd, batch_size=b, num_batch_size_buckets=k)
  elif case['call'] == 'override':
    it = fedjax.padded_batch_federated_data(
        fd, fedjax.PaddedBatchHParams(batch_size=b + 3, num_batch_size_buckets=k + 1),
        batch_size=b, num_batch_size_buckets=k)
  else:
    it = fedjax.padded_batch_federated_data(
        fd, fedjax.PaddedBatchHParams(batch_size=b, num_batch_size_buckets=k))
  batches = list(itertools.islice(it, total // b + 4))
  extra = check_padded_stream(case, batches, total)
  # A second call on the same federated data gives the same stream.
  if case['call'] == 'kwargs':
    it2 = fedjax.padded_batch_federated_data(
        fd, batch_size=b, num_batch_size_buckets=k)
  else:
    it2 = fedjax.padded_batch_federated_data(
        fd, fedjax.PaddedBatchHParams(batch_size=b, num_batch_size_buckets=k))
  again = list(itertools.islice(it2, total // b + 4))
  require(len(again) == len(batches) and all(
      set(x) == set(y) and all(same_array(x[f], y[f]) for f in x)
      for x, y in zip(batches, again)), 'padded:second_call_differs')
  require(raws_digest(raws) == before, 'inputs_mutated')
  return extra


# ------------------------------------------------------------ mismatch oracle

def run_mismatch(case):
  """A foreign preprocessor object / feature set at position >=1 -> ValueError,
  and nothing of the foreign (or a later) dataset is emitted before it."""
  b = case['batch_size']
  sizes = case['sizes']
  pos = case['foreign_pos']
  kind = case['foreign']
  fns = [prep_fn(p) for p in case['preps']]
  shared = cds.BatchPreprocessor(fns)
  ids = client_ids(sizes)
  dss = []
  for j, cid in enumerate(ids):
    raw = make_examples(cid, case['features'])
    prep = shared
    if j == pos:
      if kind == 'prep_new_object':
        prep = cds.BatchPreprocessor(fns)
      elif kind == 'prep_default':
        prep = None
      elif kind == 'feature_extra':
        raw['zz'] = np.zeros((len(cid),), np.int32)
      elif kind == 'feature_missing':
        del raw['f0']
      elif kind == 'feature_renamed':
        raw['g0'] = raw.pop('f0')
      else:
        raise ValueError(kind)
    dss.append(fedjax.ClientDataset(raw) if prep is None
               else fedjax.ClientDataset(raw, prep))
  first_foreign_id = int(ids[pos][0]) if sizes[pos] else None
  later = [int(x) for cid in ids[pos:] for x in cid]
  total = sum(sizes)
  stream = as_iterable(dss, case['kind'])
  if case['fn'] == 'padded':
    it = fedjax.padded_batch_client_datasets(
        stream, batch_size=b, num_batch_size_buckets=case['buckets'])
  else:
    it = fedjax.buffered_shuffle_batch_client_datasets(
        stream, batch_size=b, buffer_size=case['buffer_size'],
        rng=np.random.RandomState(case['seed']))
  got = []
  raised = False
  try:
    for batch in itertools.islice(it, total // b + 4):
      got.append(batch)
  except ValueError:
    raised = True
  require(raised, f'mismatch:not_rejected:{case["fn"]}:{kind.split("_")[0]}',
          f'{kind} at position {pos} of sizes {sizes}: {len(got)} batches, no ValueError')
  later_set = set(later)
  for bi, batch in enumerate(got):
    idv = np.asarray(batch['id'])
    if MASK in batch:
      idv = idv[np.asarray(batch[MASK])]
    bad = [int(x) for x in idv.tolist() if int(x) in later_set]
    require(not bad, f'mismatch:foreign_rows_emitted:{case["fn"]}',
            f'{kind} at position {pos} (first id {first_foreign_id}): batch {bi} '
            f'holds ids {bad} before the ValueError')


# ------------------------------------------------------------ shuffle oracles

def make_items(case):
  n = case['n']
  if case['items'] == 'int':
    return list(range(n))
  if case['items'] == 'dup':
    return [i // 2 for i in range(n)]
  if case['items'] == 'pair':
    return [(b'c%03d' % i, {'size': i}) for i in range(n)]
  raise ValueError(case['items'])


def _key(item):
  return item[0] if isinstance(item, tuple) else item


def run_buffered_shuffle(case):
  items = make_items(case)
  n, buf = case['n'], case['buffer_size']
  outs = []
  for seed in case['seeds']:
    src = as_iterable(items, case['kind'])
    out = list(itertools.islice(
        cds.buffered_shuffle(src, buf, np.random.RandomState(seed)), n + 3))
    require(len(out) == n, 'shuffle:length_differs',
            f'{len(out)} (capped at n+3) vs {n}')
    require(collections.Counter(map(_key, out)) ==
            collections.Counter(map(_key, items)), 'shuffle:not_a_permutation',
            lambda: f'in {[_key(x) for x in items]} out {[_key(x) for x in out]}')
    if case['items'] == 'pair':
      require(all(any(o is i for i in items) for o in out),
              'shuffle:items_replaced')
    outs.append([_key(x) for x in out])
  src = as_iterable(items, case['kind'])
  again = [_key(x) for x in itertools.islice(
      cds.buffered_shuffle(src, buf, np.random.RandomState(case['seeds'][0])), n + 3)]
  require(again == outs[0], 'shuffle:not_reproducible',
          lambda: f'seed {case["seeds"][0]}: {outs[0]} then {again}')
  keys = [_key(x) for x in items]
  if order_claim_plain(case):
    require(any(o != keys for o in outs), 'shuffle:trivial_order',
            f'n={n} buffer={buf}: input order for all seeds {case["seeds"]}')


def order_claim_plain(case):
  return (case['n'] >= 12 and case['buffer_size'] >= 2 and
          case.get('items', 'int') != 'dup')


def rows_are_genuine(case, batch, clause_prefix):
  """Every row of an (unpadded) batch is the reference row of its id."""
  idv = np.asarray(batch['id'])
  ref = apply_preps(case['preps'], make_examples(idv, case['features']))
  require(set(batch) == set(ref), f'{clause_prefix}:features_differ',
          f'{sorted(batch)} vs {sorted(ref)}')
  for f in ref:
    v = np.asarray(batch[f])
    require(same_dtype(v.dtype, ref[f].dtype) and v.shape == ref[f].shape,
            f'{clause_prefix}:dtype_or_shape_changed',
            f'{f}: {v.dtype}{v.shape} vs {ref[f].dtype}{ref[f].shape}')
    require(same_array(v, ref[f]), f'{clause_prefix}:row_content_differs',
            lambda: f'{f}: ids {idv.tolist()} got {v.tolist()} want {ref[f].tolist()}')
  return idv.tolist()


def run_shuffle_batch(case):
  b, buf = case['batch_size'], case['buffer_size']
  total = sum(case['sizes'])
  prep = build_prep(case)
  raws, dss = build_datasets(case, prep)
  before = raws_digest(raws)
  want_batches = -(-total // b)

  def one(seed):
    it = fedjax.buffered_shuffle_batch_client_datasets(
        as_iterable(dss, case['kind']), batch_size=b, buffer_size=buf,
        rng=np.random.RandomState(seed))
    batches = list(itertools.islice(it, want_batches + 3))
    order = []
    for bi, batch in enumerate(batches):
      require(MASK not in batch, 'shuffle_batch:unexpected_mask')
      ids = rows_are_genuine(case, batch, 'shuffle_batch')
      if bi < len(batches) - 1:
        require(len(ids) == b, 'shuffle_batch:non_final_batch_not_full',
                f'batch {bi} of {len(batches)} has {len(ids)} rows, B={b}')
      else:
        require(1 <= len(ids) <= b, 'shuffle_batch:final_batch_rows',
                f'final batch has {len(ids)} rows, B={b}')
      order.extend(int(x) for x in ids)
    require(sorted(order) == list(range(1, total + 1)),
            'shuffle_batch:not_a_permutation',
            lambda: f'sizes {case["sizes"]}: emitted ids {order}')
    return order

  orders = [one(s) for s in case['seeds']]
  require(one(case['seeds'][0]) == orders[0], 'shuffle_batch:not_reproducible')
  if total >= 12 and buf >= 2:
    ident = list(range(1, total + 1))
    require(any(o != ident for o in orders), 'shuffle_batch:trivial_order',
            f'total={total} buffer={buf}: input order for all seeds')
  require(raws_digest(raws) == before, 'inputs_mutated')


def two_level_order_claim(case):
  sizes = [s for s in case['sizes'] if s]
  n, eb = sum(sizes), case['example_buffer']
  if eb < 2 or n < max(12, eb):
    return False
  deterministic = case['client_buffer'] == 1 or len(sizes) <= 1
  return deterministic or min(sizes) >= 2 * eb - 1


def run_shuffle_repeat_fd(case):
  b = case['batch_size']
  cb, eb = case['client_buffer'], case['example_buffer']
  n = sum(case['sizes'])
  assert n >= 1
  raws, fd = build_federated(case)
  before = raws_digest(raws)
  q = eb // n + case['passes']
  exact = q * n - eb          # >= 1: rows whose source is exactly q passes
  rows_needed = max(exact, n)
  nb = -(-rows_needed // b)

  def one(seed):
    it = fedjax.shuffle_repeat_batch_federated_data(
        fd, batch_size=b, client_buffer_size=cb, example_buffer_size=eb, seed=seed)
    batches = list(itertools.islice(it, nb))
    require(len(batches) == nb, 'repeat:stream_ended',
            f'{len(batches)} batches, asked for {nb}')
    order = []
    for bi, batch in enumerate(batches):
      require(MASK not in batch, 'repeat:unexpected_mask')
      ids = rows_are_genuine(case, batch, 'repeat')
      require(len(ids) == b, 'repeat:batch_not_full',
              f'batch {bi} has {len(ids)} rows, B={b}')
      order.extend(int(x) for x in ids)
    require(all(1 <= x <= n for x in order), 'repeat:unknown_row')
    # (1) the first q*n-b rows come from exactly q passes.
    cnt = collections.Counter(order[:exact])
    worst = max(cnt.values())
    require(worst <= q, 'repeat:duplicated_within_pass',
            lambda: f'n={n} B={b} cb={cb} eb={eb}: among the first {exact} rows '
                    f'id {max(cnt, key=cnt.get)} occurs {worst}x > {q}; {order[:exact]}')
    # (2) every prefix that ends on a batch: bounded by the passes consumed.
    for m in range(b, len(order) + 1, b):
      qq, rem = divmod(m + eb, n)
      c = collections.Counter(order[:m])
      top = max(c.values())
      require(top <= qq + (1 if rem else 0), 'repeat:duplicated_within_pass',
              lambda: f'n={n} eb={eb}: first {m} rows hold an id {top}x; {order[:m]}')
      if rem:
        require(sum(1 for v in c.values() if v == qq + 1) <= rem,
                'repeat:duplicated_within_pass',
                lambda: f'n={n} eb={eb}: first {m} rows: too many ids {qq + 1}x; {order[:m]}')
    return order

  orders = [one(s) for s in case['seeds']]
  require(one(case['seeds'][0]) == orders[0], 'repeat:not_reproducible',
          f'seed {case["seeds"][0]}')
  if two_level_order_claim(case):
    ident = list(range(1, n + 1))
    require(any(o[:n] != ident for o in orders), 'repeat:trivial_order',
            f'n={n} cb={cb} eb={eb}: first pass in input order for all seeds')
  require(raws_digest(raws) == before, 'inputs_mutated')


# ----------------------------------------------------- repeatable iterator

def rep_items(case):
  n, kind = case['n'], case['kind']
  if kind == 'str':
    return [chr(97 + i % 26) for i in range(n)]
  if kind == 'bytes':
    return [(i * 7 + 1) % 256 for i in range(n)]
  if kind == 'range':
    return list(range(n))
  if kind == 'dict':
    return [f'k{i}' for i in range(n)]
  return [(i, f'v{i % 3}') for i in range(n)]


def run_repeatable(case):
  items = rep_items(case)
  n, kind = case['n'], case['kind']
  pulls = [0]

  def gen():
    for x in items:
      pulls[0] += 1
      yield x

  if kind == 'list':
    base = list(items)
  elif kind == 'tuple':
    base = tuple(items)
  elif kind == 'str':
    base = ''.join(items)
  elif kind == 'bytes':
    base = bytes(items)
  elif kind == 'dict':
    base = {k: i for i, k in enumerate(items)}
  elif kind == 'range':
    base = range(n)
  elif kind == 'generator':
    base = gen()
  elif kind == 'iterator':
    base = iter(list(items))
  elif kind == 'map':
    base = map(lambda x: x, gen())
  elif kind == 'varying_iterable':
    # An iterable (not an iterator, not a builtin container) whose successive
    # iter() calls yield DIFFERENT items -- like an unseeded shuffled view or a
    # streaming reader.  "Replays exactly the items of its first pass" is only
    # observable on such a base.
    class Varying:
      def __init__(self):
        self.calls = 0
      def __iter__(self):
        self.calls += 1
        shift = self.calls - 1
        return iter(items if shift == 0 else [('again', shift, x) for x in items])
    base = Varying()
  else:
    raise ValueError(kind)
  it = fedjax.RepeatableIterator(base)
  require(iter(it) is it, 'repeatable:iter_not_self')
  pos = 0
  passes = 0
  for oi, op in enumerate(case['ops']):
    j = n + 3 if op < 0 else op
    got = list(itertools.islice(it, j))
    clause = ('repeatable:first_pass_differs' if passes == 0
              else 'repeatable:later_pass_differs')
    if j <= n - pos:
      want = items[pos:pos + j]
      pos += j
    else:
      want = items[pos:]
      pos = 0
      passes += 1
    require(got == want, clause,
            lambda: f'op {oi} ({op}) in pass {passes}: got {got} want {want}')
  if kind in ('generator', 'map'):
    require(pulls[0] <= n, 'repeatable:base_consumed_again',
            f'{pulls[0]} items pulled from a base of {n}')
    if passes >= 1:
      require(pulls[0] == n, 'repeatable:base_not_fully_consumed',
              f'{pulls[0]} of {n}')
  if kind in ('list', 'tuple', 'dict'):
    require(list(base) == items, 'repeatable:base_mutated')


# ----------------------------------------------------------------- strategies

def feature_lists(min_size=0):
  return st.lists(
      st.fixed_dictionaries({'dtype': st.sampled_from(DTYPES),
                             'trail': st.sampled_from(TRAILS)}),
      min_size=min_size, max_size=2)


@st.composite
def size_sequences(draw, b, max_clients, min_total=0):
  kinds = ['empty', 'under', 'fill', 'over1', 'fill_plus_full', 'multi', 'rand',
           'one']
  n = draw(st.integers(0, max_clients))
  sizes, c = [], 0
  for _ in range(n):
    kind = draw(st.sampled_from(kinds))
    if kind == 'empty':
      s = 0
    elif kind == 'under':
      s = draw(st.integers(0, max(0, b - c - 1)))
    elif kind == 'fill':
      s = b - c
    elif kind == 'over1':
      s = b - c + 1
    elif kind == 'fill_plus_full':
      s = b - c + b * draw(st.integers(1, 2))
    elif kind == 'multi':
      s = b * draw(st.integers(1, 3))
    elif kind == 'one':
      s = 1
    else:
      s = draw(st.integers(0, 3 * b + 2))
    sizes.append(s)
    c = (c + s) % b
  if sum(sizes) < min_total:
    sizes.append(min_total - sum(sizes))
  return sizes


def batch_sizes(tier):
  return st.integers(1, 9 if tier == 'quick' else 16)


seeds3 = st.lists(st.integers(0, 2**32 - 1), min_size=3, max_size=3, unique=True)


@st.composite
def padded_cases(draw, tier, federated):
  b = draw(batch_sizes(tier))
  sizes = draw(size_sequences(b, 8))
  case = {
      'batch_size': b,
      'buckets': draw(st.integers(1, 4)),
      'sizes': sizes,
      'features': draw(feature_lists()),
      'preps': draw(st.lists(st.sampled_from(PREPS), max_size=2)),
      'explicit_prep': draw(st.booleans()),
      'call': draw(st.sampled_from(['kwargs', 'hparams', 'override'])),
  }
  if federated:
    case['insert_order'] = draw(st.permutations(list(range(len(sizes)))))
    case['prep_via'] = draw(st.sampled_from(['ctor', 'chain']))
  else:
    case['kind'] = draw(st.sampled_from(ITER_KINDS))
    if draw(st.integers(0, 2)) == 0:
      case['key_orders'] = draw(st.lists(st.integers(0, 3), min_size=2, max_size=4))
    case['sliced'] = draw(st.sampled_from([0, 0, 0, 1, 2, 3, 4, 5]))
  return case


@st.composite
def mismatch_cases(draw, tier):
  b = draw(batch_sizes(tier))
  sizes = draw(size_sequences(b, 6))
  while len(sizes) < 2:
    sizes.append(draw(st.integers(0, 2 * b)))
  pos = draw(st.integers(1, len(sizes) - 1))
  # the foreign client itself: empty, tiny, a batch, several batches
  sizes[pos] = draw(st.sampled_from([0, 1, b, b + 1, 2 * b + 1]) |
                    st.integers(0, 3 * b))
  fn = draw(st.sampled_from(['padded', 'shuffled']))
  case = {
      'fn': fn,
      'batch_size': b,
      'buckets': draw(st.integers(1, 4)),
      'sizes': sizes,
      'foreign_pos': pos,
      'foreign': draw(st.sampled_from(
          ['prep_new_object', 'prep_default', 'feature_extra', 'feature_missing',
           'feature_renamed'])),
      'features': draw(feature_lists(min_size=1)),
      'preps': draw(st.lists(st.sampled_from(['derive', 'cast', 'scale']), max_size=2)),
      'kind': draw(st.sampled_from(ITER_KINDS)),
  }
  if fn == 'shuffled':
    case['buffer_size'] = draw(st.integers(1, sum(sizes) + 3))
    case['seed'] = draw(st.integers(0, 2**32 - 1))
  return case


@st.composite
def shuffle_cases(draw, tier):
  nmax = 40 if tier == 'quick' else 120
  n = draw(st.one_of(st.integers(0, nmax), st.integers(12, nmax),
                     st.integers(2, 20), st.sampled_from([0, 1, 2, 11, 12, 13])))
  buf = draw(st.one_of(
      st.integers(1, n + 3), st.integers(2, n + 3), st.integers(2, max(2, n // 2)),
      st.sampled_from([1, 2, 3, max(1, n - 1), max(1, n), n + 1])))
  return {
      'n': n,
      'buffer_size': buf,
      'seeds': draw(seeds3),
      'kind': draw(st.sampled_from(ITER_KINDS)),
      'items': draw(st.sampled_from(['int', 'int', 'pair', 'dup'])),
  }


@st.composite
def shuffle_batch_cases(draw, tier):
  b = draw(batch_sizes(tier))
  sizes = draw(size_sequences(b, 6, min_total=draw(st.sampled_from([0, 1, 12, 12]))))
  total = sum(sizes)
  buf = draw(st.one_of(
      st.integers(1, total + 3), st.integers(2, total + 3),
      st.integers(2, max(2, total // 2)),
      st.sampled_from([1, 2, max(1, total - 1), max(1, total), total + 1])))
  return {
      'batch_size': b,
      'buffer_size': buf,
      'sizes': sizes,
      'seeds': draw(seeds3),
      'features': draw(feature_lists()),
      'preps': draw(st.lists(st.sampled_from(PREPS), max_size=2)),
      'explicit_prep': draw(st.booleans()),
      'kind': draw(st.sampled_from(ITER_KINDS)),
      'key_orders': (draw(st.lists(st.integers(0, 3), min_size=2, max_size=4))
                     if draw(st.integers(0, 2)) == 0 else None),
      'sliced': draw(st.sampled_from([0, 0, 0, 1, 2, 3, 4, 5])),
  }


@st.composite
def shuffle_repeat_cases(draw, tier):
  b = draw(batch_sizes(tier))
  shape = draw(st.sampled_from(['free', 'free', 'big_clients', 'single']))
  eb_small = draw(st.integers(2, 3))
  if shape == 'big_clients':
    k = draw(st.integers(2, 5))
    sizes = [draw(st.integers(2 * eb_small - 1, 2 * eb_small + 4)) for _ in range(k)]
    pos = draw(st.integers(0, k))
    if draw(st.booleans()):
      sizes.insert(pos, 0)
    if sum(sizes) < 12:
      sizes.append(12 - sum(sizes) + 2 * eb_small)
  elif shape == 'single':
    sizes = [0] * draw(st.integers(0, 2)) + [draw(st.integers(1, 30))] + \
        [0] * draw(st.integers(0, 2))
  else:
    sizes = draw(size_sequences(b, 6, min_total=1))
  n = sum(sizes)
  if shape == 'big_clients':
    eb = eb_small
  else:
    eb = draw(st.one_of(st.integers(1, n + 3), st.integers(2, n + 3),
                        st.integers(2, max(2, n // 2)),
                        st.sampled_from([1, 2, 3, n, n + 1])))
  cb = draw(st.one_of(st.integers(1, len(sizes) + 2), st.integers(2, len(sizes) + 2),
                      st.sampled_from([1, 2, len(sizes)])))
  return {
      'batch_size': b,
      'client_buffer': cb,
      'example_buffer': eb,
      'passes': draw(st.integers(1, 2)),
      'sizes': sizes,
      'insert_order': draw(st.permutations(list(range(len(sizes))))),
      'seeds': draw(seeds3),
      'features': draw(feature_lists()),
      'preps': draw(st.lists(st.sampled_from(PREPS), max_size=2)),
      'explicit_prep': draw(st.booleans()),
      'prep_via': draw(st.sampled_from(['ctor', 'chain'])),
  }


REP_KINDS = ['list', 'tuple', 'str', 'bytes', 'dict', 'range', 'generator',
             'iterator', 'map', 'varying_iterable', 'varying_iterable']


@st.composite
def repeatable_cases(draw, tier):
  n = draw(st.integers(0, 12) | st.sampled_from([0, 1, 2]))
  op = st.one_of(st.just(-1), st.just(-1), st.integers(0, n + 2),
                 st.sampled_from([0, 1, max(0, n - 1), n, n + 1]))
  return {
      'kind': draw(st.sampled_from(REP_KINDS)),
      'n': n,
      'ops': draw(st.lists(op, min_size=1, max_size=8)),
  }


# --------------------------------------------------------------------- labels

def carry_paths(sizes, b):
  """Which carry-over paths a size sequence exercises (pure model)."""
  paths = set()
  c = 0
  for s in sizes:
    if s == 0:
      paths.add('empty_client')
      continue
    t = c + s
    if t < b:
      paths.add('path:fits_in_buffer')
      c = t
      continue
    if c and t >= b:
      paths.add('completes_carry')
    if t // b >= 2:
      paths.add('path:spans_several')
    if t % b == 0:
      paths.add('path:exactly_fills')
    else:
      paths.add('tail_buffered')
    c = t % b
  total = sum(sizes)
  if total and total % b == 0:
    paths.add('path:exact_batch_at_end')
  if sizes and sizes[-1] == 0:
    paths.add('trailing_empty_client')
  if sizes and total == 0:
    paths.add('only_empty_clients')
  if not sizes:
    paths.add('no_clients')
  return paths


def padded_labels(case):
  ls = sorted(carry_paths(case['sizes'], case['batch_size']))
  ls.append('clients=%d' % min(len(case['sizes']), 4) +
            ('+' if len(case['sizes']) >= 4 else ''))
  if case['buckets'] > 1:
    ls.append('buckets>1')
  if case['preps']:
    ls.append('preprocessed')
  ls.append('call:' + case['call'])
  if 'kind' in case:
    ls.append('iterable:' + case['kind'])
  if any(f['trail'] == [0] for f in case['features']):
    ls.append('zero_width_feature')
  return ls


def padded_nontrivial(case, ls):
  return sum(1 for l in ls if l.startswith('path:')) >= 2


def mismatch_labels(case):
  fs = case['sizes'][case['foreign_pos']]
  b = case['batch_size']
  return ['fn:' + case['fn'], 'foreign:' + case['foreign'],
          'foreign_size:' + ('0' if fs == 0 else '<B' if fs < b else '=B' if fs == b else '>B'),
          'foreign_last' if case['foreign_pos'] == len(case['sizes']) - 1 else 'foreign_inner',
          'iterable:' + case['kind']]


def buffer_class(buf, n):
  if buf == 1:
    return 'buffer=1'
  if buf < n:
    return 'buffer<len'
  if buf == n:
    return 'buffer=len'
  return 'buffer>len'


def shuffle_labels(case):
  n = case['n']
  ls = [buffer_class(case['buffer_size'], n), 'iterable:' + case['kind'],
        'items:' + case['items'],
        'len:' + ('0' if n == 0 else '1' if n == 1 else '<12' if n < 12 else '>=12')]
  if order_claim_plain(case):
    ls.append('order_claim')
  return ls


def shuffle_batch_labels(case):
  total = sum(case['sizes'])
  b = case['batch_size']
  ls = [buffer_class(case['buffer_size'], total), 'iterable:' + case['kind'],
        'total:' + ('0' if total == 0 else '<12' if total < 12 else '>=12'),
        'B|total' if total and total % b == 0 else 'B∤total']
  if 0 in case['sizes']:
    ls.append('empty_client')
  if case['preps']:
    ls.append('preprocessed')
  if total >= 12 and case['buffer_size'] >= 2:
    ls.append('order_claim')
  return ls


def shuffle_repeat_labels(case):
  n = sum(case['sizes'])
  nonempty = sum(1 for s in case['sizes'] if s)
  ls = ['example_' + buffer_class(case['example_buffer'], n),
        'client_' + buffer_class(case['client_buffer'], len(case['sizes'])),
        'passes=%d' % case['passes'],
        'nonempty_clients:' + ('1' if nonempty == 1 else '2+')]
  if 0 in case['sizes']:
    ls.append('empty_client')
  if two_level_order_claim(case):
    ls.append('order_claim')
  return ls


def repeatable_passes(case):
  n, pos, passes = case['n'], 0, 0
  for op in case['ops']:
    j = n + 3 if op < 0 else op
    if j <= n - pos:
      pos += j
    else:
      pos, passes = 0, passes + 1
  return passes


def repeatable_labels(case):
  p = repeatable_passes(case)
  ls = ['base:' + case['kind'], 'passes:' + (str(p) if p < 4 else '4+'),
        'empty_base' if case['n'] == 0 else 'nonempty_base']
  if any(0 <= op for op in case['ops']):
    ls.append('chunked_reads')
  return ls


# ------------------------------------------ FederatedData.shuffled_clients

def build_shuffled_fd(case):
  """(FederatedData, [client ids in the view], {id: size}, cleanup)."""
  import os, shutil, tempfile
  sizes = case['sizes']
  ids = [b'c%03d' % j + (b'\x00' if j % 2 else b'') for j in range(len(sizes))]
  mapping = {i: {'id': np.arange(j * 100 + 1, j * 100 + 1 + sz, dtype=np.int32)}
             for j, (i, sz) in enumerate(zip(ids, sizes))}
  impl = case['impl']
  cleanup = lambda: None
  if impl.startswith('sqlite'):
    d = tempfile.mkdtemp(prefix='C15-', dir='/var/tmp')
    path = os.path.join(d, 'fd.sqlite')
    with fedjax.SQLiteFederatedDataBuilder(path) as builder:
      builder.add_many(mapping.items())
    fd = fedjax.SQLiteFederatedData.new(path)

    def cleanup():  # pylint: disable=function-redefined
      try:
        fd._connection.close()  # pylint: disable=protected-access
      except Exception:  # pylint: disable=broad-except
        pass
      shutil.rmtree(d, ignore_errors=True)
  else:
    fd = fedjax.InMemoryFederatedData(mapping)
  view = list(ids)
  if impl.endswith('subset'):
    view = [ids[k] for k in sorted({k % len(ids) for k in case['keep']})] or list(ids)
    # (an Iterable of ids; every other one is named twice)
    fd = fedjax.SubsetFederatedData(fd, view[::-1] + view[::2])
  elif impl.endswith('slice'):
    lo = case['keep'][0] % len(ids)
    view = ids[lo:]
    fd = fd.slice(start=ids[lo])
  return fd, view, {i: len(mapping[i]['id']) for i in view}, cleanup


def run_shuffled_clients(case):
  """Client-level buffered shuffling as every FederatedData exposes it: the
  endless stream of shuffled_clients(buffer_size, seed), cut into consecutive
  passes of len(view) items, visits every client of the view exactly once per
  pass, with its own dataset, for every buffer size; a fixed seed reproduces the
  stream; for larger views the order is not the sorted one in every pass."""
  fd, view, size_of, cleanup = build_shuffled_fd(case)
  try:
    n, buf, passes = len(view), case['buffer_size'], case['passes']
    streams = []
    for seed in case['seeds'] + case['seeds'][:1]:
      got = list(itertools.islice(fd.shuffled_clients(buffer_size=buf, seed=seed),
                                  passes * n))
      require(len(got) == passes * n, 'shuffled_clients:stream_ended',
              f'{len(got)} items, asked for {passes * n}')
      order = []
      for cid, ds in got:
        require(cid in size_of, 'shuffled_clients:unknown_client', f'{cid!r}')
        require(len(ds) == size_of[cid] and
                np.array_equal(ds.all_examples()['id'][:1],
                               np.arange(int(cid[1:4]) * 100 + 1, int(cid[1:4]) * 100 + 2)[:size_of[cid]]),
                'shuffled_clients:wrong_dataset', f'{cid!r}: {len(ds)} examples')
        order.append(cid)
      for q in range(passes):
        block = order[q * n:(q + 1) * n]
        require(sorted(block) == sorted(view), 'shuffled_clients:pass_not_a_permutation',
                lambda: f'impl={case["impl"]} n={n} buffer={buf} seed={seed} pass {q}: '
                        f'{[c.decode() for c in block]}')
      streams.append(order)
    require(streams[-1] == streams[0], 'shuffled_clients:not_reproducible',
            f'seed {case["seeds"][0]}')
    # two seeded streams of the SAME dataset object pulled in turn (a training
    # stream next to an evaluation pass): each is still its own stream
    it_a = fd.shuffled_clients(buffer_size=buf, seed=case['seeds'][0])
    it_b = fd.shuffled_clients(buffer_size=buf, seed=case['seeds'][1])
    got_a, got_b = [], []
    for _ in range(passes * n):
      got_a.append(next(it_a)[0])
      got_b.append(next(it_b)[0])
    require(got_a == streams[0] and got_b == streams[1],
            'shuffled_clients:two_streams_of_one_dataset_disturb_each_other',
            lambda: f'impl={case["impl"]} n={n} buffer={buf}: interleaved '
                    f'{[c.decode() for c in got_a]} / {[c.decode() for c in got_b]} vs solo '
                    f'{[c.decode() for c in streams[0]]} / {[c.decode() for c in streams[1]]}')
    if n >= 12 and buf >= 2:
      blocks = [o[q * n:(q + 1) * n] for o in streams for q in range(passes)]
      require(any(b != sorted(view) for b in blocks), 'shuffled_clients:trivial_order',
              f'n={n} buffer={buf}: sorted order in every pass for seeds {case["seeds"]}')
  finally:
    cleanup()


@st.composite
def shuffled_clients_case(draw, tier):
  n = draw(st.sampled_from([1, 2, 3, 4, 5, 7, 12, 13, 16] if tier == 'quick'
                           else [1, 2, 3, 4, 5, 7, 9, 12, 13, 16, 24]))
  sizes = [draw(st.sampled_from([0, 1, 2, 3])) for _ in range(n)]
  impl = draw(st.sampled_from(['mem', 'mem_subset', 'mem_subset', 'mem_slice',
                               'sqlite', 'sqlite_subset', 'sqlite_slice']))
  keep = draw(st.lists(st.integers(0, 30), min_size=1, max_size=n + 2))
  nv = n
  if impl.endswith('subset'):
    nv = len({k % n for k in keep})
  elif impl.endswith('slice'):
    nv = n - keep[0] % n
  return {'impl': impl, 'sizes': sizes, 'keep': keep,
          'buffer_size': draw(st.one_of(st.integers(1, nv + 3),
                                        st.sampled_from([1, 2, max(1, nv - 1), nv, nv + 1, nv + 3]))),
          'passes': draw(st.sampled_from([1, 2, 2, 3])),
          'seeds': draw(st.lists(st.integers(0, 2 ** 31 - 1), min_size=2, max_size=2,
                                 unique=True))}


def shuffled_clients_view_size(case):
  n = len(case['sizes'])
  if case['impl'].endswith('subset'):
    return len({k % n for k in case['keep']})
  if case['impl'].endswith('slice'):
    return n - case['keep'][0] % n
  return n


def shuffled_clients_labels(case):
  nv = shuffled_clients_view_size(case)
  b = case['buffer_size']
  return ['impl:' + case['impl'], 'passes:%d' % case['passes'],
          'buffer<view' if b < nv else 'buffer=view' if b == nv else 'buffer>view',
          'view:1' if nv == 1 else 'view:2-7' if nv < 12 else 'view:12+']


CHECKS = [
    Check(name='padded_client_datasets', run=run_padded_cds,
          strategy=lambda tier: padded_cases(tier, federated=False),
          labels=padded_labels, nontrivial=padded_nontrivial,
          budget={'quick': 4500, 'thorough': 96000}, time_share=3.0,
          doc='padded_batch_client_datasets: unmasked rows == concatenation in '
              'client and example order; non-final batches full; final batch '
              'mask prefix + bucket rule; zero padding; inputs untouched'),
    Check(name='padded_federated_data', run=run_padded_fd,
          strategy=lambda tier: padded_cases(tier, federated=True),
          labels=padded_labels, nontrivial=padded_nontrivial,
          budget={'quick': 1800, 'thorough': 36000}, time_share=1.5,
          doc='padded_batch_federated_data over InMemoryFederatedData: same '
              'oracle in sorted-client-id order, same stream on a second call'),
    Check(name='mismatch_rejected', run=run_mismatch,
          strategy=mismatch_cases, labels=mismatch_labels,
          nontrivial=lambda case, ls: True,
          budget={'quick': 1800, 'thorough': 36000}, time_share=1.5,
          doc='foreign preprocessor object / feature set at a generated position '
              '-> ValueError, nothing of the foreign dataset emitted before it '
              '(padded_batch_client_datasets and buffered_shuffle_batch_client_datasets)'),
    Check(name='buffered_shuffle', run=run_buffered_shuffle,
          strategy=shuffle_cases, labels=shuffle_labels,
          nontrivial=lambda case, ls: case['n'] >= 2 and case['buffer_size'] >= 2,
          budget={'quick': 2000, 'thorough': 48000}, time_share=1.5,
          doc='buffered_shuffle: multiset-equal output for every buffer size and '
              'iterable kind, reproducible per seed, non-trivial order'),
    Check(name='shuffle_batch_client_datasets', run=run_shuffle_batch,
          strategy=shuffle_batch_cases, labels=shuffle_batch_labels,
          nontrivial=lambda case, ls: sum(case['sizes']) >= 2 and case['buffer_size'] >= 2,
          budget={'quick': 1400, 'thorough': 30000}, time_share=2.0,
          doc='buffered_shuffle_batch_client_datasets: every row exactly once, '
              'row contents intact, full batches except a non-empty last one, '
              'reproducible, non-trivial order'),
    Check(name='shuffle_repeat_federated_data', run=run_shuffle_repeat_fd,
          strategy=shuffle_repeat_cases, labels=shuffle_repeat_labels,
          nontrivial=lambda case, ls: sum(case['sizes']) >= 2 and case['example_buffer'] >= 2,
          budget={'quick': 900, 'thorough': 18000}, time_share=1.5,
          doc='shuffle_repeat_batch_federated_data: full batches of genuine '
              'rows, per-pass conservation law, reproducible, non-trivial order'),
    Check(name='shuffled_clients', run=run_shuffled_clients,
          strategy=shuffled_clients_case, labels=shuffled_clients_labels,
          nontrivial=lambda case, ls: shuffled_clients_view_size(case) >= 2 and case['passes'] >= 2,
          budget={'quick': 1200, 'thorough': 24000}, time_share=1.5,
          doc='FederatedData.shuffled_clients (in-memory, SQLite, subset wrapper, '
              'slices): every pass of the endless stream is a permutation of the '
              'view\'s clients with their own datasets for every buffer size '
              '(shorter than, equal to, longer than the view), reproducible per seed'),
    Check(name='repeatable_iterator', run=run_repeatable,
          strategy=repeatable_cases, labels=repeatable_labels,
          nontrivial=lambda case, ls: case['n'] >= 1 and repeatable_passes(case) >= 2,
          budget={'quick': 1600, 'thorough': 42000},
          doc='RepeatableIterator vs a position-pointer model over every base '
              'kind; generator bases are pulled exactly once'),
]
