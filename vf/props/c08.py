"""C08 -- All federated-dataset implementations expose the same mapping.

A case is a logical dataset {client id -> rows} plus a *history*: a list of
view operations (slice / subset / preprocess_client / preprocess_batch), each
naming the parent view it is applied to (views form a tree, index 0 = root).
`run_history` interprets the list in lock-step on

  mem      InMemoryFederatedData(mapping)
  sql      SQLiteFederatedData.new(file written by SQLiteFederatedDataBuilder)
  sub_mem  SubsetFederatedData(InMemoryFederatedData(mapping), all ids)
  sub_sql  SubsetFederatedData(SQLiteFederatedData(connection, parse), all ids)

and on a dict model, and observes *every live view after every step* through
every access path of the FederatedData interface.

`slice_ranges_exhaustive` enumerates all 5^4 (current_start, current_stop,
new_start, new_stop) combinations over {None, 4 ordered ids} for several id
families and compares `intersect_slice_ranges` -- and a nested `.slice().slice()`
on the four implementations -- with plain set intersection.
"""
import functools
import hashlib
import itertools
import math
import os
import shutil
import sqlite3
import tempfile

import numpy as np
from hypothesis import strategies as st

from fedjax.core import federated_data as fd_lib
from fedjax.core import in_memory_federated_data as mem_lib
from fedjax.core import serialization
from fedjax.core import sqlite_federated_data as sql_lib

from vf.core import Check, Violation, require

PROPERTY_ID = 'C08'
NEEDS_TF = False
LEVEL = 'exploration'
RULE = (
    'Model-based histories generated as data: Hypothesis draws a logical '
    'dataset (1-8 client ids over a tiny byte alphabet {00,01,61,80,ff} plus '
    'derived ids: id+00, id+byte, id[:-1], the empty id, and arbitrary bytes; '
    '0-5 rows per client; x:int32/int64 and optionally y:float32/float64 with '
    'unique row values; insertion order into SQLite = drawn order) and a list '
    'of 1-12 (quick) / 1-25 (thorough) view operations, each naming its '
    'parent view (tree of views, 0 = root, biased to the latest view) with '
    'arguments relative to the parent id list (slice bounds: None / k-th id / '
    'its immediate successor id+00 / a predecessor / raw bytes, so empty '
    'ranges and start > stop are frequent; subset: positions, possibly none; '
    'preprocess_client / preprocess_batch: non-commuting row-preserving tagged '
    'functions). The list is interpreted in lock-step on in-memory, SQLite, '
    'subset-over-in-memory, subset-over-SQLite and a dict model; every live '
    'view is observed after every step through num_clients, client_ids, '
    'client_sizes, client_size, clients, get_clients (repeats), get_client, '
    'two passes of shuffled_clients, and KeyError on outside ids. '
    'Non-trivial: some root-to-view chain holds >= 2 operations of different '
    'kinds, or some operation produces an empty view, or the id set contains '
    'an id with a trailing zero byte or two prefix-related ids; distinct = '
    'distinct canonical case JSON. intersect_slice_ranges: exhaustive 5^4 '
    'bounds x 4 id families (non-trivial: both ranges constrain something).')
RULE += (
    ' '
    'Later widenings: 2-d feature layouts C/F/transposed; SQLite views over a database in a c'
    'aller-defined blob encoding (parse_examples); the first use of a view is, for half of th'
    'e cases, an abandoned walk of each kind; parents dropped before the last observation; a '
    'check over 64-200 clients inserted out of id order; iteration orders compared with a chi'
    'ld interpreter under another PYTHONHASHSEED.')
RULE += (
    ' '
    'Also: walk orders are compared before and after the shuffled passes.')
ASSUMPTIONS = [
    'all generated preprocessors are deterministic, strictly per-example and '
    'row-preserving (BatchPreprocessor doc); under a row-count-changing client '
    'preprocessor "client size" is implementation-defined (in-memory counts '
    'preprocessed rows, SQLite returns the stored num_examples), so that class '
    'is outside the domain',
    'order of client_ids()/client_sizes()/clients() is only required to be '
    'deterministic per implementation (in-memory and subset iterate in sorted '
    'order, SQLite in insertion order); content is compared as sets/dicts and '
    'order only between repeated calls on the same view',
    'shuffled_clients is observed only on non-empty views (an infinite stream '
    'over nothing is undefined) and only for "each pass is a permutation of '
    'the view with correct datasets"; no shuffle order is asserted',
    'get_clients with an id outside the view must raise KeyError at some point '
    'of the iteration; whatever it yields before must be a correct prefix of '
    'the request',
    'examples are compared exactly (dtype, shape, bytes): all functions are '
    'elementwise numpy ops applied identically in the model, no tolerance',
    'TensorFlow import blocked (NEEDS_TF=False): only sqlite3+zlib+msgpack used',
    'SQLite files live in a per-case mkdtemp under /var/tmp, removed afterwards',
]

IMPLS = ('mem', 'sql', 'sub_mem', 'sub_sql')
TRACE_MOD = 1000003


# ------------------------------------------------------------------ helpers

def b2h(b):
  return bytes(b).hex()


def h2b(h):
  return bytes.fromhex(h)


def succ(b):
  """The immediate successor of b in bytes order."""
  return b + b'\x00'


def pred(b):
  """An id strictly below b (the immediate predecessor when one exists)."""
  if not b:
    return b
  if b[-1] == 0:
    return b[:-1]
  return b[:-1] + bytes([b[-1] - 1]) + b'\xff'


def id_code(client_id):
  return len(client_id) * 1009 + sum((i + 1) * c for i, c in enumerate(client_id))


def make_rows(case):
  """client id (bytes) -> {'x': ..., ['y': ...]}; row values are unique."""
  xdt, ydt = case['x_dtype'], case.get('y_dtype')
  out = {}
  for ci, c in enumerate(case['clients']):
    n = c['n']
    x = (np.arange(n, dtype=np.int64) + 1 + 16 * ci).astype(xdt)
    ex = {'x': x}
    if ydt:
      ex['y'] = ((np.arange(n, dtype=np.int64) + 1 + 16 * ci) / 4.0 +
                 0.125).astype(ydt)
    layout = case.get('m_layout')
    if layout:
      # a 2-d feature table in row-major, column-major (np.asfortranarray) or
      # transposed-view memory layout: the logical content is the same
      m = (np.arange(n * 3, dtype=np.int64).reshape((n, 3)) + 100 * ci).astype(np.float32)
      if layout == 'F':
        m = np.asfortranarray(m)
      elif layout == 'T':
        m = np.ascontiguousarray(m.T).T
      ex['m'] = m
    out[h2b(c['id'])] = ex
  return out


def _trace(ex, code):
  n = ex['x'].shape[0]
  tr = ex['tr'] if 'tr' in ex else np.zeros((n,), np.int64)
  return {**ex, 'tr': (tr * 16 + code) % TRACE_MOD}


def _apply_common(name, k, level_bit, ex):
  if name == 'double':
    return {**ex, 'x': ex['x'] * 2}
  if name == 'inc':
    return {**ex, 'x': ex['x'] + k}
  if name == 'mix':
    if 'y' in ex:
      return {**ex, 'y': ex['y'] + ex['x'].astype(ex['y'].dtype)}
    return {**ex, 'x': ex['x'] * 3 - k}
  if name == 'tag':
    return _trace(ex, level_bit + k)
  raise ValueError(name)


def client_fn(name, k):
  """Row-preserving client-level function (client_id, examples) -> examples."""
  if name == 'cid':
    def cid(client_id, ex):
      n = ex['x'].shape[0]
      old = ex['cid'] if 'cid' in ex else np.zeros((n,), np.int64)
      return {**ex, 'cid': old * 3 + id_code(client_id) + k}
    return cid
  return lambda client_id, ex: _apply_common(name, k, 0, ex)


def batch_fn(name, k):
  """Row-preserving batch-level function examples -> examples."""
  return lambda ex: _apply_common(name, k, 8, ex)


def same_examples(got, want):
  if set(got) != set(want):
    return False
  for f in want:
    a, b = np.asarray(got[f]), want[f]
    if a.dtype != b.dtype or a.shape != b.shape:
      return False
    if np.ascontiguousarray(a).tobytes() != np.ascontiguousarray(b).tobytes():
      return False
  return True


def show(ex):
  return {k: (str(np.asarray(v).dtype), np.asarray(v).tolist()) for k, v in ex.items()}


def rows_digest(rows):
  h = hashlib.sha1()
  for cid in sorted(rows):
    h.update(cid.hex().encode() + b'|')
    for f in rows[cid]:
      v = rows[cid][f]
      h.update(f.encode() + str(v.dtype).encode() + str(v.shape).encode() + v.tobytes())
  return h.hexdigest()


# -------------------------------------------------------------------- model

def resolve_bound(marker, parent_ids, root_ids):
  """Resolves a slice bound marker relative to the parent's id list."""
  kind = marker[0]
  if kind == 'none':
    return None
  if kind == 'raw':
    return h2b(marker[1])
  ref = parent_ids or root_ids
  cid = ref[marker[1] % len(ref)]
  if kind == 'at':
    return cid
  if kind == 'after':
    return succ(cid)
  if kind == 'before':
    return pred(cid)
  raise ValueError(kind)


def simulate(case):
  """The dict model: returns the list of views (index 0 = root).

  A view is {'ids': sorted list of bytes, 'cf': [(name,k)...], 'bf': [...],
  'kinds': op kinds on the chain from the root, 'parent': index, 'args': ...}.
  """
  root_ids = sorted(h2b(c['id']) for c in case['clients'])
  views = [{'ids': root_ids, 'cf': [], 'bf': [], 'kinds': [], 'parent': None,
            'args': None}]
  for op in case['ops']:
    pi = op['parent'] % len(views)
    p = views[pi]
    v = {'ids': p['ids'], 'cf': list(p['cf']), 'bf': list(p['bf']),
         'kinds': p['kinds'] + [op['op']], 'parent': pi, 'args': None}
    if op['op'] == 'slice':
      start = resolve_bound(op['start'], p['ids'], root_ids)
      stop = resolve_bound(op['stop'], p['ids'], root_ids)
      v['ids'] = [i for i in p['ids']
                  if (start is None or i >= start) and (stop is None or i < stop)]
      v['args'] = (start, stop)
    elif op['op'] == 'subset':
      if p['ids']:
        chosen = {p['ids'][k % len(p['ids'])] for k in op['pick']}
      else:
        chosen = set()
      v['ids'] = sorted(chosen)
      v['args'] = [p['ids'][k % len(p['ids'])] for k in op['pick']] if p['ids'] else []
    elif op['op'] == 'prep_client':
      v['cf'].append((op['fn'], op['k']))
    elif op['op'] == 'prep_batch':
      v['bf'].append((op['fn'], op['k']))
    else:
      raise ValueError(op['op'])
    views.append(v)
  return views


def expected_examples(rows, view, client_id):
  """Plain function application in registration order, client level first."""
  ex = dict(rows[client_id])
  for name, k in view['cf']:
    ex = client_fn(name, k)(client_id, ex)
  for name, k in view['bf']:
    ex = batch_fn(name, k)(ex)
  return ex


# -------------------------------------------------------------- observation

def check_dataset(ds, want, bsz, where, path):
  got = ds.all_examples()
  require(same_examples(got, want), f'{path}:examples_differ',
          lambda: f'{where}: got {show(got)} want {show(want)}')
  n = want['x'].shape[0]
  require(len(ds) == n, f'{path}:dataset_len', lambda: f'{where}: {len(ds)} vs {n}')
  batches = list(ds.batch(batch_size=bsz))
  require(len(batches) == -(-n // bsz), f'{path}:batch_count',
          lambda: f'{where}: {len(batches)} batches for {n} rows, batch_size {bsz}')
  if batches:
    keys = set(batches[0])
    require(all(set(b) == keys for b in batches), f'{path}:batch_features_vary', where)
    cat = {f: np.concatenate([np.asarray(b[f]) for b in batches], axis=0) for f in keys}
    require(same_examples(cat, want), f'{path}:batched_examples_differ',
            lambda: f'{where}: got {show(cat)} want {show(want)}')


def expect_key_error(fn, clause, where):
  try:
    fn()
  except KeyError:
    return
  raise Violation(clause, where)


def observe(name, view, mv, rows, case, universe, where):
  """Checks one implementation's view against the model view `mv`."""
  ids = mv['ids']
  idset = set(ids)
  sizes = {i: int(rows[i]['x'].shape[0]) for i in ids}
  bsz = case['batch_size']
  w = f'{where} impl={name} view_ids={[b2h(i) for i in ids]}'
  want = {i: expected_examples(rows, mv, i) for i in ids}

  if case['batch_size'] % 2 and not getattr(view, '_c08_seen', False):
    # The first use of this view object is a walk of each kind that is given
    # up after its first item (a stop-at-first-match search, a peek).
    for walk in (view.client_ids, view.client_sizes, view.clients):
      it = iter(walk())
      next(it, None)
      del it
    try:
      view._c08_seen = True  # pylint: disable=protected-access
    except Exception:  # pylint: disable=broad-except
      pass

  # Metadata.
  got_n = view.num_clients()
  require(got_n == len(ids), 'num_clients', lambda: f'{w}: {got_n} vs {len(ids)}')
  got_ids = list(view.client_ids())
  require(all(isinstance(i, bytes) for i in got_ids), 'client_ids:not_bytes', w)
  require(len(got_ids) == len(set(got_ids)) and set(got_ids) == idset, 'client_ids:set',
          lambda: f'{w}: got {[b2h(i) for i in got_ids]}')
  require(list(view.client_ids()) == got_ids, 'client_ids:order_not_deterministic', w)
  got_sizes = list(view.client_sizes())
  require(len(got_sizes) == len(ids) and dict(got_sizes) == sizes, 'client_sizes',
          lambda: f'{w}: got {[(b2h(i), s) for i, s in got_sizes]} want '
                  f'{[(b2h(i), s) for i, s in sizes.items()]}')
  for i in ids:
    s = view.client_size(i)
    require(s == sizes[i], 'client_size', lambda: f'{w}: id {b2h(i)}: {s} vs {sizes[i]}')

  # The same walks with other calls on the same view in between, and two walks
  # alive at the same time: each access path stands on its own.
  inter = []
  for cid in view.client_ids():
    inter.append(cid)
    view.num_clients()
    view.client_size(cid)
  require(inter == got_ids, 'client_ids:walk_disturbed_by_other_calls',
          lambda: f'{w}: {[b2h(i) for i in inter]} vs {[b2h(i) for i in got_ids]}')
  inter_sizes = []
  for cid, size in view.client_sizes():
    inter_sizes.append((cid, size))
    view.client_size(cid)
    view.num_clients()
  require(inter_sizes == got_sizes, 'client_sizes:walk_disturbed_by_other_calls',
          lambda: f'{w}: {[(b2h(i), n) for i, n in inter_sizes]}')
  pairs = list(zip(view.client_ids(), view.client_ids()))
  require([a for a, _ in pairs] == got_ids and [b for _, b in pairs] == got_ids,
          'client_ids:concurrent_walks_interfere',
          lambda: f'{w}: {[(b2h(a), b2h(b)) for a, b in pairs]}')

  # Iteration.
  got_clients = list(view.clients())
  order = [i for i, _ in got_clients]
  require(len(order) == len(set(order)) and set(order) == idset and
          len(order) == len(ids), 'clients:ids',
          lambda: f'{w}: got {[b2h(i) for i in order]}')
  for i, ds in got_clients:
    check_dataset(ds, want[i], bsz, f'{w} id={b2h(i)}', 'clients')
  again = [i for i, _ in view.clients()]
  require(again == order, 'clients:order_not_deterministic',
          lambda: f'{w}: {[b2h(i) for i in order]} then {[b2h(i) for i in again]}')

  # Bulk get in request order (with repeats), single get.
  req = [ids[k % len(ids)] for k in case['req']] if ids else []
  got_req = list(view.get_clients(list(req)))
  require([i for i, _ in got_req] == req, 'get_clients:order',
          lambda: f'{w}: asked {[b2h(i) for i in req]} got {[b2h(i) for i, _ in got_req]}')
  for i, ds in got_req:
    check_dataset(ds, want[i], bsz, f'{w} id={b2h(i)}', 'get_clients')
  # the request may be any iterable, also a one-shot one
  got_it = list(view.get_clients(iter(list(req))))
  require([i for i, _ in got_it] == req, 'get_clients:one_shot_request',
          lambda: f'{w}: asked iter({[b2h(i) for i in req]}) got {[b2h(i) for i, _ in got_it]}')
  got_gen = list(view.get_clients(i for i in list(req)))
  require([i for i, _ in got_gen] == req, 'get_clients:one_shot_request',
          lambda: f'{w}: asked generator {[b2h(i) for i in req]} got {[b2h(i) for i, _ in got_gen]}')
  got_empty = list(view.get_clients([]))
  require(got_empty == [], 'get_clients:empty_request', w)
  for i in ids:
    check_dataset(view.get_client(i), want[i], bsz, f'{w} id={b2h(i)}', 'get_client')

  # Shuffled iteration: first two passes.
  if ids:
    orders = lambda: ([i for i, _ in view.clients()], [i for i, _ in view.client_sizes()],
                      list(view.client_ids()))
    orders_before = orders()
    it = view.shuffled_clients(case['buffer'], case['seed'])
    try:
      got_sh = list(itertools.islice(it, 2 * len(ids)))
    finally:
      close = getattr(it, 'close', None)
      if close:
        close()
    require(len(got_sh) == 2 * len(ids), 'shuffled:stream_ended', w)
    for p in range(2):
      part = got_sh[p * len(ids):(p + 1) * len(ids)]
      require(sorted(i for i, _ in part) == ids, 'shuffled:pass_not_permutation',
              lambda: f'{w} buffer={case["buffer"]} pass {p}: {[b2h(i) for i, _ in part]}')
      for i, ds in part:
        check_dataset(ds, want[i], bsz, f'{w} id={b2h(i)} pass {p}', 'shuffled')
    # the shuffled passes leave the view's own walks as they were
    require(orders() == orders_before, 'walk_order_changed_by_a_shuffled_pass',
            lambda: f'{w} buffer={case["buffer"]}')

  # Ids outside the view raise KeyError on every point-access path.
  for o in universe:
    if o in idset:
      continue
    wo = f'{w} outside_id={b2h(o)}'
    expect_key_error(lambda: view.client_size(o), 'outside:client_size_no_keyerror', wo)
    expect_key_error(lambda: view.get_client(o), 'outside:get_client_no_keyerror', wo)
    request = ([ids[0]] if ids else []) + [o] + ([ids[-1]] if ids else [])
    yielded = []
    try:
      for item in view.get_clients(list(request)):
        yielded.append(item)
    except KeyError:
      pass
    else:
      raise Violation('outside:get_clients_no_keyerror', wo)
    good = request[:request.index(o)]
    require([i for i, _ in yielded] == good[:len(yielded)],
            'outside:get_clients_yielded_wrong_prefix',
            lambda: f'{wo}: yielded {[b2h(i) for i, _ in yielded]}')
    for i, ds in yielded:
      check_dataset(ds, want[i], bsz, f'{wo} id={b2h(i)}', 'get_clients')


def outside_universe(root_ids):
  """Ids of the root plus near misses that are in no view."""
  out = set(root_ids)
  for i in root_ids:
    out.add(succ(i))
    out.add(pred(i))
    if i:
      out.add(i[:-1])
  out.add(b'\xfe\xfd')
  near = sorted(out - set(root_ids))
  # all root ids, plus a bounded number of near misses (deterministic choice)
  return sorted(root_ids) + near[:6]


def apply_op(view, op, mv):
  """Applies the resolved operation to one implementation's parent view."""
  if op['op'] == 'slice':
    start, stop = mv['args']
    return view.slice(start, stop)
  if op['op'] == 'subset':
    return fd_lib.SubsetFederatedData(view, list(mv['args']))
  if op['op'] == 'prep_client':
    return view.preprocess_client(client_fn(op['fn'], op['k']))
  if op['op'] == 'prep_batch':
    return view.preprocess_batch(batch_fn(op['fn'], op['k']))
  raise ValueError(op['op'])


# A database in the same schema whose blobs are NOT in the default encoding: the
# documented `parse_examples` option of SQLiteFederatedData.new.  Rows go in in
# reverse order (rowid order differs from the builder-written file) and the blob
# is a tag followed by uncompressed msgpack, so only `_custom_parse` reads it.
_CUSTOM_TAG = b'C08v1:'


def _custom_parse(blob):
  assert bytes(blob[:len(_CUSTOM_TAG)]) == _CUSTOM_TAG, 'blob not in the custom encoding'
  return serialization.msgpack_deserialize(bytes(blob[len(_CUSTOM_TAG):]))


def write_custom_db(path, order, rows):
  conn = sqlite3.connect(path)
  conn.execute("""CREATE TABLE federated_data (
      client_id BLOB NOT NULL PRIMARY KEY,
      data BLOB NOT NULL,
      num_examples INTEGER NOT NULL);""")
  for i in reversed(order):
    conn.execute('INSERT INTO federated_data VALUES (?, ?, ?);',
                 (i, _CUSTOM_TAG + serialization.msgpack_serialize(rows[i]),
                  int(rows[i]['x'].shape[0])))
  conn.commit()
  conn.close()



def run_history(case):
  model = simulate(case)
  rows = make_rows(case)            # the model's own copy
  impl_rows = make_rows(case)       # arrays handed to fedjax
  before = rows_digest(impl_rows)
  root_ids = model[0]['ids']
  universe = outside_universe(root_ids)
  order = [h2b(c['id']) for c in case['clients']]  # insertion order
  tmp = tempfile.mkdtemp(dir='/var/tmp', prefix='C08-')
  connections = []
  try:
    path = os.path.join(tmp, 'data.sqlite')
    split = case['split'] % (len(order) + 1)
    with sql_lib.SQLiteFederatedDataBuilder(path) as builder:
      if split:
        builder.add_many([(i, impl_rows[i]) for i in order[:split]])
      builder.add_many((i, impl_rows[i]) for i in order[split:])
    mapping = {i: impl_rows[i] for i in order}
    sql = sql_lib.SQLiteFederatedData.new(path)
    connections.append(getattr(sql, '_connection', None))
    if case['split'] % 3 == 2:
      # the builder-written file is still read once (above); the views under
      # test stand on a file in the caller's own encoding
      custom = os.path.join(tmp, 'custom0.sqlite')
      write_custom_db(custom, order, impl_rows)
      sql = sql_lib.SQLiteFederatedData.new(custom, _custom_parse)
      connections.append(getattr(sql, '_connection', None))
    if case['split'] % 2:
      conn = sqlite3.connect(path)
      connections.append(conn)
      under = sql_lib.SQLiteFederatedData(conn, sql_lib.decompress_and_deserialize)
    else:
      custom = os.path.join(tmp, 'custom.sqlite')
      write_custom_db(custom, order, impl_rows)
      under = sql_lib.SQLiteFederatedData.new(custom, parse_examples=_custom_parse)
      connections.append(getattr(under, '_connection', None))
    views = {
        'mem': [mem_lib.InMemoryFederatedData(mapping)],
        'sql': [sql],
        'sub_mem': [fd_lib.SubsetFederatedData(
            mem_lib.InMemoryFederatedData(dict(mapping)), list(order))],
        'sub_sql': [fd_lib.SubsetFederatedData(under, set(order))],
    }
    del under
    for step in range(len(case['ops']) + 1):
      if step > 0:
        op = case['ops'][step - 1]
        mv = model[step]
        for name in IMPLS:
          views[name].append(apply_op(views[name][mv['parent']], op, mv))
      # Observe every live view (parents are re-observed after deriving).
      for vi in range(step + 1):
        where = f'after step {step} view {vi} chain={model[vi]["kinds"]}'
        for name in IMPLS:
          observe(name, views[name][vi], model[vi], rows, case, universe, where)
    require(rows_digest(impl_rows) == before and list(mapping) == order,
            'source_mapping_mutated', 'raw arrays handed to InMemoryFederatedData changed')
    # A derived view stands on its own: the caller may drop every reference to
    # the dataset objects it was derived from (a loader that returns only a
    # slice, `new(path).slice(...)`) and keep using the view.
    last = len(case['ops'])
    leaves = {name: views[name][last] for name in IMPLS}
    for name in IMPLS:
      del views[name][:]
    del sql
    import gc
    gc.collect()
    where = f'view {last} chain={model[last]["kinds"]} after its parents were dropped'
    for name in IMPLS:
      observe(name, leaves[name], model[last], rows, case, universe, where)
  finally:
    for c in connections:
      try:
        if c is not None:
          c.close()
      except Exception:  # pylint: disable=broad-except
        pass
    shutil.rmtree(tmp, ignore_errors=True)
  return None


# ------------------------------------------------------------------- labels

def _is_prefix_related(ids):
  for a in ids:
    for b in ids:
      if a != b and b.startswith(a):
        return True
  return False


def labels(case):
  model = simulate(case)
  ids = model[0]['ids']
  ls = []
  if b'' in ids:
    ls.append('empty_id')
  if case.get('m_layout'):
    ls.append('2d_feature:' + case['m_layout'])
  if any(i.endswith(b'\x00') for i in ids):
    ls.append('trailing_zero_id')
  if _is_prefix_related(ids):
    ls.append('prefix_related_ids')
  if any(c >= 0x80 for i in ids for c in i):
    ls.append('high_byte_id')
  if any(c['n'] == 0 for c in case['clients']):
    ls.append('zero_row_client')
  if len(ids) == 1:
    ls.append('single_client')
  if [h2b(c['id']) for c in case['clients']] != ids:
    ls.append('insertion_order!=sorted')
  seen = set()
  for v in model[1:]:
    p = model[v['parent']]
    kind = v['kinds'][-1]
    seen.add('op:' + kind)
    if not v['ids']:
      seen.add('empty_view')
      if p['ids']:
        seen.add('empty_view_from_nonempty:' + kind)
      else:
        seen.add('op_on_empty_view:' + kind)
    if kind == 'slice':
      start, stop = v['args']
      if start is not None and stop is not None and start > stop:
        seen.add('slice:start>stop')
      if start is not None and stop is not None and start == stop:
        seen.add('slice:start==stop')
      if start is None and stop is None:
        seen.add('slice:unbounded')
      if 0 < len(v['ids']) < len(p['ids']):
        seen.add('slice:proper_nonempty')
      if 'slice' in p['kinds']:
        seen.add('slice_of_slice')
      if 'subset' in p['kinds']:
        seen.add('slice_of_subset')
    if kind == 'subset':
      if 'slice' in p['kinds']:
        seen.add('subset_of_slice')
      if 'subset' in p['kinds']:
        seen.add('subset_of_subset')
      if 0 < len(v['ids']) < len(p['ids']):
        seen.add('subset:proper_nonempty')
    if kind in ('slice', 'subset') and (p['cf'] or p['bf']):
      seen.add('restrict_after_preprocess')
    if kind.startswith('prep') and ('slice' in p['kinds'] or 'subset' in p['kinds']):
      seen.add('preprocess_after_restrict')
    if v['cf'] and v['bf']:
      seen.add('both_preprocess_levels')
    if len(v['cf']) >= 2 or len(v['bf']) >= 2:
      seen.add('chain>=2_same_level')
    if len(set(v['kinds'])) >= 2:
      seen.add('nested_kinds>=2')
    if len(v['kinds']) >= 4:
      seen.add('depth>=4')
  if any(m['parent'] is not None and m['parent'] < i - 1 for i, m in enumerate(model)):
    seen.add('branching_tree')
  n = len(case['ops'])
  ls.append('steps:' + ('1-3' if n <= 3 else '4-8' if n <= 8 else '9-12' if n <= 12 else '13+'))
  return ls + sorted(seen)


def nontrivial(case, ls):
  return ('nested_kinds>=2' in ls or 'empty_view' in ls or
          'trailing_zero_id' in ls or 'prefix_related_ids' in ls)


# --------------------------------------------------------------- strategies

ALPHA = [0x00, 0x01, 0x61, 0x80, 0xff]
CLIENT_FNS = ['double', 'inc', 'mix', 'tag', 'cid']
BATCH_FNS = ['double', 'inc', 'mix', 'tag']

_small_id = st.lists(st.sampled_from(ALPHA), max_size=3).map(lambda l: bytes(l).hex())
_any_id = st.binary(max_size=5).map(lambda b: b.hex())


@st.composite
def ids_strategy(draw):
  n = draw(st.integers(1, 8))
  ids = []
  for _ in range(n):
    how = draw(st.sampled_from(['small', 'small', 'any', 'zero', 'byte', 'chop', 'empty']))
    if how == 'small' or (not ids and how in ('zero', 'byte', 'chop')):
      new = h2b(draw(_small_id))
    elif how == 'any':
      new = h2b(draw(_any_id))
    elif how == 'empty':
      new = b''
    else:
      base = ids[draw(st.integers(0, len(ids) - 1))]
      if how == 'zero':
        new = base + b'\x00'
      elif how == 'byte':
        new = base + bytes([draw(st.sampled_from(ALPHA))])
      else:
        new = base[:-1]
    if new not in ids:
      ids.append(new)
  return [i.hex() for i in ids]


def _marker():
  k = st.integers(0, 7)
  return st.one_of(
      st.just(['none']),
      st.tuples(st.just('at'), k).map(list),
      st.tuples(st.just('at'), k).map(list),
      st.tuples(st.just('after'), k).map(list),
      st.tuples(st.just('before'), k).map(list),
      st.tuples(st.just('raw'), _small_id).map(list))


def _op():
  parent = st.one_of(st.just(-1), st.just(-1), st.integers(0, 30))
  k = st.integers(1, 7)
  return st.one_of(
      st.fixed_dictionaries({'op': st.just('slice'), 'parent': parent,
                             'start': _marker(), 'stop': _marker()}),
      st.fixed_dictionaries({'op': st.just('slice'), 'parent': parent,
                             'start': _marker(), 'stop': _marker()}),
      st.fixed_dictionaries({'op': st.just('subset'), 'parent': parent,
                             'pick': st.lists(st.integers(0, 7), max_size=8)}),
      st.fixed_dictionaries({'op': st.just('prep_client'), 'parent': parent,
                             'fn': st.sampled_from(CLIENT_FNS), 'k': k}),
      st.fixed_dictionaries({'op': st.just('prep_batch'), 'parent': parent,
                             'fn': st.sampled_from(BATCH_FNS), 'k': k}))


@st.composite
def history_strategy(draw, tier):
  max_ops = 12 if tier == 'quick' else 25
  # Hypothesis lists lean short; a drawn lower bound keeps long histories common.
  min_ops = [1, 3, 5, 8] if tier == 'quick' else [1, 4, 8, 14]
  ids = draw(ids_strategy())
  clients = [{'id': i, 'n': draw(st.integers(0, 5))} for i in ids]
  return {
      'clients': clients,
      'x_dtype': draw(st.sampled_from(['int32', 'int64'])),
      'y_dtype': draw(st.sampled_from([None, 'float32', 'float64'])),
      'm_layout': draw(st.sampled_from([None, None, 'C', 'F', 'T'])),
      'split': draw(st.integers(0, 8)),
      'ops': draw(st.lists(_op(), min_size=draw(st.sampled_from(min_ops)),
                           max_size=max_ops)),
      'req': draw(st.lists(st.integers(0, 7), max_size=5)),
      'batch_size': draw(st.integers(1, 6)),
      'buffer': draw(st.integers(1, 10)),
      'seed': draw(st.integers(0, 2**31 - 1)),
  }


# ------------------------------------------- exhaustive slice-range sub-check

# Each family: a sorted universe of ids and the 4 ordered ids used as bounds.
FAMILIES = {
    'spaced': {
        'universe': ['00', '10', '20', '30', '40', '50', '60', '70', '80'],
        'bounds': ['10', '30', '50', '70']},
    'prefix': {
        # '' < 00 < 0000 < 000000 < 0001 < 01 < 0100 < 61 : adjacent ids, no gaps
        'universe': ['', '00', '0000', '000000', '0001', '01', '0100', '61'],
        'bounds': ['', '00', '0000', '01']},
    'high': {
        'universe': ['7f', '7fff', '80', '8000', 'fe', 'ff', 'ff00', 'ffff', 'ffffff'],
        'bounds': ['7fff', '80', 'ff', 'ffff']},
    'outside': {
        # every bound lies between / outside the stored ids
        'universe': ['61', '6161', '62', '63'],
        'bounds': ['60', '6100', '6200', '64']},
}


def slice_range_cases(tier):
  for fam in FAMILIES:
    for combo in itertools.product(range(5), repeat=4):
      yield {'family': fam, 'bounds': list(combo)}


@functools.lru_cache(maxsize=None)
def _family_impls(fam):
  """Read-only implementations over the family's universe (shared by cases)."""
  universe = [h2b(i) for i in FAMILIES[fam]['universe']]
  assert universe == sorted(universe) and len(set(universe)) == len(universe)
  rows = {i: {'x': np.arange(1 + (k % 3), dtype=np.int32) + 10 * k}
          for k, i in enumerate(universe)}
  # SQLite file written by the builder (in reverse order so that rowid order
  # != id order), then copied into a private in-memory database.
  conn = sqlite3.connect(':memory:')
  tmp = tempfile.mkdtemp(dir='/var/tmp', prefix='C08-')
  try:
    path = os.path.join(tmp, 'f.sqlite')
    with sql_lib.SQLiteFederatedDataBuilder(path) as b:
      b.add_many((i, rows[i]) for i in reversed(universe))
    src = sqlite3.connect(path)
    src.backup(conn)
    src.close()
  finally:
    shutil.rmtree(tmp, ignore_errors=True)
  sql = sql_lib.SQLiteFederatedData(conn, sql_lib.decompress_and_deserialize)
  mem = mem_lib.InMemoryFederatedData(rows)
  return universe, rows, {
      'mem': mem, 'sql': sql,
      'sub_mem': fd_lib.SubsetFederatedData(mem, universe),
      'sub_sql': fd_lib.SubsetFederatedData(sql, universe)}


def _in_range(i, start, stop):
  return (start is None or i >= start) and (stop is None or i < stop)


def run_slice_ranges(case):
  fam = FAMILIES[case['family']]
  opts = [None] + [h2b(i) for i in fam['bounds']]
  cs, ce, ns, ne = (opts[k] for k in case['bounds'])
  universe, rows, impls = _family_impls(case['family'])
  # probe points: the stored ids plus the bounds themselves and their neighbours
  probes = sorted(set(universe) | set(opts[1:]) | {succ(i) for i in opts[1:]} |
                  {pred(i) for i in opts[1:]})
  want = [i for i in probes if _in_range(i, cs, ce) and _in_range(i, ns, ne)]
  rs, re_ = fd_lib.intersect_slice_ranges(cs, ce, ns, ne)
  got = [i for i in probes if _in_range(i, rs, re_)]
  w = f'current=({cs},{ce}) new=({ns},{ne})'
  require(got == want, 'intersect_slice_ranges:not_set_intersection',
          lambda: f'{w}: returned ({rs},{re_}) selects {[b2h(i) for i in got]} '
                  f'want {[b2h(i) for i in want]}')
  require((rs is None or isinstance(rs, bytes)) and (re_ is None or isinstance(re_, bytes)),
          'intersect_slice_ranges:type', w)
  want_ids = [i for i in universe if _in_range(i, cs, ce) and _in_range(i, ns, ne)]
  for name, root in impls.items():
    v = root.slice(cs, ce).slice(ns, ne)
    ids = list(v.client_ids())
    require(sorted(ids) == want_ids and len(ids) == len(want_ids), 'nested_slice:client_ids',
            lambda: f'{w} impl={name}: {[b2h(i) for i in ids]} want {[b2h(i) for i in want_ids]}')
    require(v.num_clients() == len(want_ids), 'nested_slice:num_clients', f'{w} impl={name}')
    got_c = {i: ds.all_examples() for i, ds in v.clients()}
    require(set(got_c) == set(want_ids) and all(
        same_examples(got_c[i], rows[i]) for i in want_ids), 'nested_slice:clients',
            f'{w} impl={name}')
    for i in universe:
      if i in want_ids:
        require(v.client_size(i) == rows[i]['x'].shape[0], 'nested_slice:client_size',
                f'{w} impl={name} id={b2h(i)}')
      else:
        expect_key_error(lambda: v.get_client(i), 'nested_slice:outside_get_client_no_keyerror',
                         f'{w} impl={name} id={b2h(i)}')
        expect_key_error(lambda: v.client_size(i), 'nested_slice:outside_client_size_no_keyerror',
                         f'{w} impl={name} id={b2h(i)}')
  extra = []
  if not want_ids:
    extra.append('empty_result')
  return extra


def slice_labels(case):
  b = case['bounds']
  ls = ['family:' + case['family']]
  if b[0] and b[1] and b[0] > b[1]:
    ls.append('current:start>stop')
  if b[2] and b[3] and b[2] > b[3]:
    ls.append('new:start>stop')
  if not any(b[:2]):
    ls.append('current:unbounded')
  if not any(b[2:]):
    ls.append('new:unbounded')
  return ls


# ------------------------------------------------------------ many clients

def run_many_clients(case):
  """70-200 clients written in an order unrelated to their ids: every walk
  (client_ids, client_sizes, clients, one shuffled pass) of every implementation
  -- whole dataset and a slice -- names each client of the view exactly once
  and hands out that client's own rows.  (Anything that pages, chunks or caches
  a walk works within one page for the handful of clients of `histories`.)"""
  n, stride = case['n'], case['stride']
  order = [(i * stride) % n for i in range(n)]          # insertion order: a permutation
  cid = lambda k: b'%s%04d' % (bytes.fromhex(case['prefix']), k)
  rows = {cid(k): {'x': np.full((1 + k % 3, 2), k, np.int32)} for k in range(n)}
  lo, hi = sorted((case['lo'] % n, case['hi'] % n))
  tmp = tempfile.mkdtemp(dir='/var/tmp', prefix='C08m-')
  conns = []
  try:
    path = os.path.join(tmp, 'data.sqlite')
    with sql_lib.SQLiteFederatedDataBuilder(path) as builder:
      builder.add_many((cid(k), rows[cid(k)]) for k in order)
    sql = sql_lib.SQLiteFederatedData.new(path)
    conns.append(getattr(sql, '_connection', None))
    mem = mem_lib.InMemoryFederatedData({cid(k): dict(rows[cid(k)]) for k in order})
    impls = {'mem': mem, 'sql': sql,
             'sub_sql': fd_lib.SubsetFederatedData(sql, [cid(k) for k in order])}
    for name, whole in impls.items():
      for what, view, want in (
          ('whole', whole, [cid(k) for k in range(n)]),
          ('slice', whole.slice(cid(lo), cid(hi)), [cid(k) for k in range(lo, hi)])):
        w = f'{name} {what} ({len(want)} of {n} clients)'
        require(view.num_clients() == len(want), 'many:num_clients',
                lambda: f'{w}: {view.num_clients()}')
        for walk, got in (
            ('client_ids', list(view.client_ids())),
            ('client_sizes', [i for i, _ in view.client_sizes()]),
            ('clients', [i for i, _ in view.clients()]),
            ('shuffled_clients', [i for i, _ in itertools.islice(
                view.shuffled_clients(case['buffer'], case['seed']), len(want))])):
          require(sorted(got) == want, 'many:walk_does_not_name_every_client_once',
                  lambda: f'{w}: {walk}() yields {len(got)} ids, {len(set(got))} distinct; '
                          f'missing {sorted(set(want) - set(got))[:4]} '
                          f'extra {sorted(set(got) - set(want))[:4]}')
        for i, ds in view.clients():
          k = int(i[-4:])
          x = np.asarray(ds.raw_examples['x'])
          require(x.shape == (1 + k % 3, 2) and bool((x == k).all()),
                  'many:client_with_anothers_rows', lambda: f'{w}: {i!r}: {x.tolist()}')
        sizes = dict(view.client_sizes())
        require(all(sizes[i] == 1 + int(i[-4:]) % 3 for i in want), 'many:client_sizes', w)
  finally:
    for c in conns:
      try:
        if c is not None:
          c.close()
      except Exception:  # pylint: disable=broad-except
        pass
    shutil.rmtree(tmp, ignore_errors=True)
  return []


@st.composite
def many_strategy(draw, tier):
  n = draw(st.sampled_from([70, 129, 65, 200, 128, 64, 97]))
  stride = draw(st.sampled_from([s for s in (7, 11, 13, 37, 59, 1, 101) if math.gcd(s, n) == 1]))
  return {'n': n, 'stride': stride, 'prefix': draw(st.sampled_from(['63', '', '00', '6300'])),
          'lo': draw(st.integers(0, 300)), 'hi': draw(st.integers(0, 300)),
          'buffer': draw(st.sampled_from([1, 2, 64, 100, 500])),
          'seed': draw(st.integers(0, 2**20))}


# ------------------------------------------- iteration order across processes

def collect_orders(case):
  """For every view of the history and every implementation: the client-id order
  of client_ids(), client_sizes(), clients() and of the first two passes of
  shuffled_clients(buffer, seed)."""
  model = simulate(case)
  impl_rows = make_rows(case)
  order = [h2b(c['id']) for c in case['clients']]
  tmp = tempfile.mkdtemp(dir='/var/tmp', prefix='C08o-')
  connections = []
  out = {}
  try:
    path = os.path.join(tmp, 'data.sqlite')
    with sql_lib.SQLiteFederatedDataBuilder(path) as builder:
      builder.add_many((i, impl_rows[i]) for i in order)
    mapping = {i: impl_rows[i] for i in order}
    sql = sql_lib.SQLiteFederatedData.new(path)
    connections.append(getattr(sql, '_connection', None))
    conn = sqlite3.connect(path)
    connections.append(conn)
    views = {
        'mem': [mem_lib.InMemoryFederatedData(mapping)],
        'sql': [sql],
        'sub_mem': [fd_lib.SubsetFederatedData(
            mem_lib.InMemoryFederatedData(dict(mapping)), list(order))],
        'sub_sql': [fd_lib.SubsetFederatedData(
            sql_lib.SQLiteFederatedData(conn, sql_lib.decompress_and_deserialize),
            set(order))],
    }
    for step, op in enumerate(case['ops'], start=1):
      mv = model[step]
      for name in IMPLS:
        views[name].append(apply_op(views[name][mv['parent']], op, mv))
    for name in IMPLS:
      for vi, view in enumerate(views[name]):
        n = len(model[vi]['ids'])
        rec = {
            'client_ids': [i.hex() for i in view.client_ids()],
            'client_sizes': [i.hex() for i, _ in view.client_sizes()],
            'clients': [i.hex() for i, _ in view.clients()],
        }
        if n:
          it = view.shuffled_clients(case['buffer'], case['seed'])
          rec['shuffled'] = [i.hex() for i, _ in itertools.islice(it, 2 * n)]
        out[f'{name}[{vi}]'] = rec
  finally:
    for c in connections:
      try:
        if c is not None:
          c.close()
      except Exception:  # pylint: disable=broad-except
        pass
    shutil.rmtree(tmp, ignore_errors=True)
  return out


def run_orders_across_processes(case):
  """"Iteration order is deterministic": a new interpreter process (another
  string-hash seed, hence another iteration order of every set and of every dict
  built from one) walks every view of the history in the same order as this one
  and draws the same seeded shuffle."""
  import json
  import subprocess
  import sys
  from vf import env as _env
  here = collect_orders(case)
  for hs in case['hashseeds']:
    env = _env.worker_env()
    env['PYTHONHASHSEED'] = str(hs)
    p = subprocess.run([sys.executable, '-m', 'vf.props.c08', json.dumps(case)],
                       env=env, cwd=_env.VERIF_DIR, capture_output=True, text=True,
                       timeout=900)
    line = [l for l in p.stdout.splitlines() if l.startswith('@@C08@@')]
    if p.returncode != 0 or not line:
      raise Violation('order:child_process_failed', p.stderr[-1200:])
    there = json.loads(line[0][7:])
    for key in sorted(here):
      for path in here[key]:
        require(there.get(key, {}).get(path) == here[key][path],
                f'order_differs_between_processes:{path}',
                lambda: f'{key} {path}: PYTHONHASHSEED={hs} gives '
                        f'{there.get(key, {}).get(path)}, this process {here[key][path]}')
  return None


@st.composite
def orders_strategy(draw, tier):
  case = draw(history_strategy(tier))
  case['ops'] = case['ops'][:6]
  case['hashseeds'] = draw(st.lists(st.integers(1, 10**6), min_size=2, max_size=2,
                                    unique=True))
  return case


CHECKS = [
    Check(name='histories', run=run_history, strategy=history_strategy,
          labels=labels, nontrivial=nontrivial,
          budget={'quick': 1200, 'thorough': 24000},
          time_share=4.0,
          doc='lock-step interpretation of a generated view-operation tree on '
              'in-memory / SQLite / subset-over-each and a dict model; every '
              'live view observed after every step through every access path'),
    Check(name='walks_over_many_clients', run=run_many_clients, strategy=many_strategy,
          labels=lambda c: ['clients:%d' % c['n'], 'insertion_stride:%d' % c['stride']],
          nontrivial=lambda c, ls: c['stride'] != 1,
          budget={'quick': 64, 'thorough': 1200}, time_share=0.6,
          doc='64-200 clients inserted in an order unrelated to their ids: every walk of '
              'in-memory / SQLite / subset-over-SQLite (whole and sliced) names each client '
              'of the view exactly once and hands out its own rows'),
    Check(name='slice_ranges_exhaustive', run=run_slice_ranges,
          cases=slice_range_cases, labels=slice_labels,
          nontrivial=lambda c, ls: any(c['bounds'][:2]) and any(c['bounds'][2:]),
          time_share=1.0,
          doc='all 5^4 (current_start, current_stop, new_start, new_stop) over '
              '{None, 4 ordered ids} x 4 id families: intersect_slice_ranges and '
              'nested slice() of the four implementations vs set intersection'),
    Check(name='iteration_order_across_processes', run=run_orders_across_processes,
          strategy=orders_strategy, labels=labels, nontrivial=nontrivial,
          budget={'quick': 48, 'thorough': 640}, time_share=1.5,
          doc='every view of a generated history is walked (client_ids, '
              'client_sizes, clients, two seeded shuffled passes) in this process '
              'and in two fresh interpreters with other PYTHONHASHSEED values: '
              'the orders must be identical'),
]


if __name__ == '__main__':
  import json as _json
  import sys as _sys
  print('@@C08@@' + _json.dumps(collect_orders(_json.loads(_sys.argv[1]))))
