"""C06 -- Masked gradients and losses ignore padding and batch geometry.

Every case fixes a per-example loss family, a regularizer kind, parameters and
the *real* examples (all small dyadic rationals), and then presents the same
real examples to fedjax in several batch geometries:

  padded   ClientDataset.padded_batch(batch_size=b, num_batch_size_buckets=k),
           optionally with extra all-padding batches inserted
  plain    ClientDataset.batch(batch_size=b) (no mask feature; only where the
           mask is documented as optional)
  layout   hand-laid batches: every real row exactly once, in any order, at
           arbitrary positions of batches of arbitrary menu sizes (the mask is
           not a prefix; some batches hold no real row); padding rows are zeros
           or finite garbage

Oracle: float64 numpy closed forms (per-example losses and gradients written
independently of jax), the regularizer counted exactly once; every geometry is
compared with the reference and with the baseline geometry (one padded batch of
16 rows).
"""
import functools

import numpy as np
from hypothesis import strategies as st

import jax
import jax.numpy as jnp

import fedjax
from fedjax.algorithms import agnostic_fed_avg
from fedjax.core import client_datasets as client_datasets_lib
from fedjax.algorithms import hyp_cluster
from fedjax.algorithms import mime
from fedjax.algorithms import mime_lite

from vf.core import Check, require

PROPERTY_ID = 'C06'
NEEDS_TF = False
LEVEL = 'exploration'
RULE = (
    'Hypothesis draws a loss family (least squares on a {w,b} dict, softmax '
    'cross-entropy of a linear model on a nested dict, pseudo-Huber on a [w,b] '
    'list; input dim 2, 3 classes), a regularizer kind (none, l2, l2 toward a '
    'centre, per-parameter weighted l2, both; the for_each_client sites, which '
    'pass the regularizer through opaquely, use none / l2 / both), parameters '
    'k/8 with |k|<=16 (incl. all-zero and exactly the centre), real examples '
    'x=k/8 (|k|<=8), y=k/8 (|k|<=32) or a label, incl. real all-zero rows. '
    'masked_grad: one padded batch of menu size {1,2,3,4,8,16} (thorough: '
    '+6,12) with a scattered / prefix / all-False / all-True mask and zero or '
    'finite-garbage padding rows. Dataset-level checks: 1-3 (thorough 1-4) '
    'clients of 0-9 (thorough 0-16) examples and 1-3 (thorough 1-4) geometries '
    'in addition to the baseline (one padded batch of 16): padded(b from the '
    'size menu, buckets 1-3, optionally 1-2 inserted all-padding batches), '
    'plain(b) where the mask is optional, layout (rows permuted and scattered '
    'over 1-4 batches of menu sizes, batches without real rows allowed). '
    'Packaged algorithms (mime, mime_lite, HypCluster cluster losses, agnostic '
    'FedAvg) get (batch_size, buckets) hyper-parameters only. Non-trivial: '
    'masked_grad - the batch has >=1 padding row; dataset-level - for some '
    'client two geometries have different batch counts and a regularizer is '
    'present (or the site takes no regularizer), or some geometry contains an '
    'all-padding batch, or a client has no example. distinct = distinct '
    'canonical case JSON.')
RULE += (
    ' '
    'Later widenings: datasets with a preprocessor and a feature `one` on which the losses ar'
    'e NaN for all-zero padding rows; a real example with an infinite target; bfloat16 losses'
    ' over several hundred rows; a peek at the first batch of a view before the evaluated pas'
    's; cluster losses with the evaluator built on the pmap / debug backend and inside the k-'
    'means++ initializer; Mime cohorts that list a client twice.')
RULE += (
    ' '
    'Also: average-loss batches as one-shot iterators; the packaged agnostic round with a zer'
    'o-weight domain and a local step.')
ASSUMPTIONS = [
    'per-example losses are rng-independent (an rng-dependent loss is '
    'legitimately geometry-dependent: the key is split once per batch) and '
    'finite on every row, including all-zero and garbage padding rows',
    'a quarter of the dataset-level cases attach a per-example batch preprocessor '
    'to every client dataset that is the identity on real examples and not finite '
    'on an all-zero row (padding is added after preprocessing, so it never meets '
    'one); the reference values are unchanged',
    'padding rows are masked out by the example mask only; they hold zeros (what '
    'padded_batch produces) or finite garbage with valid labels / domain ids',
    'float32 implementation vs float64 closed-form reference: |got - want| <= '
    '1e-5 * scale, scale = 1 + largest |per-example term| + |regularizer term| '
    'for means and 1 + sum of |per-example terms| + n*|regularizer term| for '
    'sums; between two geometries 2e-5 * scale. Counts (num_sum, domain_num) '
    'are compared exactly. Measured float32 noise: <= 1.3e-7 * scale over 350 '
    'thorough-tier cases (75x headroom); worst-case rounding bound for 16 terms '
    'is about 3e-6 * scale.',
    'no real example: the average loss is 0 + regularizer(params), the masked '
    'gradient is the regularizer gradient, gradient sums / counts / per-domain '
    'sums / the server gradient are exactly 0; all finite',
    'open known finding (excluded by construction): '
    'create_domain_metrics_for_each_client with regularizer != None adds the '
    'regularizer to the per-domain loss sum once per batch; generated cases of '
    'that site always use regularizer None; with a regularizer only geometry '
    'independence is asserted (no reference semantics exists) by the witness '
    'replay',
    'the full-batch server gradient of mime / mime_lite is observed as the '
    'momentum trace of base_optimizer = sgd(1/2, momentum=1/2) after one round '
    'from a zero trace with num_steps=0 client training (trace = server_grads)',
    'HypCluster cluster losses are read from hyp_cluster._cluster_losses (the '
    'only place they exist) and through maximization_step; the argmin is '
    'asserted only when the reference margin exceeds 1e-4 * scale',
    'TensorFlow import blocked (NEEDS_TF=False)',
]

MASK = fedjax.EXAMPLE_MASK_KEY
FAMILIES = ['ls', 'ce', 'huber']
REGS = ['none', 'l2', 'center', 'weighted', 'center_weighted']
# Sites that only pass the regularizer through as an opaque callable (every
# (site, family, regularizer, shape) is a separate XLA compilation).
REGS_OPAQUE = ['none', 'l2', 'center_weighted']
NPARAMS = {'ls': 3, 'ce': 9, 'huber': 3}
SIZES = {'quick': [1, 2, 3, 4, 8, 16], 'thorough': [1, 2, 3, 4, 6, 8, 12, 16]}
CLIENT_SIZES = {'quick': [3, 5, 0, 1, 2, 4, 7, 9],
                'thorough': [3, 5, 0, 1, 2, 4, 7, 9, 6, 8, 12, 16]}
MAX_CLIENTS = {'quick': 3, 'thorough': 4}
MAX_GEOMS = {'quick': 3, 'thorough': 4}
BASELINE = {'kind': 'padded', 'b': 16, 'k': 1, 'pads': []}
TOL = 1e-5

SITE_DOMAIN = 'agnostic.create_domain_metrics_for_each_client'
KNOWN_DOMAIN_REG = 'excluded_known:agnostic-domain-metrics-regularizer'

# Finite garbage for padding rows: [x0, x1, y-or-label-seed, domain-seed].
GARBAGE = [[8, -7, 29, 1], [-8, 8, -32, 2], [5, 3, 17, 0], [-1, -6, -11, 1],
           [7, 7, 31, 2], [-3, 2, 8, 0], [6, -8, -25, 1]]


# ------------------------------------------------------ losses under test

def _nan_on_zero_rows(batch):
  """0 on every real row, NaN on an all-zero padding row -- for batches that
  carry the feature 'one' (1 on real rows; see client_dataset): a per-example
  loss need not be finite where there is no example (log x, 1/x, ...)."""
  if 'one' in batch:
    return 0.0 * jnp.log(batch['one'])
  return 0.0


def _ls_forward(params, batch):
  return batch['x'] @ params['w'] + params['b']


def _ls_loss(params, batch, rng):
  del rng
  r = _ls_forward(params, batch) - batch['y']
  return r * r + _nan_on_zero_rows(batch)


def _ce_forward(params, batch):
  lin = params['linear']
  return batch['x'] @ lin['w'] + lin['b']


def _ce_from_logits(batch, logits):
  lse = jax.nn.logsumexp(logits, axis=-1)
  picked = jnp.take_along_axis(logits, batch['y'][:, None], axis=-1)[:, 0]
  return lse - picked


def _ce_loss(params, batch, rng):
  del rng
  return _ce_from_logits(batch, _ce_forward(params, batch)) + _nan_on_zero_rows(batch)


def _huber_forward(params, batch):
  w, b = params
  return batch['x'] @ w + b


def _huber_from_pred(batch, pred):
  r = pred - batch['y']
  return jnp.sqrt(1.0 + r * r) - 1.0


def _huber_loss(params, batch, rng):
  del rng
  return _huber_from_pred(batch, _huber_forward(params, batch)) + _nan_on_zero_rows(batch)


LOSS = {'ls': _ls_loss, 'ce': _ce_loss, 'huber': _huber_loss}


def _model(fam):
  fwd = {'ls': _ls_forward, 'ce': _ce_forward, 'huber': _huber_forward}[fam]
  train_loss = {
      'ls': lambda batch, out: (out - batch['y']) ** 2,
      'ce': _ce_from_logits,
      'huber': _huber_from_pred}[fam]
  return fedjax.Model(
      init=lambda rng: to_tree(fam, np.zeros(NPARAMS[fam]), jnp.asarray),
      apply_for_train=lambda params, batch, rng=None: fwd(params, batch),
      apply_for_eval=fwd,
      train_loss=train_loss,
      eval_metrics={})


def to_tree(fam, flat, mk):
  """Canonical flat vector -> the family's params pytree (leaves via mk)."""
  flat = np.asarray(flat, np.float32)
  if fam == 'ls':
    return {'w': mk(flat[:2]), 'b': mk(flat[2])}
  if fam == 'huber':
    return [mk(flat[:2]), mk(flat[2])]
  return {'linear': {'w': mk(flat[:6].reshape(2, 3)), 'b': mk(flat[6:])}}


def tree_leaves_canonical(fam, tree):
  if fam == 'ls':
    return [tree['w'], tree['b']]
  if fam == 'huber':
    return [tree[0], tree[1]]
  return [tree['linear']['w'], tree['linear']['b']]


LEAF_SHAPES = {'ls': [(2,), ()], 'huber': [(2,), ()], 'ce': [(2, 3), (3,)]}


def from_tree(fam, tree, what):
  """fedjax output pytree -> canonical flat float64 vector (checks structure)."""
  want_def = jax.tree_util.tree_structure(to_tree(fam, np.zeros(NPARAMS[fam]), np.asarray))
  got_def = jax.tree_util.tree_structure(tree)
  require(got_def == want_def, 'output_tree_structure',
          lambda: f'{what}: {got_def} vs params {want_def}')
  out = []
  for leaf, shape in zip(tree_leaves_canonical(fam, tree), LEAF_SHAPES[fam]):
    a = np.asarray(leaf)
    require(a.shape == shape and a.dtype == np.float32, 'output_leaf_shape_or_dtype',
            lambda: f'{what}: leaf {a.dtype}{a.shape} vs float32{shape}')
    out.append(a.astype(np.float64).reshape(-1))
  return np.concatenate(out)


def params_tree(fam, ints):
  return to_tree(fam, np.asarray(ints, np.float64) / 8.0, jnp.asarray)


def center_vec(fam):
  return ((np.arange(NPARAMS[fam]) % 5) - 2) / 4.0


def pweight_vec(fam):
  return (np.arange(NPARAMS[fam]) % 3) / 2.0


REG_WEIGHT = {'l2': 0.25, 'center': 0.5, 'weighted': 0.25, 'center_weighted': 1.0}


@functools.lru_cache(maxsize=None)
def regularizer(fam, kind):
  if kind == 'none':
    return None
  center = to_tree(fam, center_vec(fam), jnp.asarray) if 'center' in kind else None
  pw = to_tree(fam, pweight_vec(fam), jnp.asarray) if 'weighted' in kind else None
  return fedjax.regularizers.l2_regularizer(
      REG_WEIGHT[kind], center_params=center, params_weights=pw)


@functools.lru_cache(maxsize=None)
def grad_fn(fam, reg, api):
  if api == 'model_grad':
    return fedjax.model_grad(_model(fam), regularizer(fam, reg))
  return fedjax.grad(LOSS[fam], regularizer(fam, reg))


@functools.lru_cache(maxsize=None)
def evaluator(fam, reg, backend=None):
  if backend:
    # built under the documented 'pmap' / 'debug' for_each_client backend
    with fedjax.for_each_client_backend(backend):
      return fedjax.AverageLossEvaluator(LOSS[fam], regularizer(fam, reg))
  return fedjax.AverageLossEvaluator(LOSS[fam], regularizer(fam, reg))


@functools.lru_cache(maxsize=None)
def grads_pass(fam, reg):
  return mime.create_grads_for_each_client(grad_fn(fam, reg, 'grad'))


@functools.lru_cache(maxsize=None)
def domain_pass(fam, num_domains, reg):
  if reg == 'none':   # exactly how the packaged algorithm calls it
    return agnostic_fed_avg.create_domain_metrics_for_each_client(LOSS[fam], num_domains)
  return agnostic_fed_avg.create_domain_metrics_for_each_client(
      LOSS[fam], num_domains, regularizer(fam, reg))


@functools.lru_cache(maxsize=64)
def mime_algorithm(site, fam, reg, b, k):
  build = {'mime.mime': mime.mime, 'mime_lite.mime_lite': mime_lite.mime_lite}[site]
  return build(
      LOSS[fam], fedjax.optimizers.sgd(0.5, momentum=0.5),
      fedjax.ShuffleRepeatBatchHParams(batch_size=1, num_steps=0),
      fedjax.PaddedBatchHParams(batch_size=b, num_batch_size_buckets=k),
      1.0, regularizer(fam, reg))


@functools.lru_cache(maxsize=64)
def agnostic_init_weights(num_domains, zero_w):
  if zero_w and num_domains >= 2:
    # domain 0 starts with weight 0: a client holding only that domain has
    # scaling weight beta = 0 -- examples, but none that counts
    return np.asarray([0.0] + [1.0 / (num_domains - 1)] * (num_domains - 1), np.float32)
  return np.full((num_domains,), 1.0 / num_domains, np.float32)


@functools.lru_cache(maxsize=64)
def agnostic_algorithm(fam, num_domains, b, k, reg='none', zero_w=False, steps=0):
  return agnostic_fed_avg.agnostic_federated_averaging(
      LOSS[fam], fedjax.optimizers.sgd(0.5), fedjax.optimizers.sgd(1.0),
      fedjax.ShuffleRepeatBatchHParams(batch_size=1, num_epochs=None, num_steps=steps, seed=0),
      fedjax.PaddedBatchHParams(batch_size=b, num_batch_size_buckets=k),
      init_domain_weights=agnostic_init_weights(num_domains, zero_w),
      domain_learning_rate=0.125, domain_algorithm='eg', domain_window_size=1,
      init_domain_window=np.ones((num_domains,), np.float32),
      regularizer=regularizer(fam, reg))


# ------------------------------------------------------------- float64 oracle

def ref_terms(fam, ints, rows):
  """Per-example losses (n,) and per-example gradients (n, P) in float64."""
  p = np.asarray(ints, np.float64) / 8.0
  rows = np.asarray(rows, np.float64).reshape((-1, len(rows[0]) if rows else 3))
  n = rows.shape[0]
  x = rows[:, :2] / 8.0
  if fam in ('ls', 'huber'):
    y = rows[:, 2] / 8.0
    r = x @ p[:2] + p[2] - y
    if fam == 'ls':
      loss, dr = r * r, 2.0 * r
    else:
      s = np.sqrt(1.0 + r * r)
      loss, dr = r * r / (1.0 + s), r / s
    grads = np.concatenate([dr[:, None] * x, dr[:, None]], axis=1)
    return loss, grads
  labels = rows[:, 2].astype(np.int64)
  logits = x @ p[:6].reshape(2, 3) + p[6:]
  m = logits.max(axis=1, keepdims=True) if n else np.zeros((0, 1))
  e = np.exp(logits - m)
  z = e.sum(axis=1, keepdims=True)
  lse = (m + np.log(z))[:, 0]
  loss = lse - logits[np.arange(n), labels]
  g = e / z
  g[np.arange(n), labels] -= 1.0
  gw = (x[:, :, None] * g[:, None, :]).reshape(n, 6)
  return loss, np.concatenate([gw, g], axis=1)


def ref_reg(fam, kind, ints):
  """Regularizer value and gradient (P,) in float64."""
  p = np.asarray(ints, np.float64) / 8.0
  if kind == 'none':
    return 0.0, np.zeros_like(p)
  d = p - center_vec(fam) if 'center' in kind else p
  pw = pweight_vec(fam) if 'weighted' in kind else np.ones_like(p)
  w = REG_WEIGHT[kind]
  return float(w * np.sum(pw * d * d)), 2.0 * w * pw * d


def amax(a):
  a = np.asarray(a)
  return float(np.max(np.abs(a))) if a.size else 0.0


# ---------------------------------------------------------------- batches

def _target(fam, t):
  return t % 3 if fam == 'ce' else t


def garbage_row(fam, j, with_dom, num_domains=1):
  g = GARBAGE[j % len(GARBAGE)]
  row = [g[0], g[1], _target(fam, g[2])]
  if with_dom:
    row.append(g[3] % num_domains)
  return row


def arrays(fam, rows, with_dom=False):
  """rows [[x0, x1, t(, dom)], ...] -> feature dict of numpy arrays."""
  n = len(rows)
  a = np.asarray(rows, np.int64).reshape((n, 4 if with_dom else 3))
  out = {'x': (a[:, :2] / 8.0).astype(np.float32)}
  if fam == 'ce':
    out['y'] = a[:, 2].astype(np.int32)
  else:
    out['y'] = (a[:, 2] / 8.0).astype(np.float32)
    # sentinel target: +inf (a real example whose loss is +inf)
    out['y'][a[:, 2] == INF_TARGET] = np.inf
  if with_dom:
    out['domain_id'] = a[:, 3].astype(np.int32)
  return out


_PREP = [False]


def _flag_prep(ex):
  """A per-example batch preprocessor that is the identity on every real example
  (whose feature 'one' is 1: log 1 = 0) but is not finite on an all-zero row
  (0 * log 0 = NaN) -- like a row normalisation or a log / ratio feature.
  Padding is documented to be added AFTER preprocessing, so no preprocessor
  ever sees a padding row."""
  with np.errstate(divide='ignore', invalid='ignore'):
    bump = (0.0 * np.log(ex['one'])).astype(np.float32)
  return {**ex, 'x': ex['x'] + bump[:, None]}


PREP = client_datasets_lib.BatchPreprocessor([_flag_prep])


def client_dataset(fam, rows, with_dom=False):
  a = arrays(fam, rows, with_dom)
  if _PREP[0]:
    a['one'] = np.ones((len(rows),), np.float32)
    return fedjax.ClientDataset(a, PREP)
  return fedjax.ClientDataset(a)


def with_prep_flag(run):
  def wrapped(case):
    _PREP[0] = bool(case.get('prep'))
    try:
      return run(case)
    finally:
      _PREP[0] = False
  wrapped.__name__ = run.__name__
  return wrapped


INF_TARGET = 10 ** 6


def laid_batch(fam, rows, entries, garbage, with_dom, num_domains, salt=0):
  """One hand-laid batch: entries are row indices, -1 marks a padding row."""
  width = 4 if with_dom else 3
  full = []
  for j, e in enumerate(entries):
    if e >= 0:
      full.append(rows[e])
    elif garbage:
      full.append(garbage_row(fam, j + salt, with_dom, num_domains))
    else:
      full.append([0] * width)
  batch = arrays(fam, full, with_dom)
  batch[MASK] = np.asarray([e >= 0 for e in entries], np.bool_)
  return batch


def make_batches(fam, rows, geom, ci=0, with_dom=False, num_domains=1):
  """The list of batches presenting `rows` in geometry `geom` (client ci)."""
  if geom['kind'] == 'layout':
    return [laid_batch(fam, rows, entries, geom['garbage'], with_dom, num_domains, bi)
            for bi, entries in enumerate(geom['batches'][ci])]
  ds = client_dataset(fam, rows, with_dom)
  if geom['kind'] == 'plain':
    return list(ds.batch(batch_size=geom['b']))
  view = ds.padded_batch(batch_size=geom['b'], num_batch_size_buckets=geom['k'])
  if geom.get('peek'):
    # the caller looked at the first batch of this view before the pass that
    # is evaluated (shapes for initialisation, a progress bar's length probe)
    next(iter(view), None)
  batches = list(view)
  for pos, size, garbage in geom['pads']:
    batches.insert(pos % (len(batches) + 1),
                   laid_batch(fam, rows, [-1] * size, garbage, with_dom, num_domains, pos))
  return batches


def batch_count(n, geom, ci=0):
  if geom['kind'] == 'layout':
    return len(geom['batches'][ci])
  c = -(-n // geom['b'])
  return c + (len(geom['pads']) if geom['kind'] == 'padded' else 0)


def has_all_padding_batch(geom):
  if geom['kind'] == 'layout':
    return any(all(e < 0 for e in b) for client in geom['batches'] for b in client)
  return geom['kind'] == 'padded' and bool(geom['pads'])


def geoms_of(case):
  return [BASELINE] + list(case['geoms'])


def gname(gi, geom):
  if geom['kind'] == 'layout':
    return f'geometry {gi} layout {geom["batches"]}'
  return f'geometry {gi} {geom}'


def client_id(ci):
  return b'c%d' % ci + (b'\x00' if ci % 2 else b'')


def key(case, ci=0):
  return jax.random.PRNGKey(case['seed'] + ci)


def check_close(got, want, scale, clause, what, factor=1.0):
  got = np.asarray(got, np.float64)
  want = np.asarray(want, np.float64)
  require(got.shape == want.shape, clause + ':shape', lambda: f'{what}: {got.shape} vs {want.shape}')
  require(bool(np.all(np.isfinite(got))), clause + ':not_finite', lambda: f'{what}: got {got.tolist()}')
  tol = TOL * factor * scale
  require(bool(np.all(np.abs(got - want) <= tol)), clause,
          lambda: f'{what}: got {got.tolist()} want {want.tolist()} '
                  f'(max abs diff {amax(got - want):.3e}, tol {tol:.3e})')


# ---------------------------------------------------------------- masked_grad

def run_masked_grad(case):
  fam, reg = case['family'], case['reg']
  gfn = grad_fn(fam, reg, case['site'])
  mask = [bool(m) for m in case['mask']]
  rows = case['rows']
  real = [r for r, m in zip(rows, mask) if m]
  n = len(real)
  _, per_ex = ref_terms(fam, case['params'], real)
  _, reg_grad = ref_reg(fam, reg, case['params'])
  want = (per_ex.mean(axis=0) if n else np.zeros(NPARAMS[fam])) + reg_grad
  scale = 1.0 + amax(per_ex) + amax(reg_grad)
  what = f'{case["site"]}[{fam},{reg}] mask={case["mask"]}'

  batch = arrays(fam, rows)
  batch[MASK] = np.asarray(mask, np.bool_)
  got_pad = from_tree(fam, gfn(params_tree(fam, case['params']), batch, key(case)), what)
  if n == 0:
    check_close(got_pad, want, scale, 'all_padding:grad_not_regularizer_gradient', what)
    return ['all_padding']
  check_close(got_pad, want, scale, 'padded:grad_differs_from_reference', what)
  got_real = from_tree(
      fam, gfn(params_tree(fam, case['params']), arrays(fam, real), key(case)),
      what + ' (real rows, no mask)')
  check_close(got_real, want, scale, 'unpadded:grad_differs_from_reference', what)
  check_close(got_pad, got_real, scale, 'padded_grad_differs_from_unpadded_grad', what, 2.0)
  return []


def labels_grad(case):
  mask = case['mask']
  n, size = sum(mask), len(mask)
  ls = ['site:' + case['site'], 'family:' + case['family'], 'reg:' + case['reg'],
        'B=%d' % size]
  if n == 0:
    ls.append('mask:all_false')
  elif n == size:
    ls.append('mask:all_true')
  elif all(mask[:n]):
    ls.append('mask:prefix')
  else:
    ls.append('mask:scattered')
  pads = [r for r, m in zip(case['rows'], mask) if not m]
  if any(any(r) for r in pads):
    ls.append('pad_rows:garbage')
  elif pads:
    ls.append('pad_rows:zero')
  if any(m and not any(r) for r, m in zip(case['rows'], mask)):
    ls.append('real_all_zero_row')
  ls.append(params_label(case['family'], case['params']))
  return ls


def params_label(fam, ints):
  if not any(ints):
    return 'params:zero'
  if list(ints) == [int(v) for v in center_vec(fam) * 8]:
    return 'params:at_centre'
  return 'params:generic'


def nontrivial_grad(case, ls):
  return sum(case['mask']) < len(case['mask'])


# ----------------------------------------------------- dataset-level helpers

def client_refs(case, ci, ints):
  rows = case['clients'][ci]
  losses, grads = ref_terms(case['family'], ints, rows)
  return losses, grads


def dataset_labels(case):
  ls = ['site:' + case['site'], 'family:' + case['family'], 'reg:' + case['reg'],
        'clients=%d' % len(case['clients'])]
  sizes = [len(c) for c in case['clients']]
  if case.get('prep'):
    ls.append('preprocessor_not_finite_on_zero_rows')
  if any(len(r) > 2 and r[2] == INF_TARGET for c in case['clients'] for r in c):
    ls.append('real_example_with_infinite_loss')
  if 0 in sizes:
    ls.append('client_without_examples')
  if sum(sizes) == 0:
    ls.append('no_example_at_all')
  geoms = geoms_of(case)
  for g in case['geoms']:
    ls.append('geom:' + g['kind'])
    if g['kind'] != 'plain' and g.get('k', 1) > 1:
      ls.append('buckets>1')
    if g['kind'] == 'layout' and g['garbage']:
      ls.append('pad_rows:garbage')
  if any(has_all_padding_batch(g) for g in geoms):
    ls.append('all_padding_batch')
  if any(len({batch_count(n, g, ci) for g in geoms}) >= 2 for ci, n in enumerate(sizes)):
    ls.append('batch_counts_differ')
  if any(len({batch_count(n, g, ci) for g in geoms}) >= 3 for ci, n in enumerate(sizes)):
    ls.append('batch_counts>=3_distinct')
  plist = case['params'] if isinstance(case['params'][0], list) else [case['params']]
  ls.append(params_label(case['family'], plist[0]))
  if any(not any(r[:3]) for c in case['clients'] for r in c):
    ls.append('real_all_zero_row')
  return ls


def dataset_nontrivial(case, ls):
  reg_matters = case['reg'] != 'none' or case['site'].startswith('agnostic')
  return (('batch_counts_differ' in ls and reg_matters) or 'all_padding_batch' in ls
          or 'client_without_examples' in ls)


# --------------------------------------------------------------- average_loss

def run_average_loss(case):
  fam, reg, site = case['family'], case['reg'], case['site']
  nc = len(case['clients'])
  per_client = site == 'AverageLossEvaluator.evaluate_per_client_params'
  pints = [case['params'][ci if per_client else 0] for ci in range(nc)]
  want, scale = [], []
  infinite = [any(r[2] == INF_TARGET for r in case['clients'][ci]) for ci in range(nc)]
  for ci in range(nc):
    if infinite[ci]:
      # a real example with an infinite loss: the average is +inf, padded or not
      want.append(np.inf)
      scale.append(1.0)
      continue
    losses, _ = client_refs(case, ci, pints[ci])
    rv, _ = ref_reg(fam, reg, pints[ci])
    want.append((losses.mean() if losses.size else 0.0) + rv)
    scale.append(1.0 + amax(losses) + abs(rv))
  base = None
  for gi, geom in enumerate(geoms_of(case)):
    batches = [make_batches(fam, case['clients'][ci], geom, ci) for ci in range(nc)]
    if case.get('batches_as') == 'iterator':
      # a client's batches as the one-shot iterator the centralised producers
      # (padded_batch_client_datasets, a generator over a view) hand out
      batches = [iter(b) if ci % 2 else (x for x in b) for ci, b in enumerate(batches)]
    if site == 'evaluate_average_loss':
      got = [fedjax.evaluate_average_loss(
          params_tree(fam, pints[ci]), batches[ci], key(case, ci), LOSS[fam],
          regularizer(fam, reg)) for ci in range(nc)]
    else:
      ev = evaluator(fam, reg)
      if per_client:
        out = list(ev.evaluate_per_client_params(
            [(client_id(ci), batches[ci], key(case, ci), params_tree(fam, pints[ci]))
             for ci in range(nc)]))
      else:
        out = list(ev.evaluate_global_params(
            params_tree(fam, pints[0]),
            [(client_id(ci), batches[ci], key(case, ci)) for ci in range(nc)]))
      require([cid for cid, _ in out] == [client_id(ci) for ci in range(nc)],
              'evaluator:client_ids', lambda: f'{[cid for cid, _ in out]}')
      got = [v for _, v in out]
    got = [np.asarray(v, np.float64) for v in got]
    for ci in range(nc):
      what = f'{site}[{fam},{reg}] client {ci} (n={len(case["clients"][ci])}) {gname(gi, geom)}'
      require(got[ci].shape == (), 'average_loss:not_scalar', lambda: f'{what}: {got[ci].shape}')
      clause = ('no_examples:average_loss_not_regularizer_only' if not case['clients'][ci]
                else 'average_loss:differs_from_reference')
      if infinite[ci]:
        require(bool(np.isposinf(got[ci])), 'average_loss:infinite_loss_of_a_real_example_lost',
                lambda: f'{what}: a real example has loss +inf, the average came out as '
                        f'{got[ci].tolist()}')
        continue
      check_close(got[ci], want[ci], scale[ci], clause, what)
      if base is not None:
        check_close(got[ci], base[ci], scale[ci], 'average_loss:depends_on_geometry',
                    what + ' vs baseline geometry', 2.0)
    if base is None:
      base = got
  return []


# ------------------------------------------------------------- cluster_losses

def run_cluster_losses(case):
  fam, reg = case['family'], case['reg']
  nc, nk = len(case['clients']), len(case['params'])
  want = np.zeros((nc, nk))
  scale = np.ones((nc,))
  for ci in range(nc):
    for kj in range(nk):
      losses, _ = client_refs(case, ci, case['params'][kj])
      rv, _ = ref_reg(fam, reg, case['params'][kj])
      want[ci, kj] = (losses.mean() if losses.size else 0.0) + rv
      scale[ci] = max(scale[ci], 1.0 + amax(losses) + abs(rv))
  base = None
  extra = []
  for gi, geom in enumerate(geoms_of(case)):
    hp = fedjax.PaddedBatchHParams(batch_size=geom['b'], num_batch_size_buckets=geom['k'])
    # on the pmap backend (which stacks the j-th batches of a block of clients
    # and yields clients ordered by their number of batches) for the
    # geometries it can stack: one padded size for every batch
    ev = evaluator(fam, reg, case.get('backend') if geom['k'] == 1 else None)
    if case.get('backend') and geom['k'] == 1 and gi > 0:
      extra.append('on_' + case['backend'] + '_backend')
    clients = [(client_id(ci), client_dataset(fam, case['clients'][ci]),
                key(case, ci)) for ci in range(nc)]
    cluster_params = [params_tree(fam, p) for p in case['params']]
    out = hyp_cluster._cluster_losses(  # pylint: disable=protected-access
        evaluator=ev, cluster_params=cluster_params, clients=clients, batch_hparams=hp)
    require(sorted(out) == sorted(client_id(ci) for ci in range(nc)), 'cluster_losses:client_ids',
            lambda: f'{sorted(out)}')
    got = np.zeros((nc, nk))
    for ci in range(nc):
      vals = out[client_id(ci)]
      require(len(vals) == nk, 'cluster_losses:count', lambda: f'{len(vals)} vs {nk} clusters')
      got[ci] = [float(np.asarray(v, np.float64)) for v in vals]
    assign = hyp_cluster.maximization_step(
        evaluator=ev, cluster_params=[params_tree(fam, p) for p in case['params']],
        clients=clients, batch_hparams=hp)
    for ci in range(nc):
      what = (f'hyp_cluster[{fam},{reg}] client {ci} (n={len(case["clients"][ci])}) '
              f'{gname(gi, geom)}')
      clause = ('no_examples:cluster_loss_not_regularizer_only' if not case['clients'][ci]
                else 'cluster_loss:differs_from_reference')
      check_close(got[ci], want[ci], scale[ci], clause, what)
      if base is not None:
        check_close(got[ci], base[ci], scale[ci], 'cluster_loss:depends_on_geometry',
                    what + ' vs baseline geometry', 2.0)
      order = np.sort(want[ci])
      if nk >= 2 and order[1] - order[0] > 1e-4 * scale[ci]:
        a = int(np.asarray(assign[client_id(ci)]))
        require(a == int(np.argmin(want[ci])), 'maximization_step:not_argmin_of_average_loss',
                lambda: f'{what}: assigned {a}, reference losses {want[ci].tolist()}')
        if gi == 0:
          extra.append('argmin_asserted')
    if base is None:
      base = got
    if gi <= 1:
      # The k-means++ initializer of HypCluster ranks clients by the same
      # quantity (a client's average loss under a candidate center, regularizer
      # included once); it exists only inside the initializer's evaluator.
      init = hyp_cluster.ModelKMeansInitializer(
          _model(fam), fedjax.optimizers.sgd(0.125), regularizer(fam, reg))
      ev2 = getattr(init, '_evaluator', None)
      if ev2 is not None:
        for kj in range(nk):
          out2 = dict(ev2.evaluate_global_params(
              params_tree(fam, case['params'][kj]),
              [(cid, ds.padded_batch(hp), k_) for cid, ds, k_ in clients]))
          for ci in range(nc):
            v = float(np.asarray(out2[client_id(ci)], np.float64))
            check_close(np.asarray([v]), want[ci, kj:kj + 1], scale[ci],
                        'kmeans_init:client_loss_differs_from_reference',
                        f'ModelKMeansInitializer[{fam},{reg}] client {ci} center {kj} '
                        f'{gname(gi, geom)}')
        extra.append('kmeans_initializer_losses_checked')
  return sorted(set(extra))


# ----------------------------------------------------------------- mime_grads

def run_mime_grads(case):
  fam, reg, site = case['family'], case['reg'], case['site']
  nc = len(case['clients'])
  ints = case['params']
  _, reg_grad = ref_reg(fam, reg, ints)
  per_ex = [client_refs(case, ci, ints)[1] for ci in range(nc)]
  sizes = [len(c) for c in case['clients']]
  want_sum = [per_ex[ci].sum(axis=0) + sizes[ci] * reg_grad for ci in range(nc)]
  sum_scale = [1.0 + float(np.abs(per_ex[ci]).sum(axis=0).max()) + sizes[ci] * amax(reg_grad)
               for ci in range(nc)]
  # the cohort as occurrences: with case['repeat'] one client is listed a second
  # time (a cohort sampled with replacement; packaged algorithm sites only)
  occ = list(range(nc))
  if case.get('repeat') is not None and site != 'mime.create_grads_for_each_client' and nc:
    occ.insert(case['repeat'] % (nc + 1), case['repeat'] % nc)
  total = sum(sizes[ci] for ci in occ)
  if total:
    want_server = sum(per_ex[ci].sum(axis=0) for ci in occ) / total + reg_grad
  else:
    want_server = np.zeros(NPARAMS[fam])
  server_scale = 1.0 + max(amax(p) for p in per_ex) + amax(reg_grad)
  base = None
  for gi, geom in enumerate(geoms_of(case)):
    if site == 'mime.create_grads_for_each_client':
      clients = [(client_id(ci), make_batches(fam, case['clients'][ci], geom, ci), key(case, ci))
                 for ci in range(nc)]
      out = list(grads_pass(fam, reg)(params_tree(fam, ints), clients))
      require([cid for cid, _ in out] == [client_id(ci) for ci in range(nc)],
              'grads_pass:client_ids', lambda: f'{[cid for cid, _ in out]}')
      got = []
      for ci, (_, (grads_sum, num_sum)) in enumerate(out):
        what = f'{site}[{fam},{reg}] client {ci} (n={sizes[ci]}) {gname(gi, geom)}'
        num = np.asarray(num_sum, np.float64)
        require(num.shape == () and float(num) == float(sizes[ci]), 'grads_pass:num_sum',
                lambda: f'{what}: num_sum {num.tolist()} vs {sizes[ci]} real examples')
        g = from_tree(fam, grads_sum, what)
        clause = ('no_examples:grads_sum_not_zero' if sizes[ci] == 0
                  else 'grads_pass:grads_sum_differs_from_reference')
        check_close(g, want_sum[ci], sum_scale[ci], clause, what)
        if sizes[ci] == 0:
          require(not g.any(), 'no_examples:grads_sum_not_zero', lambda: f'{what}: {g.tolist()}')
        if base is not None:
          check_close(g, base[ci], sum_scale[ci], 'grads_pass:grads_sum_depends_on_geometry',
                      what + ' vs baseline geometry', 2.0)
        got.append(g)
    else:
      alg = mime_algorithm(site, fam, reg, geom['b'], geom['k'])
      state = alg.init(params_tree(fam, ints))
      clients = [(client_id(ci), client_dataset(fam, case['clients'][ci]),
                  key(case, ci)) for ci in occ]
      new_state, _ = alg.apply(state, clients)
      what = f'{site}[{fam},{reg}] sizes {[sizes[ci] for ci in occ]} {gname(gi, geom)}'
      trace = new_state.opt_state[0].trace
      g = from_tree(fam, trace, what)
      clause = ('no_examples:server_grads_not_zero' if total == 0
                else 'server_grads:differ_from_full_batch_gradient')
      check_close(g, want_server, server_scale, clause, what)
      if total == 0:
        require(not g.any(), 'no_examples:server_grads_not_zero', lambda: f'{what}: {g.tolist()}')
      if base is not None:
        check_close(g, base[0], server_scale, 'server_grads:depend_on_geometry',
                    what + ' vs baseline geometry', 2.0)
      got = [g]
    if base is None:
      base = got
  return []


# ------------------------------------------------------------- domain_metrics

def run_domain_metrics(case):
  fam, reg, site = case['family'], case['reg'], case['site']
  nd = case['num_domains']
  nc = len(case['clients'])
  ints = case['params']
  alpha = np.asarray(case['alpha'], np.float64) / 8.0
  sizes = [len(c) for c in case['clients']]
  want_loss, want_num, scale = [], [], []
  for ci in range(nc):
    rows = case['clients'][ci]
    losses, _ = ref_terms(fam, ints, [r[:3] for r in rows])
    dom = np.asarray([r[3] for r in rows], np.int64)
    want_loss.append(np.asarray([losses[dom == d].sum() for d in range(nd)]))
    want_num.append(np.asarray([float((dom == d).sum()) for d in range(nd)]))
    scale.append(1.0 + float(np.abs(losses).sum()))
  base = None
  for gi, geom in enumerate(geoms_of(case)):
    if site == SITE_DOMAIN:
      clients = [(client_id(ci),
                  make_batches(fam, case['clients'][ci], geom, ci, with_dom=True, num_domains=nd),
                  key(case, ci)) for ci in range(nc)]
      shared = {'params': params_tree(fam, ints), 'alpha': jnp.asarray(alpha, jnp.float32)}
      out = list(domain_pass(fam, nd, reg)(shared, clients))
      require([cid for cid, _ in out] == [client_id(ci) for ci in range(nc)],
              'domain_metrics:client_ids', lambda: f'{[cid for cid, _ in out]}')
      got = []
      for ci, (_, o) in enumerate(out):
        what = f'{site}[{fam},{reg},D={nd}] client {ci} (n={sizes[ci]}) {gname(gi, geom)}'
        require(set(o) == {'domain_loss', 'domain_num', 'beta'}, 'domain_metrics:keys',
                lambda: f'{what}: {sorted(o)}')
        num = np.asarray(o['domain_num'], np.float64)
        require(num.shape == (nd,) and num.tolist() == want_num[ci].tolist(),
                'domain_num:differs_from_real_example_counts',
                lambda: f'{what}: got {num.tolist()} want {want_num[ci].tolist()}')
        check_close(o['beta'], float(alpha @ want_num[ci]), 1.0 + float(alpha @ want_num[ci]),
                    'beta:differs_from_alpha_dot_domain_num', what)
        dl = np.asarray(o['domain_loss'], np.float64)
        if reg == 'none':
          clause = ('no_examples:domain_loss_not_zero' if sizes[ci] == 0
                    else 'domain_loss:differs_from_reference')
          check_close(dl, want_loss[ci], scale[ci], clause, what)
        else:
          # No reference semantics with a regularizer (sum vs mean): only
          # independence of the batch geometry is decidable.
          require(dl.shape == (nd,) and bool(np.all(np.isfinite(dl))), 'domain_loss:not_finite',
                  lambda: f'{what}: {dl.tolist()}')
        if base is not None:
          rscale = scale[ci] + abs(ref_reg(fam, reg, ints)[0])
          check_close(dl, base[ci], rscale, 'domain_loss:depends_on_geometry',
                      what + ' vs baseline geometry', 2.0)
        got.append(dl)
    else:
      # Packaged algorithm: the window holds the summed counts, the domain
      # weights are the EG update with the mean per-domain loss.
      zero_w = bool(case.get('zero_weight_domain'))
      # (one local step when every client has an example to draw, else none)
      steps = 1 if (case.get('local_step') and all(sizes)) else 0
      alg = agnostic_algorithm(fam, nd, geom['b'], geom['k'], reg, zero_w, steps)
      state = alg.init(params_tree(fam, ints))
      clients = [(client_id(ci),
                  client_dataset(fam, case['clients'][ci], with_dom=True),
                  key(case, ci)) for ci in range(nc)]
      new_state, _ = alg.apply(state, clients)
      what = f'{site}[{fam},{reg},D={nd}] sizes {sizes} {gname(gi, geom)}'
      tot_num = sum(want_num)
      tot_loss = sum(want_loss)
      window = np.asarray(new_state.domain_window[-1], np.float64)
      require(window.shape == (nd,) and window.tolist() == tot_num.tolist(),
              'domain_num:differs_from_real_example_counts',
              lambda: f'{what}: window {window.tolist()} want {tot_num.tolist()}')
      mean = np.where(tot_num > 0, tot_loss / np.maximum(tot_num, 1.0), 0.0)
      w = np.exp(0.125 * mean) * agnostic_init_weights(nd, zero_w).astype(np.float64)
      w = w / w.sum()
      # finite inputs, finite round: also for a client all of whose examples lie
      # in a domain of weight 0 (its scaled loss is 0, and so is its gradient)
      leaves = jax.tree_util.tree_leaves(new_state.params)
      require(all(bool(np.isfinite(np.asarray(l)).all()) for l in leaves),
              'agnostic:non_finite_params_after_a_round_over_finite_inputs',
              lambda: f'{what}: zero-weight domain {zero_w}, local steps {steps}')
      got_w = np.asarray(new_state.domain_weights, np.float64)
      # d w_d / d mean_d <= lr * w_d, so TOL * (1 + max mean loss) covers it.
      if reg == 'none':
        check_close(got_w, w, 1.0 + amax(mean), 'domain_weights:differ_from_eg_update_of_mean_loss',
                    what)
      else:
        # With a regularizer passed to the packaged algorithm there is no
        # documented reference for the per-domain loss (with or without the
        # regularizer term); what is decidable is that the domain weights are a
        # finite probability vector and do not depend on the batch geometry.
        require(bool(np.all(np.isfinite(got_w))) and abs(float(got_w.sum()) - 1.0) <= 1e-5,
                'domain_weights:not_a_probability_vector', lambda: f'{what}: {got_w.tolist()}')
      if base is not None:
        check_close(got_w, base[0], 1.0 + amax(mean), 'domain_weights:depend_on_geometry',
                    what + ' vs baseline geometry', 2.0)
      got = [got_w]
    if base is None:
      base = got
  return []


def domain_labels(case):
  ls = dataset_labels(case)
  ls.append('D=%d' % case['num_domains'])
  if case['site'] == SITE_DOMAIN and case['reg'] == 'none':
    ls.append(KNOWN_DOMAIN_REG)
  doms = {r[3] for c in case['clients'] for r in c}
  if len(doms) < case['num_domains']:
    ls.append('empty_domain')
  return ls


# ----------------------------------------------------------------- strategies

def row_strategy(fam, num_domains=0):
  # sampled_from is uniform; st.integers would over-produce 0 and the bounds.
  x = st.sampled_from(list(range(-8, 9)))
  t = st.integers(0, 2) if fam == 'ce' else st.sampled_from(list(range(-32, 33)))
  parts = [x, x, t]
  zero = [0, 0, 0]
  if num_domains:
    parts.append(st.integers(0, num_domains - 1))
    generic = st.tuples(*parts).map(list)
    return st.one_of([generic] * 9 +
                     [st.integers(0, num_domains - 1).map(lambda d: zero + [d])])
  generic = st.tuples(*parts).map(list)
  return st.one_of([generic] * 9 + [st.just(zero)])


def params_strategy(fam):
  n = NPARAMS[fam]
  # The style is drawn first so that Hypothesis' preference for small values
  # does not turn most parameter vectors into the all-zero one.
  def build(style):
    if style == 'zero':
      return st.just([0] * n)
    if style == 'centre':
      return st.just([int(v) for v in center_vec(fam) * 8])
    if style == 'big':
      return st.lists(st.sampled_from([-16, -12, -8, 8, 12, 16]), min_size=n, max_size=n)
    return st.lists(st.sampled_from(list(range(-16, 17))), min_size=n, max_size=n)
  return st.sampled_from(['big', 'generic', 'generic', 'big', 'generic', 'zero', 'generic',
                          'centre']).flatmap(build)


def clients_strategy(tier, fam, num_domains=0):
  one = st.sampled_from(CLIENT_SIZES[tier]).flatmap(
      lambda n: st.lists(row_strategy(fam, num_domains), min_size=n, max_size=n))
  return st.lists(one, min_size=1, max_size=MAX_CLIENTS[tier])


@st.composite
def layout_strategy(draw, tier, n):
  """Batches (lists of row indices / -1) holding every row 0..n-1 exactly once."""
  nb = draw(st.integers(1, 4))
  order = draw(st.permutations(list(range(n)))) if n else []
  where = [draw(st.integers(0, nb - 1)) for _ in range(n)]
  batches = []
  for b in range(nb):
    members = [r for r, w in zip(order, where) if w == b]
    size = draw(st.sampled_from([s for s in SIZES[tier] if s >= max(1, len(members))]))
    slots = draw(st.permutations(list(range(size))))[:len(members)]
    entries = [-1] * size
    for r, s in zip(members, slots):
      entries[s] = r
    batches.append(entries)
  return batches


@st.composite
def geom_strategy(draw, tier, sizes, kinds):
  kind = draw(st.sampled_from(kinds))
  if kind == 'plain':
    return {'kind': 'plain', 'b': draw(st.sampled_from([1, 2, 3, 4, 8, 16]))}
  if kind == 'layout':
    return {'kind': 'layout', 'garbage': draw(st.booleans()),
            'batches': [draw(layout_strategy(tier, n)) for n in sizes]}
  geom = {'kind': 'padded', 'b': draw(st.sampled_from(SIZES[tier])),
          'k': draw(st.sampled_from([1, 1, 2, 3]))}
  if kind == 'padded+':
    geom['pads'] = draw(st.lists(
        st.tuples(st.integers(0, 9), st.sampled_from(SIZES[tier]), st.booleans()).map(list),
        min_size=1, max_size=2))
  else:
    geom['pads'] = []
  if draw(st.sampled_from([0, 0, 1])):
    geom['peek'] = True
  return geom


def geoms_strategy(tier, sizes, kinds):
  return st.lists(geom_strategy(tier, sizes, kinds), min_size=1, max_size=MAX_GEOMS[tier])


@st.composite
def grad_case(draw, tier):
  fam = draw(st.sampled_from(FAMILIES))
  size = draw(st.sampled_from(SIZES[tier]))
  style = draw(st.sampled_from(['scattered', 'prefix', 'scattered', 'none', 'scattered', 'all']))
  if style == 'scattered':
    # The unpadded comparison call compiles once per number of real rows:
    # prefer counts from the size menu.
    hi = max(1, size - 1)
    n = draw(st.sampled_from([s for s in SIZES[tier] if s <= hi] * 2 +
                             list(range(1, hi + 1))))
    slots = sorted(draw(st.permutations(list(range(size))))[:n])
    mask = [int(j in slots) for j in range(size)]
  elif style == 'prefix':
    n = draw(st.sampled_from([s for s in SIZES[tier] if s <= size] + list(range(0, size + 1))))
    mask = [1] * n + [0] * (size - n)
  else:
    mask = [int(style == 'all')] * size
  garbage = draw(st.booleans())
  rows = []
  for m in mask:
    if m or garbage:
      rows.append(draw(row_strategy(fam)))
    else:
      rows.append([0, 0, 0])
  return {'site': draw(st.sampled_from(['grad', 'model_grad'])), 'family': fam,
          'reg': draw(st.sampled_from(REGS)), 'params': draw(params_strategy(fam)),
          'mask': mask, 'rows': rows, 'seed': draw(st.integers(0, 2**31 - 8))}


@st.composite
def average_loss_case(draw, tier):
  fam = draw(st.sampled_from(FAMILIES))
  site = draw(st.sampled_from(['evaluate_average_loss',
                               'AverageLossEvaluator.evaluate_global_params',
                               'AverageLossEvaluator.evaluate_per_client_params']))
  clients = draw(clients_strategy(tier, fam))
  nparams = len(clients) if site.endswith('per_client_params') else 1
  sizes = [len(c) for c in clients]
  regs = REGS if site == 'evaluate_average_loss' else REGS_OPAQUE
  if fam == 'ls' and clients and clients[0] and draw(st.integers(0, 5)) == 0:
    # one real example of client 0 has an infinite target, hence an infinite loss
    clients[0][draw(st.integers(0, len(clients[0]) - 1))][2] = INF_TARGET
  return {'site': site, 'family': fam, 'reg': draw(st.sampled_from(regs)),
          'params': [draw(params_strategy(fam)) for _ in range(nparams)],
          'clients': clients,
          'geoms': draw(geoms_strategy(tier, sizes, ['padded', 'padded+', 'layout', 'layout', 'plain'])),
          'seed': draw(st.integers(0, 2**31 - 8)),
          'prep': draw(st.integers(0, 3)) == 0,
          'batches_as': draw(st.sampled_from(['list', 'list', 'iterator']))}


@st.composite
def cluster_case(draw, tier):
  fam = draw(st.sampled_from(FAMILIES))
  clients = draw(clients_strategy(tier, fam))
  sizes = [len(c) for c in clients]
  return {'site': 'hyp_cluster.cluster_losses', 'family': fam,
          'reg': draw(st.sampled_from(REGS_OPAQUE)),
          'params': [draw(params_strategy(fam)) for _ in range(draw(st.integers(2, 3)))],
          'clients': clients, 'geoms': draw(geoms_strategy(tier, sizes, ['padded'])),
          'seed': draw(st.integers(0, 2**31 - 8)),
          'prep': draw(st.integers(0, 3)) == 0,
          'backend': draw(st.sampled_from([None, None, 'pmap', 'debug']))}


@st.composite
def mime_case(draw, tier):
  fam = draw(st.sampled_from(FAMILIES))
  site = draw(st.sampled_from(['mime.create_grads_for_each_client'] * 4 +
                              ['mime.mime', 'mime_lite.mime_lite']))
  clients = draw(clients_strategy(tier, fam))
  sizes = [len(c) for c in clients]
  direct = site == 'mime.create_grads_for_each_client'
  kinds = ['padded', 'padded+', 'layout', 'layout'] if direct else ['padded']
  geoms = draw(geoms_strategy(tier, sizes, kinds))
  return {'site': site, 'family': fam, 'reg': draw(st.sampled_from(REGS_OPAQUE)),
          'params': draw(params_strategy(fam)), 'clients': clients,
          'geoms': geoms if direct else geoms[:2],
          'seed': draw(st.integers(0, 2**31 - 8)),
          'prep': draw(st.integers(0, 3)) == 0,
          'repeat': None if direct else draw(st.sampled_from([None, None, 0, 1, 2]))}


@st.composite
def domain_case(draw, tier):
  fam = draw(st.sampled_from(FAMILIES))
  nd = draw(st.sampled_from([1, 2, 2, 3, 3]))
  site = draw(st.sampled_from([SITE_DOMAIN] * 5 + ['agnostic.agnostic_federated_averaging']))
  clients = draw(clients_strategy(tier, fam, nd))
  sizes = [len(c) for c in clients]
  direct = site == SITE_DOMAIN
  kinds = ['padded', 'padded+', 'layout', 'layout'] if direct else ['padded']
  geoms = draw(geoms_strategy(tier, sizes, kinds))
  # The open finding (regularizer passed DIRECTLY to the domain-metrics pass) is
  # excluded by construction: reg is always 'none' at that site.  The packaged
  # algorithm takes a regularizer (it must not make the domain weights depend on
  # the batch geometry).
  reg = 'none' if direct else draw(st.sampled_from(REGS_OPAQUE))
  if not direct and nd >= 2 and draw(st.booleans()):
    # the round this site is about: every client has examples, client 0 only in
    # domain 0, whose weight starts at 0, and there is a local step to take
    clients = [c for c in clients if c] or [[[1, 2, _target(fam, 3), 0]]]
    for row in clients[0]:
      row[3] = 0
    return {'site': site, 'family': fam, 'reg': reg, 'num_domains': nd,
            'alpha': draw(st.lists(st.integers(0, 16), min_size=nd, max_size=nd)),
            'params': draw(params_strategy(fam)), 'clients': clients,
            'geoms': geoms[:2], 'seed': draw(st.integers(0, 2**31 - 8)),
            'prep': False, 'zero_weight_domain': True, 'local_step': True}
  return {'site': site, 'family': fam, 'reg': reg, 'num_domains': nd,
          'alpha': draw(st.lists(st.integers(0, 16), min_size=nd, max_size=nd)),
          'params': draw(params_strategy(fam)), 'clients': clients,
          'geoms': geoms if direct else geoms[:2],
          'seed': draw(st.integers(0, 2**31 - 8)),
          'prep': draw(st.integers(0, 3)) == 0,
          'zero_weight_domain': (not direct) and draw(st.booleans()),
          'local_step': (not direct) and draw(st.booleans())}


# ------------------------------- per-domain counts with a low-precision loss

def _ls_loss_bf16(params, batch, rng):
  return _ls_loss(params, batch, rng).astype(jnp.bfloat16)


@functools.lru_cache(maxsize=None)
def _domain_pass_bf16(nd):
  return agnostic_fed_avg.create_domain_metrics_for_each_client(_ls_loss_bf16, nd)


def run_domain_counts_low_precision(case):
  """The per-domain example COUNT is the number of real rows of that domain,
  whatever the dtype of the per-example loss and however many rows of a domain
  share one padded batch (hundreds: beyond what bfloat16 can count)."""
  nd = 2
  n0, n1 = case['n0'], case['n1']
  rows = [[(j * 7) % 17 - 8, (j * 3) % 13 - 6, (j * 5) % 9 - 4, 0 if j < n0 else 1]
          for j in range(n0 + n1)]
  if case['interleave']:
    rows = rows[::2] + rows[1::2]
  want = [float(sum(1 for r in rows if r[3] == d)) for d in range(nd)]
  shared = {'params': params_tree('ls', case['params']),
            'alpha': jnp.asarray([0.5, 0.25], jnp.float32)}
  for b in case['batch_sizes']:
    geom = {'kind': 'padded', 'b': b, 'k': case['k'], 'pads': []}
    batches = make_batches('ls', rows, geom, 0, with_dom=True, num_domains=nd)
    out = list(_domain_pass_bf16(nd)(shared, [(client_id(0), batches, jax.random.PRNGKey(0))]))
    require(len(out) == 1, 'domain_metrics:client_ids', f'{len(out)} results')
    num = np.asarray(out[0][1]['domain_num'], np.float64)
    require(num.tolist() == want, 'domain_num:differs_from_real_example_counts',
            f'bfloat16 per-example loss, {n0}+{n1} rows, padded batch size {b} '
            f'(buckets {case["k"]}): counts {num.tolist()} want {want}')
    beta = float(np.asarray(out[0][1]['beta'], np.float64))
    require(abs(beta - (0.5 * want[0] + 0.25 * want[1])) <= 1e-3 * (1 + 0.5 * want[0]),
            'beta:differs_from_alpha_dot_domain_num', f'batch size {b}: beta {beta}')
  return []


@st.composite
def domain_counts_case(draw, tier):
  return {'n0': draw(st.sampled_from([300, 400, 257, 513])),
          'n1': draw(st.sampled_from([0, 200, 3])),
          'interleave': draw(st.booleans()),
          'batch_sizes': draw(st.sampled_from([[64, 512], [300, 512], [512, 1024]])),
          'k': draw(st.sampled_from([1, 2])),
          'params': draw(params_strategy('ls'))}


CHECKS = [
    Check(name='masked_grad', run=run_masked_grad, strategy=grad_case,
          labels=labels_grad, nontrivial=nontrivial_grad,
          budget={'quick': 480, 'thorough': 9000}, time_share=2.0,
          doc='fedjax.grad / model_grad on a padded batch (arbitrary mask, incl. '
              'all-False) == on the real rows without mask == float64 closed-form '
              'gradient of mean(loss)+regularizer; finite'),
    Check(name='average_loss', run=with_prep_flag(run_average_loss), strategy=average_loss_case,
          labels=dataset_labels, nontrivial=dataset_nontrivial,
          budget={'quick': 256, 'thorough': 8000}, time_share=2.5,
          doc='evaluate_average_loss and AverageLossEvaluator (global / per-client '
              'params): every geometry == float64 mean loss + regularizer once == '
              'baseline geometry; no example => regularizer only'),
    Check(name='cluster_losses', run=with_prep_flag(run_cluster_losses), strategy=cluster_case,
          labels=dataset_labels, nontrivial=dataset_nontrivial,
          budget={'quick': 96, 'thorough': 2500}, time_share=1.2,
          doc='HypCluster per-(client, cluster) average losses and the '
              'maximization_step assignment for every (batch_size, buckets)'),
    Check(name='mime_grads', run=with_prep_flag(run_mime_grads), strategy=mime_case,
          labels=dataset_labels, nontrivial=dataset_nontrivial,
          budget={'quick': 192, 'thorough': 6000}, time_share=3.5,
          doc='Mime gradient pass: per-client (sum of grad*num, num) and the '
              'full-batch server gradient of mime / mime_lite for every geometry'),
    Check(name='domain_counts_low_precision_loss', run=run_domain_counts_low_precision,
          strategy=domain_counts_case,
          labels=lambda c: ['n0=%d' % c['n0'], 'n1=%d' % c['n1'], 'k=%d' % c['k']],
          nontrivial=lambda c, ls: c['n1'] > 0,
          budget={'quick': 32, 'thorough': 320}, time_share=0.8,
          doc='agnostic per-domain pass with a bfloat16 per-example loss and padded '
              'batches that hold several hundred real rows of one domain: the domain '
              'counts are the exact numbers of real rows for every batch size'),
    Check(name='domain_metrics', run=with_prep_flag(run_domain_metrics), strategy=domain_case,
          labels=domain_labels, nontrivial=dataset_nontrivial,
          budget={'quick': 192, 'thorough': 6000}, time_share=2.5,
          doc='agnostic FedAvg per-domain loss sums / counts / beta per client and '
              'the window + EG domain weights of the packaged algorithm for every '
              'geometry (regularizer None: open finding excluded by construction)'),
]
