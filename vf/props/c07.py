"""C07 -- Aggregation is the exact weighted mean and never harms its inputs.

Observed through fedjax.tree_util.tree_mean / tree_sum /
tree_clip_by_global_norm and fedjax.aggregators.mean_aggregator().apply.

Generated domain: a pytree template (dict/list/tuple nesting <= 3, 1-5 leaves,
leaf shapes from a small menu, dtypes f32/f16/i32), 1..7 (thorough: 1..12)
clients with explicit leaf values and explicit non-negative weights, the kind
of the weight objects (python float / python int / numpy float32 / jax float32
scalar), the kind of the leaf arrays (jax / numpy), the kind of the input
iterable (list / tuple / generator / zip / an iterable that can be iterated
only once) and a permutation of the clients.

Oracle: float64 numpy, leaf by leaf, with the a-priori rounding bound of the
documented algorithm; buffer liveness (`is_deleted`), byte snapshots and
device-buffer pointers for the "never harms its inputs" clauses.
"""
import json
import math

import numpy as np
from hypothesis import strategies as st

import jax
import jax.numpy as jnp

import fedjax
from fedjax.core import tree_util

from vf.core import Check, Discard, require

PROPERTY_ID = 'C07'
NEEDS_TF = False
LEVEL = 'exploration'
RULE = (
    'Hypothesis draws a pytree template (dict/list/tuple nesting <=3, 1-5 '
    'leaves, shapes from {(),(0,),(1,),(3,),(2,2)} (+(5,),(2,3) thorough), '
    'dtypes f32/f16/i32), 1-7 clients (thorough 1-12) with explicit leaf '
    'values (f32: normal numbers 2^-64<=|x|<=2^64, small dyadics, +-0, '
    'extremes, copies/negations of client 0; f16: k/16 with |k|<=32; i32: '
    '|x|<=1e5), explicit weights (pattern all-positive / some zero / single '
    'non-zero / all zero / all equal; multiples of 1/8 in [1/8,1024], plus '
    '2^-20..2^20 for trees without f16 leaves), the weight object kind, the '
    'leaf array kind, the iterable kind and a permutation. Clip cases draw '
    'one tree and a bound that is either absolute or a ratio of the true '
    'norm (far below / within rounding of / far above it). A mean/sum case '
    'is non-trivial when it has >=2 clients, >=2 distinct non-zero weights '
    '(sum: >=2 clients) and a multi-leaf tree; a clip case when the tree is '
    'multi-leaf and non-zero. distinct = distinct canonical case JSON.')
RULE += (
    ' '
    'Later widenings: clip bounds 0, inf and integral bounds handed over as Python / NumPy in'
    'tegers; complex64 leaves; weights as 0-d / uint8 / int16 NumPy values; trees with the sa'
    'me array at two positions; repeated client ids in aggregator rounds; the mean assembled '
    'from the public pieces; float64 leaves in a child interpreter with JAX_ENABLE_X64=1.')
ASSUMPTIONS = [
    'weights are non-negative finite numbers; the total number of clients is '
    '>=1 (an empty iterable is outside the quantifier)',
    'magnitudes are bounded so that every intermediate of the documented '
    'algorithm stays finite and normal in the leaf dtype: f32 leaves '
    '2^-64<=|x|<=2^64 or 0, weights in [2^-20,2^20]; trees with f16 leaves '
    'use |x|<=2 (multiples of 1/16) and weights in [1/8,1024] so that '
    'sum(w|p|) <= 12*1024*2 < 65504 and 1/sum(w) >= 2^-14; i32 leaves '
    '|x|<=1e5 (and integer weights <=1024) so that int32 sums < 2^31',
    'mean tolerance per leaf element: (2n+8)*u*sum_i|w_i p_i|/sum_i w_i + '
    '(n+2)*tiny*max(1,1/sum w), u = 2^-24 (2^-11 if the returned leaf is '
    'float16), tiny = smallest normal of that dtype (covers XLA:CPU '
    'flush-to-zero); reference in float64. n+3 roundings touch each term '
    '(weight cast, product, n-1 additions, 1/sum(w) cast, final product) and '
    'n-1 more the float32 weight total',
    'sum tolerance: (n+2)*u*sum_i|p_i| + n*tiny; exact for integer results',
    'order independence is asserted within twice the mean/sum tolerance',
    'clip domain: bound > 0, or exactly 0 (everything is clipped to zero, a zero '
    'tree stays a zero tree); f32 values 2^-30<=|x|<=2^30 or 0 and bounds in '
    '[2^-30,2^30] (the squared norm neither overflows nor underflows); trees '
    'with an f16 leaf: |x|<=2, i32 |x|<=24, bound >= 2^-8 (jax promotes '
    'int32+float16 to float16, so the squared norm is accumulated in f16); '
    'otherwise i32 |x|<=4096 (squared norm < 2^31). Tolerance (N+10)*u with '
    'N = number of elements, u = 2^-11 if any leaf is f16 else 2^-24; '
    '"identity below the bound" is asserted only when '
    'norm*(1+(N+10)u) <= bound, i.e. outside the rounding band of the '
    'computed norm',
    'float payloads are float32/float16 normal numbers or zero (no '
    'subnormals, no NaN/inf)',
    'aliasing is judged by object identity and unsafe_buffer_pointer() '
    '(numpy leaves: numpy.shares_memory); zero-size leaves are exempt from '
    'the pointer comparison',
]

NP = {'f32': np.float32, 'f16': np.float16, 'i32': np.int32, 'c64': np.complex64}
U32, U16 = 2.0 ** -24, 2.0 ** -11
TINY32, TINY16 = 2.0 ** -126, 2.0 ** -14

SHAPES = {
    'quick': [[], [0], [1], [3], [3], [2, 2], [2, 2]],
    'thorough': [[], [0], [1], [3], [3], [2, 2], [2, 2], [5], [2, 3]],
}
MAX_CLIENTS = {'quick': 7, 'thorough': 12}


# ------------------------------------------------------------------ trees

def is_leaf_spec(spec):
  return 'dtype' in spec


def spec_leaves(spec):
  """Leaf specs in construction order."""
  if is_leaf_spec(spec):
    return [spec]
  (_, children), = spec.items()
  out = []
  for c in children:
    out.extend(spec_leaves(c))
  return out


def build_tree(spec, it):
  if is_leaf_spec(spec):
    return next(it)
  (kind, children), = spec.items()
  built = [build_tree(c, it) for c in children]
  if kind == 'dict':
    # Keys deliberately not in sorted order: jax flattens dicts by sorted key.
    m = len(built)
    return {'k%d' % (m - 1 - j): b for j, b in enumerate(built)}
  if kind == 'tuple':
    return tuple(built)
  return built


def make_leaf(vals, lspec, leafkind):
  if lspec['dtype'] == 'c64':
    # (re, im) pairs
    v = np.array(vals, dtype=np.float32)
    arr = (v[0::2] + 1j * v[1::2]).astype(np.complex64).reshape(tuple(lspec['shape']))
  else:
    arr = np.array(vals, dtype=NP[lspec['dtype']]).reshape(tuple(lspec['shape']))
  if leafkind == 'jax':
    return jnp.array(arr)
  return arr


def make_tree(spec, leaf_vals, leafkind, int_leaves=()):
  """int_leaves: indices of f32 leaves that THIS client holds as int32 arrays
  (clients of one aggregation may hold the same parameter in different dtypes,
  e.g. integer counts next to float averages; jax promotes the sum)."""
  ls = spec_leaves(spec)
  ls = [dict(l, dtype='i32') if j in int_leaves else l for j, l in enumerate(ls)]
  arrays = [make_leaf(v, l, leafkind) for v, l in zip(leaf_vals, ls)]
  return build_tree(spec, iter(arrays))


def make_weight(w, wkind):
  if wkind == 'int':
    return int(w)
  if wkind == 'np32':
    return np.float32(w)
  if wkind == 'jax32':
    return jnp.asarray(w, dtype=jnp.float32)
  if wkind == 'npu8':
    # counts held in a narrow integer dtype: each fits, their total need not
    return np.uint8(w)
  if wkind == 'npi16':
    return np.int16(w)
  if wkind == 'np0d':
    # a writable 0-d numpy array (e.g. np.array(num_examples)): unlike numpy
    # scalars it can be modified in place
    return np.array(w, dtype=np.float32)
  return float(w)


class OneShot:
  """An iterable whose first iteration yields the items and later ones nothing."""

  def __init__(self, items):
    self.items = list(items)
    self.iter_calls = 0
    self.pulled = 0

  def __iter__(self):
    self.iter_calls += 1
    if self.iter_calls > 1:
      return iter(())
    return self._gen()

  def _gen(self):
    for it in self.items:
      self.pulled += 1
      yield it


def make_iterable(items, kind):
  """Returns (iterable, probe) where probe() -> (pulled, iter_calls) or None."""
  if kind == 'list':
    return list(items), None
  if kind == 'tuple':
    return tuple(items), None
  if kind == 'zip':
    return zip(*items), None
  if kind == 'generator':
    count = [0]

    def gen():
      for it in items:
        count[0] += 1
        yield it
    return gen(), (lambda: (count[0], 1))
  if kind == 'oneshot':
    o = OneShot(items)
    return o, (lambda: (o.pulled, o.iter_calls))
  raise ValueError(kind)


# ------------------------------------------------------------------ safety

def _is_jax(x):
  return isinstance(x, jax.Array)


def same_buffer(a, b):
  if a is b:
    return True
  if _is_jax(a) and _is_jax(b):
    if a.size == 0 or b.size == 0:
      return False
    try:
      return a.unsafe_buffer_pointer() == b.unsafe_buffer_pointer()
    except Exception:  # pylint: disable=broad-except
      return False
  try:
    na, nb = np.asarray(a), np.asarray(b)
    if na.size == 0 or nb.size == 0:
      return False
    return bool(np.shares_memory(na, nb))
  except Exception:  # pylint: disable=broad-except
    return False


def snapshot(leaves):
  return [(str(np.asarray(l).dtype), np.asarray(l).shape, np.asarray(l).tobytes())
          for l in leaves]


def flat(tree):
  return jax.tree_util.tree_flatten(tree)


def check_outputs_alive(prefix, out_leaves):
  for j, o in enumerate(out_leaves):
    if _is_jax(o):
      require(not o.is_deleted(), f'{prefix}:output_deleted', f'output leaf {j}')


def check_inputs_unharmed(prefix, in_leaves, snaps, out_leaves, weights=None,
                          wsnaps=None):
  """in_leaves: per client list of leaves (jax order); snaps likewise."""
  for ci, (leaves, snap) in enumerate(zip(in_leaves, snaps)):
    for li, (leaf, s) in enumerate(zip(leaves, snap)):
      if _is_jax(leaf):
        require(not leaf.is_deleted(), f'{prefix}:input_deleted',
                f'client {ci} leaf {li} was invalidated (donated) by the call')
      now = np.asarray(leaf)
      require((str(now.dtype), now.shape, now.tobytes()) == s,
              f'{prefix}:input_modified',
              lambda: f'client {ci} leaf {li}: now {now.tolist()}')
      for oj, o in enumerate(out_leaves):
        require(not same_buffer(o, leaf), f'{prefix}:output_aliases_input',
                f'output leaf {oj} shares its buffer with client {ci} leaf {li}')
  if weights is not None:
    for ci, (w, s) in enumerate(zip(weights, wsnaps)):
      if _is_jax(w):
        require(not w.is_deleted(), f'{prefix}:weight_deleted', f'client {ci}')
        for oj, o in enumerate(out_leaves):
          require(not same_buffer(o, w), f'{prefix}:output_aliases_input',
                  f'output leaf {oj} shares its buffer with weight {ci}')
      if not isinstance(w, (int, float)):
        require(np.asarray(w).tobytes() == s, f'{prefix}:weight_modified',
                f'client {ci}')


def to64(x):
  return np.asarray(x).astype(np.float64)


def out_consts(o):
  if str(np.asarray(o).dtype) == 'float16':
    return U16, TINY16
  return U32, TINY32


# ------------------------------------------------------------------ mean

def mean_reference(vals64, w64):
  """vals64: per client float64 array (one leaf). Returns (ref, S) for W>0."""
  total = math.fsum(w64)
  acc = np.zeros(vals64[0].shape, np.float64)
  s = np.zeros(vals64[0].shape, np.float64)
  for v, w in zip(vals64, w64):
    acc = acc + w * v
    s = s + abs(w) * np.abs(v)
  return acc / total, s / total, total


def check_mean_values(prefix, in_np, w64, out_leaves, in_f16=None):
  """Returns the per-leaf tolerance arrays (None for zero total weight)."""
  n = len(in_np)
  total = math.fsum(w64)
  tols = []
  for j, o in enumerate(out_leaves):
    vals = [c[j] for c in in_np]
    on = np.asarray(o)
    require(on.shape == vals[0].shape, f'{prefix}:shape',
            f'leaf {j}: {on.shape} vs {vals[0].shape}')
    o64 = on.astype(np.float64)
    require(not np.isnan(o64).any(), f'{prefix}:nan',
            lambda: f'leaf {j}: {o64.tolist()} (weights {w64})')
    require(np.isfinite(o64).all(), f'{prefix}:nonfinite',
            lambda: f'leaf {j}: {o64.tolist()}')
    if total == 0:
      require(bool((o64 == 0).all()), f'{prefix}:zero_total_weight_not_zero',
              lambda: f'leaf {j}: {o64.tolist()}')
      tols.append(None)
      continue
    ref, s, _ = mean_reference(vals, w64)
    u, tiny = out_consts(o)
    if in_f16 is not None and in_f16[j]:
      # a float16 input leaf: products and partial sums may be rounded to
      # float16 even when the final division promotes the result to float32
      # (e.g. integer-typed numpy weights)
      u, tiny = U16, TINY16
    tol = (2 * n + 8) * u * s + (n + 2) * tiny * max(1.0, 1.0 / total)
    tols.append(tol)
    err = np.abs(o64 - ref)
    require(bool((err <= tol).all()), f'{prefix}:value',
            lambda: (f'leaf {j}: got {o64.tolist()} want {ref.tolist()} '
                     f'(tol {tol.tolist()}, weights {w64})'))
    if vals[0].size:
      lo = np.min(np.stack(vals), axis=0)
      hi = np.max(np.stack(vals), axis=0)
      require(bool(((o64 >= lo - tol) & (o64 <= hi + tol)).all()),
              f'{prefix}:outside_hull',
              lambda: f'leaf {j}: {o64.tolist()} not in [{lo.tolist()}, {hi.tolist()}]')
  return tols


def _call_mean(api, trees, weights, cids, input_kind):
  if api == 'aggregator':
    items = list(zip(cids, trees, weights))
  else:
    items = list(zip(trees, weights))
  if input_kind == 'zip':
    parts = ([cids, trees, weights] if api == 'aggregator' else [trees, weights])
    iterable, probe = make_iterable(parts, 'zip')
  else:
    iterable, probe = make_iterable(items, input_kind)
  if api == 'aggregator':
    agg = fedjax.aggregators.mean_aggregator()
    state = agg.init()
    out = agg.apply(iterable, state)
    require(isinstance(out, tuple) and len(out) == 2, 'aggregator:return_type',
            f'{type(out)}')
    result, new_state = out
    require(new_state is state or new_state == state,
            'aggregator:state_changed', f'{new_state!r} vs {state!r}')
    require(new_state == agg.init(), 'aggregator:state_changed',
            f'{new_state!r} vs fresh {agg.init()!r}')
  else:
    result = tree_util.tree_mean(iterable)
  return result, probe


def apply_ties(case, trees):
  """case['tied'] in ('first', 'later', 'all'): the tree is handed over as
  {'orig': t, 'again': t'} where t' is the very same objects for the named
  clients (tied weights: one array at two positions of the tree) and a separate
  copy with equal values for the others, so every client has one structure."""
  t = case.get('tied')
  if not t:
    return trees
  out = []
  for i, tree in enumerate(trees):
    if t == 'all' or (t == 'first' and i == 0) or (t == 'later' and i > 0):
      out.append({'orig': tree, 'again': tree})
    else:
      out.append({'orig': tree, 'again': jax.tree_util.tree_map(
          lambda l: jnp.array(l) if _is_jax(l) else np.array(l), tree)})
  return out


def make_cids(n, kind):
  if kind == 'bytes':
    return [b'client-%d' % i for i in range(n)]
  if kind == 'int':
    return list(range(n))
  if kind == 'repeated':
    # a cohort sampled with replacement: ids come in pairs
    return [b'client-%d' % (i // 2) for i in range(n)]
  return ['client-%d' % i for i in range(n)]


def run_mean(case, api):
  prefix = 'mean' if api == 'tree_mean' else 'aggregator'
  spec = case['tree']
  n = len(case['clients'])
  w64 = [float(c['w']) for c in case['clients']]
  trees = apply_ties(case, [make_tree(spec, c['leaves'], case['leafkind'], c.get('int_leaves', ()))
                            for c in case['clients']])
  weights = [make_weight(c['w'], case['wkind']) for c in case['clients']]
  cids = make_cids(n, case.get('cid_kind', 'bytes'))
  flats = [flat(t) for t in trees]
  in_leaves = [f[0] for f in flats]
  treedef = flats[0][1]
  snaps = [snapshot(l) for l in in_leaves]
  wsnaps = [None if isinstance(w, (int, float)) else np.asarray(w).tobytes()
            for w in weights]
  in_np = [[to64(l) for l in leaves] for leaves in in_leaves]

  result, probe = _call_mean(api, trees, weights, cids, case['input'])
  out_leaves, out_def = flat(result)
  require(out_def == treedef, f'{prefix}:structure', f'{out_def} vs {treedef}')
  check_outputs_alive(prefix, out_leaves)
  if probe is not None:
    pulled, iter_calls = probe()
    require(pulled == n, 'one_pass:not_consumed_exactly_once',
            f'{pulled} items pulled from an iterator of {n}')
    require(iter_calls == 1, 'one_pass:iterated_twice',
            f'iter() called {iter_calls} times')
  in_f16 = [any(str(np.asarray(leaves[j]).dtype) == 'float16' for leaves in in_leaves)
            for j in range(len(in_leaves[0]))]
  tols = check_mean_values(prefix, in_np, w64, out_leaves, in_f16)
  check_inputs_unharmed(prefix, in_leaves, snaps, out_leaves, weights, wsnaps)

  # Order independence: the same clients in a different order, as a list.
  perm = case['perm']
  if perm != list(range(n)):
    result2, _ = _call_mean(api, [trees[i] for i in perm],
                            [weights[i] for i in perm],
                            [cids[i] for i in perm], 'list')
    out2, def2 = flat(result2)
    require(def2 == treedef, f'{prefix}:structure', f'{def2} vs {treedef}')
    check_outputs_alive(prefix, out2)
    check_mean_values(prefix, [in_np[i] for i in perm], [w64[i] for i in perm],
                      out2, in_f16)
    for j, (a, b, tol) in enumerate(zip(out_leaves, out2, tols)):
      a64, b64 = to64(a), to64(b)
      bound = 0.0 if tol is None else 2 * tol
      require(bool((np.abs(a64 - b64) <= bound).all()),
              f'{prefix}:order_dependent',
              lambda: f'leaf {j}: {a64.tolist()} vs {b64.tolist()} under {perm}')
    check_inputs_unharmed(prefix, in_leaves, snaps, list(out_leaves) + list(out2),
                          weights, wsnaps)

  if api == 'aggregator':
    # The aggregator is documented as the (weighted) mean: same value as
    # tree_mean on the same inputs, within the rounding of either.
    ref_tree = tree_util.tree_mean(list(zip(trees, weights)))
    ref_leaves, _ = flat(ref_tree)
    for j, (a, b, tol) in enumerate(zip(out_leaves, ref_leaves, tols)):
      bound = 0.0 if tol is None else 2 * tol
      require(bool((np.abs(to64(a) - to64(b)) <= bound).all()),
              'aggregator:differs_from_tree_mean', f'leaf {j}')


def run_pieces(case):
  """The weighted mean put together from the public pieces, the way the
  algorithms that clip or post-process client updates do it (mime_lite.py):
  tree_zeros_like, tree_weight, tree_add over the clients, then
  tree_inverse_weight by the total weight.  Every tree the caller handed to one
  of the pieces -- the client trees AND the running sum -- stays usable."""
  prefix = 'pieces'
  # (float16 leaves are built as float32 here: float16 accumulation has its own
  # stated weight bound and known findings, decided on tree_mean)
  spec = json.loads(json.dumps(case['tree']).replace('"f16"', '"f32"'))
  w64 = [float(c['w']) for c in case['clients']]
  trees = apply_ties(case, [make_tree(spec, c['leaves'], case['leafkind'], c.get('int_leaves', ()))
                            for c in case['clients']])
  flats = [flat(t) for t in trees]
  in_leaves = [f[0] for f in flats]
  treedef = flats[0][1]
  snaps = [snapshot(l) for l in in_leaves]
  in_np = [[to64(l) for l in leaves] for leaves in in_leaves]
  total = tree_util.tree_zeros_like(trees[0])
  wsum = 0.
  for t, w in zip(trees, w64):
    weighted = tree_util.tree_weight(t, w)
    held = total
    total = tree_util.tree_add(held, weighted)
    # both arguments of tree_add are the caller's too
    for name, tree in (('running sum', held), ('weighted tree', weighted)):
      for li, leaf in enumerate(flat(tree)[0]):
        if _is_jax(leaf):
          require(not leaf.is_deleted(), 'pieces:input_deleted',
                  f'tree_add invalidated leaf {li} of its argument ({name})')
    wsum += w
  total_leaves = flat(total)[0]
  total_snap = snapshot(total_leaves)
  result = tree_util.tree_inverse_weight(total, wsum)
  out_leaves, out_def = flat(result)
  require(out_def == treedef, 'pieces:structure', f'{out_def} vs {treedef}')
  check_outputs_alive(prefix, out_leaves)
  check_inputs_unharmed(prefix, [total_leaves] + in_leaves, [total_snap] + snaps, out_leaves)
  in_f16 = [False] * len(out_leaves)
  check_mean_values(prefix, in_np, w64, out_leaves, in_f16)
  # normalising the same sum again gives the same mean
  again, _ = flat(tree_util.tree_inverse_weight(total, wsum))
  for j, (a, b) in enumerate(zip(out_leaves, again)):
    require(np.asarray(a).tobytes() == np.asarray(b).tobytes(), 'pieces:second_normalisation_differs',
            f'leaf {j}')


# ------------------------------------------------------- float64 (x64) means

def child_mean_x64(cases):
  """Runs in a child interpreter started with JAX_ENABLE_X64=1."""
  assert jax.config.jax_enable_x64
  import fractions
  F = fractions.Fraction
  for ci, case in enumerate(cases):
    ws = [float(w) for w in case['weights']]
    vals = [np.asarray(v, np.float64) / 10.0 for v in case['values']]
    n = len(ws)
    total = sum(F(w) for w in ws)
    exact = [sum(F(w) * F(float(v[j])) for w, v in zip(ws, vals)) / total
             for j in range(len(vals[0]))]
    ref = np.asarray([float(e) for e in exact], np.float64)
    s = np.asarray([float(sum(abs(F(w) * F(float(v[j]))) for w, v in zip(ws, vals)) / total)
                    for j in range(len(vals[0]))])
    tol = (2 * n + 8) * 2.0 ** -53 * s + 1e-300
    trees = [{'a': jnp.asarray(v), 'b': {'c': jnp.asarray(v[:1])}} for v in vals]
    agg = fedjax.aggregators.mean_aggregator()
    pieces = tree_util.tree_zeros_like(trees[0])
    for t, w in zip(trees, ws):
      pieces = tree_util.tree_add(pieces, tree_util.tree_weight(t, w))
    outs = {
        'tree_mean(list)': tree_util.tree_mean(list(zip(trees, ws))),
        'tree_mean(generator)': tree_util.tree_mean((t, w) for t, w in zip(trees, ws)),
        'mean_aggregator': agg.apply([(b'c%d' % i, t, w) for i, (t, w) in
                                      enumerate(zip(trees, ws))], agg.init())[0],
        'pieces': tree_util.tree_inverse_weight(pieces, sum(ws)),
    }
    for path, out in outs.items():
      a = np.asarray(out['a'])
      if a.dtype != np.float64:
        return {'clause': 'x64:mean_of_float64_leaves_is_not_float64',
                'message': f'case {ci} {path}: {a.dtype}'}
      err = np.abs(a.astype(np.float64) - ref)
      if not bool((err <= tol).all()):
        return {'clause': 'x64:mean_of_float64_leaves_not_to_float64_accuracy',
                'message': f'case {ci} {path}: got {a.tolist()} want {ref.tolist()} '
                           f'(error {err.max():.3e}, tolerance {tol.max():.3e}; weights {ws})'}
  return {}


def run_mean_x64(case):
  """With jax_enable_x64 the leaves may be float64: the weighted mean is then
  sum(w p)/sum(w) to float64 accuracy -- nothing on the way (the weights, the
  products, the running sum, the normaliser) is rounded to float32."""
  from vf import child
  child.call('vf.props.c07', 'child_mean_x64', case['cases'], {'JAX_ENABLE_X64': '1'}, 'x64')
  return []


@st.composite
def mean_x64_case(draw, tier):
  cases = []
  for _ in range(8):
    n = draw(st.sampled_from([1, 2, 3, 4]))
    size = draw(st.integers(1, 4))
    cases.append({
        'weights': [draw(st.sampled_from([0.1, 0.3, 1.0, 2.5, 7.0, 0.001, 3.3, 1e6 + 0.1]))
                    for _ in range(n)],
        'values': [[draw(st.integers(-1000, 1000)) for _ in range(size)] for _ in range(n)]})
  return {'cases': cases}


# ------------------------------------------------------------------ sum

def check_sum_values(in_np, out_leaves):
  n = len(in_np)
  tols = []
  for j, o in enumerate(out_leaves):
    vals = [c[j] for c in in_np]
    on = np.asarray(o)
    require(on.shape == vals[0].shape, 'sum:shape',
            f'leaf {j}: {on.shape} vs {vals[0].shape}')
    o64 = on.astype(np.float64)
    require(np.isfinite(o64).all(), 'sum:nonfinite', lambda: f'leaf {j}: {o64.tolist()}')
    ref = np.zeros(vals[0].shape, np.float64)
    s = np.zeros(vals[0].shape, np.float64)
    for v in vals:
      ref = ref + v
      s = s + np.abs(v)
    if on.dtype.kind in 'iu':
      tol = np.zeros_like(s)
    else:
      u, tiny = out_consts(o)
      tol = (n + 2) * u * s + n * tiny
    tols.append(tol)
    require(bool((np.abs(o64 - ref) <= tol).all()), 'sum:value',
            lambda: f'leaf {j}: got {o64.tolist()} want {ref.tolist()} (tol {tol.tolist()})')
  return tols


def run_sum(case):
  spec = case['tree']
  n = len(case['clients'])
  trees = apply_ties(case, [make_tree(spec, c['leaves'], case['leafkind'], c.get('int_leaves', ()))
                            for c in case['clients']])
  flats = [flat(t) for t in trees]
  in_leaves = [f[0] for f in flats]
  treedef = flats[0][1]
  snaps = [snapshot(l) for l in in_leaves]
  in_np = [[to64(l) for l in leaves] for leaves in in_leaves]

  kind = case['input']
  iterable, probe = make_iterable(trees, kind)
  result = tree_util.tree_sum(iterable)
  out_leaves, out_def = flat(result)
  require(out_def == treedef, 'sum:structure', f'{out_def} vs {treedef}')
  check_outputs_alive('sum', out_leaves)
  if probe is not None:
    pulled, iter_calls = probe()
    require(pulled == n, 'one_pass:not_consumed_exactly_once',
            f'{pulled} items pulled from an iterator of {n}')
    require(iter_calls == 1, 'one_pass:iterated_twice', f'{iter_calls}')
  tols = check_sum_values(in_np, out_leaves)
  check_inputs_unharmed('sum', in_leaves, snaps, out_leaves)

  perm = case['perm']
  if perm != list(range(n)):
    result2 = tree_util.tree_sum([trees[i] for i in perm])
    out2, def2 = flat(result2)
    require(def2 == treedef, 'sum:structure', f'{def2} vs {treedef}')
    check_outputs_alive('sum', out2)
    check_sum_values([in_np[i] for i in perm], out2)
    for j, (a, b, tol) in enumerate(zip(out_leaves, out2, tols)):
      a64, b64 = to64(a), to64(b)
      require(bool((np.abs(a64 - b64) <= 2 * tol).all()), 'sum:order_dependent',
              lambda: f'leaf {j}: {a64.tolist()} vs {b64.tolist()} under {perm}')
    check_inputs_unharmed('sum', in_leaves, snaps, list(out_leaves) + list(out2))


# ------------------------------------------------------------------ clip

def clip_bound(case, norm):
  b = case['bound']
  if 'abs' in b:
    return float(b['abs'])     # may be the string 'inf': no clipping at all
  if norm == 0:
    return float(b['rel'])
  return float(np.float32(b['rel'] * norm))


def clip_norm64(case):
  tot = 0.0
  for vals in case['leaves']:
    for v in vals:
      tot += float(v) * float(v)
  return math.sqrt(tot)


def run_clip(case):
  spec = case['tree']
  tree = make_tree(spec, case['leaves'], case['leafkind'])
  in_leaves, treedef = flat(tree)
  snaps = [snapshot(in_leaves)]
  # complex leaves count as (re, im) pairs of reals: a real scale acts on both
  cplx = [np.asarray(l).dtype.kind == 'c' for l in in_leaves]

  def reals(leaf, is_c, what):
    a = np.asarray(leaf)
    if is_c:
      a = a.astype(np.complex128).ravel()
      return np.concatenate([a.real, a.imag])
    if a.dtype.kind == 'c':
      # (a real leaf next to a complex one comes back with a complex dtype)
      require(bool((a.imag == 0).all()), 'clip:direction_changed',
              f'{what}: a real leaf came back with a non-zero imaginary part')
      a = a.real
    return a.astype(np.float64).ravel()

  xs = [reals(l, c_, 'input') for l, c_ in zip(in_leaves, cplx)]
  x = np.concatenate(xs) if xs else np.zeros((0,))
  nelem = max(1, x.size)
  norm_in = float(np.sqrt(np.sum(x * x)))
  bound = clip_bound(case, norm_in)
  any_f16 = any(l['dtype'] == 'f16' for l in spec_leaves(spec))
  u, tiny = (U16, TINY16) if any_f16 else (U32, TINY32)
  k = nelem + 10

  # the bound as the caller holds it: a Python float or -- for integral bounds,
  # when the case says so -- a Python int or a NumPy integer scalar
  bk = case.get('bound_kind', 'float')
  bound_arg = bound
  if bk != 'float' and np.isfinite(bound) and bound == int(bound):
    bound_arg = {'int': int, 'np_i32': np.int32, 'np_i64': np.int64}[bk](int(bound))
  result = tree_util.tree_clip_by_global_norm(tree, bound_arg)
  out_leaves, out_def = flat(result)
  require(out_def == treedef, 'clip:structure', f'{out_def} vs {treedef}')
  check_outputs_alive('clip', out_leaves)
  for j, (o, i) in enumerate(zip(out_leaves, in_leaves)):
    require(np.asarray(o).shape == np.asarray(i).shape, 'clip:shape', f'leaf {j}')
  o = (np.concatenate([reals(l, c_, f'output leaf {j}')
                       for j, (l, c_) in enumerate(zip(out_leaves, cplx))])
       if out_leaves else x)
  require(np.isfinite(o).all(), 'clip:nonfinite',
          lambda: f'{o.tolist()} for input {x.tolist()} bound {bound}')
  norm_out = float(np.sqrt(np.sum(o * o)))
  require(norm_out <= bound * (1 + k * u) + nelem * tiny, 'clip:norm_exceeds_bound',
          lambda: f'|out|={norm_out!r} bound={bound!r} |in|={norm_in!r}')
  extra = []
  if norm_in * (1 + k * u) <= bound:
    extra.append('regime:below')
    require(bool((o == x).all()), 'clip:not_identity_below_bound',
            lambda: f'|in|={norm_in!r} <= bound={bound!r} but out={o.tolist()} in={x.tolist()}')
    for j, (a, b) in enumerate(zip(out_leaves, in_leaves)):
      na, nb = np.asarray(a), np.asarray(b)
      if na.dtype == nb.dtype:
        require(bool(np.array_equal(na, nb)), 'clip:not_identity_below_bound',
                f'leaf {j}')
  elif norm_in <= bound * (1 + k * u):
    extra.append('regime:band')
  else:
    extra.append('regime:above')
  if norm_in > 0 and bound == 0:
    extra.append('bound_zero')
    require(bool((o == 0).all()), 'clip:norm_exceeds_bound',
            lambda: f'bound 0 but out={o.tolist()}')
  elif norm_in > 0:
    s_ref = 1.0 if norm_in <= bound else bound / norm_in
    s_fit = float(np.dot(o, x) / np.dot(x, x))
    require(s_fit > 0, 'clip:direction_changed',
            lambda: f'best-fit scale {s_fit!r}; out={o.tolist()} in={x.tolist()}')
    dev = np.abs(o - s_fit * x)
    require(bool((dev <= 4 * u * s_fit * np.abs(x) + tiny).all()),
            'clip:direction_changed',
            lambda: f'out is not a multiple of in: out={o.tolist()} in={x.tolist()} scale {s_fit!r}')
    require(abs(s_fit - s_ref) <= k * u * s_ref,
            'clip:scale_not_min_1_bound_over_norm',
            lambda: f'scale {s_fit!r} vs min(1, bound/|in|)={s_ref!r} (bound {bound!r}, |in| {norm_in!r})')
  # The call must leave the caller's tree usable and unchanged.
  for li, (leaf, s) in enumerate(zip(in_leaves, snaps[0])):
    if _is_jax(leaf):
      require(not leaf.is_deleted(), 'clip:input_deleted', f'leaf {li}')
    now = np.asarray(leaf)
    require((str(now.dtype), now.shape, now.tobytes()) == s, 'clip:input_modified',
            f'leaf {li}')
  return extra


# ---------------------------------------------------------------- strategies

KINDS = ['dict', 'list', 'tuple']


def _build_spec(draw, leaves, level):
  if len(leaves) == 1 and (level == 3 or draw(st.booleans())):
    return leaves[0]
  kind = draw(st.sampled_from(KINDS))
  if level >= 2:
    return {kind: list(leaves)}
  m = len(leaves)
  k = draw(st.integers(1, m))
  cuts = sorted(draw(st.lists(st.integers(1, m - 1), min_size=k - 1,
                              max_size=k - 1, unique=True))) if m > 1 else []
  groups, prev = [], 0
  for c in cuts + [m]:
    groups.append(leaves[prev:c])
    prev = c
  return {kind: [_build_spec(draw, g, level + 1) for g in groups]}


@st.composite
def tree_spec(draw, tier):
  nl = draw(st.sampled_from([1, 2, 2, 3, 3, 4, 5]))
  dt_menu = draw(st.sampled_from([['f32'], ['f32', 'f32', 'f16', 'i32'],
                                  ['f32', 'f16', 'i32'], ['f16'], ['i32'],
                                  ['f32', 'i32']]))
  leaves = [{'shape': draw(st.sampled_from(SHAPES[tier])),
             'dtype': draw(st.sampled_from(dt_menu))} for _ in range(nl)]
  return _build_spec(draw, leaves, 0)


def _signed(mag):
  return st.builds(lambda neg, m: -m if neg else m, st.booleans(), mag)


def f32_elements(maxexp):
  hi, lo = 2.0 ** maxexp, 2.0 ** -maxexp
  return st.one_of(
      st.integers(-64, 64).map(lambda k: k / 8.0),
      _signed(st.floats(min_value=lo, max_value=hi, width=32,
                        allow_nan=False, allow_infinity=False,
                        allow_subnormal=False)),
      _signed(st.floats(min_value=2.0 ** -8, max_value=2.0 ** 8, width=32,
                        allow_nan=False, allow_infinity=False,
                        allow_subnormal=False)),
      st.sampled_from([0.0, -0.0, 1.0, -1.0, hi, -hi, lo, -lo, 16777216.0,
                       float(np.float32(0.1)), float(np.float32(1 / 3)),
                       1.0 + 2.0 ** -23]))


F16_ELEMENTS = st.integers(-32, 32).map(lambda k: k / 16.0)


def i32_elements(bound):
  return st.one_of(st.integers(-bound, bound), st.integers(-9, 9),
                   st.sampled_from([0, 1, -1, bound, -bound]))


def leaf_values(draw, lspec, elems):
  size = int(np.prod(lspec['shape'])) if lspec['shape'] else 1
  return draw(st.lists(elems[lspec['dtype']], min_size=size, max_size=size))


def negate(vals, dtype):
  if dtype == 'i32':
    return [-v for v in vals]
  return [-float(v) for v in vals]


def draw_clients_values(draw, spec, n, elems):
  ls = spec_leaves(spec)
  first = [leaf_values(draw, l, elems) for l in ls]
  clients = [first]
  menu = ['fresh', 'fresh', 'fresh', 'fresh', 'copy', 'neg']
  if n > 1 and draw(st.integers(0, 11)) == 5:
    menu = ['copy']  # all clients identical: the hull is a single point
  for _ in range(1, n):
    cur = []
    for j, l in enumerate(ls):
      rel = draw(st.sampled_from(menu))
      if rel == 'copy':
        cur.append(list(first[j]))
      elif rel == 'neg':
        cur.append(negate(first[j], l['dtype']))
      else:
        cur.append(leaf_values(draw, l, elems))
    clients.append(cur)
  return clients


def draw_weights(draw, n, wkind, wide):
  if wkind == 'npu8':
    pos = st.one_of(st.integers(1, 255), st.sampled_from([255, 200, 128, 100, 1]))
    zero = 0
  elif wkind == 'npi16':
    pos = st.one_of(st.integers(1, 32767), st.sampled_from([32767, 30000, 16384, 1]))
    zero = 0
  elif wkind == 'int':
    pos = st.one_of(st.integers(1, 1024), st.integers(1, 12),
                    st.sampled_from([1, 2, 1024]))
    zero = 0
  else:
    opts = [st.integers(1, 1024).map(float),
            st.integers(1, 8192).map(lambda m: m / 8.0),
            st.integers(1, 12).map(float),
            st.sampled_from([0.125, 1.0, 1024.0])]
    if wide:
      opts.append(st.sampled_from([2.0 ** -20, 2.0 ** -10, 2.0 ** 20, 1e6,
                                   3.0 * 2.0 ** -12]))
    pos = st.one_of(*opts)
    zero = 0.0
  pattern = draw(st.sampled_from(['all_pos'] * 5 + ['some_zero'] * 3 + [
      'single_nonzero', 'all_zero', 'equal']))
  if pattern == 'all_zero':
    return [zero] * n
  if pattern == 'equal':
    w = draw(pos)
    return [w] * n
  if pattern == 'single_nonzero':
    i = draw(st.integers(0, n - 1))
    w = draw(pos)
    return [w if j == i else zero for j in range(n)]
  ws = [draw(pos) for _ in range(n)]
  if pattern == 'some_zero':
    mask = draw(st.lists(st.booleans(), min_size=n, max_size=n))
    ws = [zero if m else w for w, m in zip(ws, mask)]
  return ws


def draw_n(draw, tier):
  return draw(st.sampled_from(
      [1, 2, 2, 3, 3, 3, 4, 4, 5, 6, 7] + list(range(7, MAX_CLIENTS[tier] + 1))))


MEAN_ELEMS = {'f32': f32_elements(64), 'f16': F16_ELEMENTS,
              'i32': i32_elements(100000)}



def mixed_dtypes(draw, spec, clients):
  """In 1 case of 4 (trees without f16): some, not all, clients hold some f32
  leaves as int32 arrays with small integer values."""
  ls = spec_leaves(spec)
  f32 = [j for j, l in enumerate(ls) if l['dtype'] == 'f32']
  if len(clients) < 2 or not f32 or any(l['dtype'] == 'f16' for l in ls):
    return
  if draw(st.integers(0, 3)) != 0:
    return
  who = draw(st.lists(st.integers(0, len(clients) - 1), min_size=1,
                      max_size=len(clients) - 1, unique=True))
  which = draw(st.lists(st.sampled_from(f32), min_size=1, max_size=len(f32), unique=True))
  for ci in who:
    clients[ci]['int_leaves'] = sorted(which)
    for j in which:
      size = len(clients[ci]['leaves'][j])
      clients[ci]['leaves'][j] = draw(st.lists(st.integers(-1000, 1000), min_size=size, max_size=size))


@st.composite
def mean_case(draw, tier, api):
  spec = draw(tree_spec(tier))
  n = draw_n(draw, tier)
  wkind = draw(st.sampled_from(['float', 'float', 'int', 'np32', 'jax32', 'np0d', 'npu8', 'npi16']))
  has_f16 = any(l['dtype'] == 'f16' for l in spec_leaves(spec))
  if has_f16 and wkind == 'npi16':
    wkind = 'npu8'   # float16 trees: weights stay <= 1024 (stated bound)
  weights = draw_weights(draw, n, wkind, wide=(not has_f16 and wkind not in ('int', 'npu8', 'npi16')))
  elems = MEAN_ELEMS
  if wkind == 'npi16':
    # int32 leaves are weighted in int32: keep sum |w x| below 2^31 (stated bound)
    elems = dict(MEAN_ELEMS, i32=i32_elements(4096))
  vals = draw_clients_values(draw, spec, n, elems)
  case = {
      'tree': spec,
      'clients': [{'w': w, 'leaves': v} for w, v in zip(weights, vals)],
      'wkind': wkind,
      'leafkind': draw(st.sampled_from(['jax', 'jax', 'jax', 'numpy'])),
      'input': draw(st.sampled_from(['list', 'tuple', 'generator', 'generator',
                                     'zip', 'oneshot'])),
      'perm': list(draw(st.permutations(list(range(n))))),
  }
  if draw(st.integers(0, 4)) == 0:
    case['tied'] = draw(st.sampled_from(['first', 'later', 'all']))
  if api == 'aggregator':
    case['cid_kind'] = draw(st.sampled_from(['bytes', 'str', 'int', 'repeated']))
  mixed_dtypes(draw, spec, case['clients'])
  return case


SUM_ELEMS = MEAN_ELEMS


@st.composite
def sum_case(draw, tier):
  spec = draw(tree_spec(tier))
  n = draw_n(draw, tier)
  vals = draw_clients_values(draw, spec, n, SUM_ELEMS)
  case = {
      'tree': spec,
      'clients': [{'leaves': v} for v in vals],
      'leafkind': draw(st.sampled_from(['jax', 'jax', 'jax', 'numpy'])),
      'input': draw(st.sampled_from(['list', 'tuple', 'generator', 'generator',
                                     'oneshot'])),
      'perm': list(draw(st.permutations(list(range(n))))),
  }
  if draw(st.integers(0, 4)) == 0:
    case['tied'] = draw(st.sampled_from(['first', 'later', 'all']))
  mixed_dtypes(draw, spec, case['clients'])
  return case


RATIOS = [2.0 ** -10, 2.0 ** -4, 0.25, 0.5, 0.75, 1 - 2.0 ** -10, 1 - 2.0 ** -20,
          1.0, 1 + 2.0 ** -20, 1 + 2.0 ** -10, 1.5, 2.0, 16.0, 1024.0]
RATIOS_F16 = [r for r in RATIOS if r >= 2.0 ** -4]


@st.composite
def clip_case(draw, tier):
  spec = draw(tree_spec(tier))
  ls = spec_leaves(spec)
  has_f16 = any(l['dtype'] == 'f16' for l in ls)
  f32s = [l for l in ls if l['dtype'] == 'f32']
  if f32s and not has_f16 and draw(st.integers(0, 4)) == 0:
    # one float leaf is a complex64 leaf instead (spec_leaves returns the spec's
    # own dicts, so this edits the spec)
    f32s[draw(st.integers(0, len(f32s) - 1))]['dtype'] = 'c64'
  elems = {'f32': f32_elements(30), 'f16': F16_ELEMENTS,
           'i32': i32_elements(24 if has_f16 else 4096)}
  zero_tree = draw(st.integers(0, 19)) == 7  # ~5 %: Hypothesis over-samples the endpoints

  def nvals(l):
    size = int(np.prod(l['shape'])) if l['shape'] else 1
    return 2 * size if l['dtype'] == 'c64' else size

  if zero_tree:
    leaves = []
    for l in ls:
      leaves.append([0 if l['dtype'] == 'i32' else 0.0] * nvals(l))
  else:
    leaves = [draw(st.lists(elems['f32'], min_size=nvals(l), max_size=nvals(l)))
              if l['dtype'] == 'c64' else leaf_values(draw, l, elems) for l in ls]
    if not any(any(v) for v in leaves):
      # Hypothesis likes all-zero payloads; zero trees have their own class.
      for l, v in zip(ls, leaves):
        if v:
          k = draw(st.integers(1, 24))
          v[0] = k if l['dtype'] == 'i32' else k / 16.0
          break
  if has_f16:
    abs_b = st.integers(-4, 12).map(lambda e: 2.0 ** e)
    ratios = RATIOS_F16
  else:
    abs_b = st.one_of(
        st.integers(-30, 30).map(lambda e: 2.0 ** e),
        st.floats(min_value=2.0 ** -30, max_value=2.0 ** 30, width=32,
                  allow_nan=False, allow_infinity=False, allow_subnormal=False))
    ratios = RATIOS
  bound = draw(st.one_of(
      st.fixed_dictionaries({'rel': st.sampled_from(ratios)}),
      st.fixed_dictionaries({'rel': st.sampled_from(ratios)}),
      st.fixed_dictionaries({'abs': abs_b})))
  pick = draw(st.integers(0, 15))
  if pick == 5:
    bound = {'abs': 0.0}   # degenerate but valid: everything is clipped to zero
  elif pick == 6:
    bound = {'abs': 'inf'}  # an infinite bound clips nothing
  case = {'tree': spec, 'leaves': leaves, 'bound': bound,
          'leafkind': draw(st.sampled_from(['jax', 'jax', 'jax', 'numpy']))}
  if not has_f16 and draw(st.integers(0, 5)) == 0:
    # an integral bound handed over as an integer (1 .. 2^20)
    case['bound'] = {'abs': float(draw(st.sampled_from(
        [1, 3, 1000, 46340, 46341, 65536, 100000, 2 ** 20])))}
    case['bound_kind'] = draw(st.sampled_from(['int', 'np_i32', 'np_i64']))
  return case


# ------------------------------------------------------------------ labels

def tree_labels(spec):
  ls = spec_leaves(spec)
  out = ['leaves=%d' % len(ls) if len(ls) < 3 else 'leaves>=3']
  if len(ls) > 1:
    out.append('multi_leaf')
  if is_leaf_spec(spec):
    out.append('bare_leaf_tree')
  else:
    out.append('root:' + next(iter(spec)))
  for d in sorted({l['dtype'] for l in ls}):
    out.append('dtype:' + d)
  if len({l['dtype'] for l in ls}) > 1:
    out.append('mixed_dtypes')
  if any(l['shape'] == [0] for l in ls):
    out.append('empty_leaf')
  if any(l['shape'] == [] for l in ls):
    out.append('scalar_leaf')
  return out


def client_labels(case):
  return _client_labels(case) + (['mixed_leaf_dtypes_across_clients']
                                 if any(c.get('int_leaves') for c in case['clients']) else [])


def _client_labels(case):
  n = len(case['clients'])
  out = ['n=%d' % n if n < 3 else 'n>=3', 'input:' + case['input'],
         'leafkind:' + case['leafkind']]
  if case['perm'] != list(range(n)):
    out.append('permuted')
  if case.get('tied'):
    out.append('tied_leaves:' + case['tied'])
  if case.get('cid_kind') == 'repeated' and n > 1:
    out.append('repeated_client_ids')
  if n > 1:
    first = case['clients'][0]['leaves']
    if all(c['leaves'] == first for c in case['clients']):
      out.append('identical_clients')
    dts = [l['dtype'] for l in spec_leaves(case['tree'])]
    if any(any(first[j]) and c['leaves'][j] == negate(first[j], dts[j])
           for c in case['clients'][1:] for j in range(len(first))):
      out.append('cancelling_leaf')
  return out


def mean_labels(case):
  out = tree_labels(case['tree']) + client_labels(case)
  ws = [c['w'] for c in case['clients']]
  nz = [w for w in ws if w != 0]
  out.append('wkind:' + case['wkind'])
  if not nz:
    out.append('weights:all_zero')
  elif len(nz) == 1 and len(ws) > 1:
    out.append('weights:single_nonzero')
  elif len(nz) < len(ws):
    out.append('weights:some_zero')
  if len(set(nz)) >= 2:
    out.append('weights:distinct_nonzero')
  elif len(nz) >= 2:
    out.append('weights:equal')
  if any(w != int(w) for w in ws):
    out.append('weights:fractional')
  if any(w and (w < 0.125 or w > 1024) for w in ws):
    out.append('weights:wide_range')
  return out


def mean_nontrivial(case, ls):
  return ('n=1' not in ls and 'weights:distinct_nonzero' in ls
          and 'multi_leaf' in ls)


def sum_labels(case):
  return tree_labels(case['tree']) + client_labels(case)


def sum_nontrivial(case, ls):
  return 'n=1' not in ls and 'multi_leaf' in ls


def clip_labels(case):
  out = tree_labels(case['tree']) + ['leafkind:' + case['leafkind']]
  norm = clip_norm64(case)
  out.append('bound:' + ('abs' if 'abs' in case['bound'] else 'rel'))
  if norm == 0:
    out.append('zero_tree')
  if case['bound'].get('abs') == 0:
    out.append('bound_zero')
  if case['bound'].get('abs') == 'inf':
    out.append('bound_infinite')
  if case.get('bound_kind', 'float') != 'float':
    out.append('bound_is_an_integer:' + case['bound_kind'])
  return out


def clip_nontrivial(case, ls):
  return 'multi_leaf' in ls and 'zero_tree' not in ls


CHECKS = [
    Check(name='tree_mean', run=lambda c: run_mean(c, 'tree_mean'),
          strategy=lambda tier: mean_case(tier, 'tree_mean'),
          labels=mean_labels, nontrivial=mean_nontrivial,
          budget={'quick': 2000, 'thorough': 60000}, time_share=1.3,
          doc='tree_mean == float64 sum(w p)/sum(w) leaf by leaf (zeros, never '
              'NaN, for zero total weight), inside the hull, order independent '
              'within rounding, one-pass over iterators, inputs (leaves and '
              'weights) neither deleted, modified nor aliased by the result'),
    Check(name='mean_aggregator', run=lambda c: run_mean(c, 'aggregator'),
          strategy=lambda tier: mean_case(tier, 'aggregator'),
          labels=mean_labels, nontrivial=mean_nontrivial,
          budget={'quick': 1000, 'thorough': 30000}, time_share=0.7,
          doc='mean_aggregator().apply over (client_id, params, weight): same '
              'oracle as tree_mean, agrees with tree_mean, state returned '
              'unchanged'),
    Check(name='mean_from_pieces', run=run_pieces,
          strategy=lambda tier: mean_case(tier, 'tree_mean'),
          labels=mean_labels, nontrivial=mean_nontrivial,
          budget={'quick': 800, 'thorough': 20000}, time_share=0.5,
          doc='the weighted mean assembled from tree_zeros_like / tree_weight / '
              'tree_add / tree_inverse_weight (as mime_lite does): same float64 '
              'oracle; the client trees, the weighted trees and the running sum '
              'handed to the pieces are neither deleted, modified nor aliased'),
    Check(name='mean_float64', run=run_mean_x64, strategy=mean_x64_case,
          labels=lambda c: ['clients:%d' % len(x['weights']) for x in c['cases']][:3],
          nontrivial=lambda c, ls: True,
          budget={'quick': 32, 'thorough': 480}, time_share=0.6,
          doc='eight small cases per child interpreter with JAX_ENABLE_X64=1: tree_mean '
              '(list / generator), mean_aggregator and the pieces path over float64 leaves '
              'and non-dyadic weights against an exact rational reference at float64 accuracy'),
    Check(name='tree_sum', run=run_sum, strategy=sum_case,
          labels=sum_labels, nontrivial=sum_nontrivial,
          budget={'quick': 1400, 'thorough': 40000}, time_share=0.8,
          doc='tree_sum == float64 sum(p) (exact for int32), order independent '
              'within rounding, one-pass, inputs neither deleted, modified nor '
              'aliased (including the single-tree case)'),
    Check(name='clip_by_global_norm', run=run_clip, strategy=clip_case,
          labels=clip_labels, nontrivial=clip_nontrivial,
          budget={'quick': 2000, 'thorough': 60000}, time_share=1.2,
          doc='tree_clip_by_global_norm: |out| <= bound(1+eps), out is a '
              'positive multiple of in with factor min(1, bound/|in|), '
              'bit-identical below the bound, input left usable and unchanged'),
]
