"""C04 -- Shuffled batching samples without replacement, exact count, seeded.

Code under test: fedjax.ClientDataset.shuffle_repeat_batch
(fedjax/core/client_datasets.py, ShuffleRepeatBatchView).

Generated domain: (N, batch_size, num_epochs, num_steps, drop_remainder,
skip_shuffle, seed, calling form).  Rows carry their own index, so the stream
of drawn example indices is read directly off the batches.
Oracles: batch count by simulation of the documented rule; the index stream cut
into windows of N (permutation / no repeats / balanced usage / cyclic order);
repeated iteration compared array by array.
"""
import functools
import itertools
import math

import numpy as np
from hypothesis import strategies as st

import fedjax
from fedjax.core import client_datasets as cds

from vf.core import Check, require

PROPERTY_ID = 'C04'
NEEDS_TF = False
FUZZ_CHECKS = ['window_permutation', 'batch_count']
FUZZ_INSTRUMENT = ['fedjax.core.client_datasets']
FUZZ_RUNS = {'quick': 3000, 'thorough': 300000}
LEVEL = 'exploration'
RULE = ('Hypothesis draws N in 1..40 (thorough 1..120), batch_size in 1..50 '
        '(thorough 1..150) plus values tied to N and N*num_epochs (N-1, N, N+1, '
        '2N, 2N+1, 3N+1, N*E-1, N*E, N*E+1, divisors of N*E), num_epochs in '
        '{None,1..4} (thorough ..6), num_steps in {None, 0..12 (thorough ..30), '
        'values around the epoch-derived count and around k*N/B}, '
        'drop_remainder, skip_shuffle, seed in {None, 0..2^32-1}, the calling '
        'form (kwargs / hparams object / only non-default kwargs); an infinite '
        'stream (both None) is read through an islice prefix of generated '
        'length.  The re-shuffle family instead constructs enough complete '
        'windows W for its test to be decisive ((W-1)*log10(N!) >= 15).  '
        'A case is non-trivial when at least one batch is produced and '
        '(batch_size > N, or batch_size does not divide N and the stream holds '
        '>= 2N drawn examples); the re-shuffle / seed families additionally '
        'need N >= 2, shuffling enabled and their decisiveness condition.  '
        'distinct = distinct canonical case JSON.')
RULE += (
    ' '
    'Later widenings: call forms include hparams overridden partially, hparams.replace and po'
    'sitional construction; num_epochs up to 33 over small datasets; the dataset may be the h'
    'ead of a longer dataset in use; one case in thirteen has 257-1000 (rarely 66000) example'
    's.')
RULE += (
    ' '
    'Also: a third of the cases read the view through a consumer that overwrites its batches '
    'in place.')
ASSUMPTIONS = [
    'N >= 1 (an empty dataset with num_epochs=None never terminates; outside '
    'the property)',
    'num_epochs >= 1 or None, num_steps >= 0 or None, batch_size >= 1',
    'seeds are None or integers in [0, 2^32-1], the range '
    'numpy.random.RandomState accepts',
    'hparams are passed either as keyword arguments or as one '
    'ShuffleRepeatBatchHParams object, never both (that form fails for an '
    'unrelated reason: the hparams dataclass has no .replace)',
    'seed=None cases draw OS entropy inside fedjax; only clauses that must '
    'hold for every outcome of the shuffle are asserted for them',
    're-shuffle and seed-sensitivity clauses are probabilistic statements '
    'about a uniform shuffle: they are asserted only where a correct '
    'implementation fails with probability <= 1e-14 per case '
    '(all W complete windows identical: (1/N!)^(W-1) <= 1e-15; two adjacent '
    'windows identical, only for N >= 18: (W-1)/18! <= 1e-14; two different '
    'seeds giving the same W windows: (1/N!)^W <= 1e-15)',
    'no numeric tolerance is used anywhere: all comparisons are exact',
]

LOG10_FACT = [0.0] + [math.lgamma(n + 1) / math.log(10) for n in range(1, 400)]
DECISIVE = 15.0
ADJACENT_N = 18  # log10(18!) = 15.8

KW_DEFAULTS = dict(num_epochs=1, num_steps=None, drop_remainder=False,
                   seed=None, skip_shuffle=False)


# ------------------------------------------------------------------ oracle


def ref_count(n, b, epochs, steps, drop):
  """Documented number of batches, by simulation (None = never ends)."""
  if epochs is None:
    return steps
  remaining = n * epochs  # examples still owed to complete the passes
  count = 0
  while remaining >= b:
    remaining -= b
    count += 1
  if remaining > 0 and not drop:
    count += 1  # final batch, topped up with additionally sampled examples
  if steps is not None and steps < count:
    count = steps
  return count


def expected_batches(case):
  """(number of batches we expect to read, whether the stream is infinite)."""
  c = ref_count(case['n'], case['batch_size'], case['num_epochs'],
                case['num_steps'], case['drop_remainder'])
  if c is None:
    return case['take'], True
  return c, False


def stream_len(case):
  return expected_batches(case)[0] * case['batch_size']


# ------------------------------------------------------------- construction


def _add_y(x):
  return {**x, 'y': x['id'] * 3 + 1}


def make_dataset(case):
  n = case['n']
  m = n + (case.get('from_parent') or 0)
  raw = {'id': np.arange(m, dtype=np.int64)}
  prep = cds.NoOpBatchPreprocessor
  if case.get('extra'):
    raw['x'] = np.stack([np.arange(m), -np.arange(m)], axis=1).astype(np.float32)
    prep = cds.BatchPreprocessor([_add_y])
  ds = fedjax.ClientDataset(raw, prep)
  if case.get('from_parent'):
    # the dataset under test is the head ds[:n] of a longer dataset that was in
    # use before (its size asked for, a batch drawn from it)
    len(ds)
    next(iter(ds.shuffle_repeat_batch(batch_size=2, num_steps=1, seed=0)), None)
    ds = ds[:n]
  return ds


def make_view(ds, case, seed='case', call=None):
  kw = dict(batch_size=case['batch_size'], num_epochs=case['num_epochs'],
            num_steps=case['num_steps'], drop_remainder=case['drop_remainder'],
            seed=case['seed'] if seed == 'case' else seed,
            skip_shuffle=case['skip_shuffle'])
  call = call or case['call']
  if call == 'hparams':
    return ds.shuffle_repeat_batch(fedjax.ShuffleRepeatBatchHParams(**kw))
  if call == 'positional':
    # the hparams dataclass built positionally, in the order its docstring
    # lists the fields (batch_size, num_epochs, num_steps, drop_remainder,
    # seed, skip_shuffle)
    return ds.shuffle_repeat_batch(fedjax.ShuffleRepeatBatchHParams(
        kw['batch_size'], kw['num_epochs'], kw['num_steps'], kw['drop_remainder'],
        kw['seed'], kw['skip_shuffle']))
  if call == 'override':
    # Documented form: an hparams object overridden by keyword arguments.  The
    # object holds DIFFERENT values for every field; all of them are overridden,
    # including overrides to None (num_epochs=None / num_steps=None / seed=None
    # are meaningful values, not "unspecified").
    base = fedjax.ShuffleRepeatBatchHParams(
        batch_size=kw['batch_size'] + 2,
        num_epochs=3 if kw['num_epochs'] != 3 else 2,
        num_steps=5 if kw['num_steps'] != 5 else 4,
        drop_remainder=not kw['drop_remainder'],
        seed=11 if kw['seed'] != 11 else 12,
        skip_shuffle=not kw['skip_shuffle'])
    return ds.shuffle_repeat_batch(base, **kw)
  if call in ('partial_override', 'replace'):
    # A two-step history: an hparams object is built first and only SOME fields
    # are overridden afterwards (keyword overrides or hparams.replace).  Which
    # fields: num_epochs and num_steps always (the object holds the other one
    # of "None / a number" for each), the remaining fields alternate with the
    # batch size, so the object already carries their final values.
    b = kw['batch_size']
    over = {'num_epochs': kw['num_epochs'], 'num_steps': kw['num_steps']}
    base_kw = dict(kw)
    base_kw['num_epochs'] = None if kw['num_epochs'] is not None else 2
    base_kw['num_steps'] = 5 if kw['num_steps'] is None else (
        None if base_kw['num_epochs'] is not None else kw['num_steps'] + 1)
    for j, f in enumerate(['drop_remainder', 'seed', 'skip_shuffle', 'batch_size']):
      if (b + j) % 2:
        over[f] = kw[f]
        base_kw[f] = {'drop_remainder': not kw[f], 'skip_shuffle': not kw[f],
                      'seed': 11 if kw[f] != 11 else 12, 'batch_size': b + 2}[f]
    base = fedjax.ShuffleRepeatBatchHParams(**base_kw)
    if call == 'replace':
      return ds.shuffle_repeat_batch(base.replace(**over))
    return ds.shuffle_repeat_batch(base, **over)
  if call == 'defaults':
    # Only what differs from the documented defaults is passed.
    kw = {k: v for k, v in kw.items()
          if k == 'batch_size' or v != KW_DEFAULTS[k] or
          type(v) is not type(KW_DEFAULTS[k])}
  return ds.shuffle_repeat_batch(**kw)


def read(view, case):
  """Reads the view; never more than expected+3 batches (mutants may not end)."""
  want, infinite = expected_batches(case)
  it = itertools.islice(iter(view), want if infinite else want + 3)
  if not case.get('consumer_overwrites'):
    return list(it)
  # A consumer that works on its batches in place (normalises, masks, zeroes
  # what it has used): every batch is the consumer's own copy -- what it writes
  # there reaches neither the dataset nor the batches still to come.
  out = []
  for batch in it:
    out.append({k: np.array(v, copy=True) for k, v in batch.items()})
    for v in batch.values():
      if isinstance(v, np.ndarray) and v.flags.writeable and v.size:
        v[...] = -1
  return out


def check_batches(case, batches):
  """Every batch: expected features, exactly batch_size rows, consistent rows.

  Returns the flat stream of drawn example indices.
  """
  n, b = case['n'], case['batch_size']
  feats = {'id', 'x', 'y'} if case.get('extra') else {'id'}
  for bi, batch in enumerate(batches):
    require(set(batch) == feats, 'features_differ',
            lambda: f'batch {bi}: {sorted(batch)} vs {sorted(feats)}')
    for k in feats:
      require(np.shape(batch[k])[:1] == (b,), 'rows_per_batch',
              lambda: f'batch {bi} feature {k}: shape {np.shape(batch[k])}, '
              f'batch_size {b}')
    ids = np.asarray(batch['id'])
    require(ids.ndim == 1 and ids.dtype == np.int64, 'id_feature_changed',
            lambda: f'batch {bi}: {ids.dtype}{ids.shape}')
    require(bool(((ids >= 0) & (ids < n)).all()), 'row_not_from_dataset',
            lambda: f'batch {bi}: ids {ids.tolist()} N={n}')
    if case.get('extra'):
      x, y = np.asarray(batch['x']), np.asarray(batch['y'])
      ok = (x.shape == (b, 2) and x.dtype == np.float32 and
            bool((x[:, 0] == ids).all()) and bool((x[:, 1] == -ids).all()) and
            y.shape == (b,) and bool((y == ids * 3 + 1).all()))
      require(ok, 'rows_inconsistent_across_features',
              lambda: f'batch {bi}: id {ids.tolist()} x {x.tolist()} y {y.tolist()}')
  if not batches:
    return np.zeros((0,), np.int64)
  return np.concatenate([np.asarray(x['id']) for x in batches])


def check_count(case, batches):
  want, infinite = expected_batches(case)
  e, s, d = case['num_epochs'], case['num_steps'], case['drop_remainder']
  if infinite:
    clause = 'count:endless_stream_ended'
  elif e is None:
    clause = 'count:num_steps_only'
  elif s is None:
    clause = 'count:epochs_drop_remainder' if d else 'count:epochs'
  else:
    clause = 'count:min_of_steps_and_epochs'
  require(len(batches) == want, clause,
          lambda: f'N={case["n"]} B={case["batch_size"]} num_epochs={e} '
          f'num_steps={s} drop_remainder={d}: got '
          f'{len(batches)}{"+" if len(batches) > want else ""} batches, '
          f'documented {want}')


def same_batches(a, b):
  if len(a) != len(b):
    return False
  for x, y in zip(a, b):
    if set(x) != set(y):
      return False
    for k in x:
      u, v = np.asarray(x[k]), np.asarray(y[k])
      if u.dtype != v.dtype or u.shape != v.shape or not bool((u == v).all()):
        return False
  return True


def windows_of(ids, n):
  w = len(ids) // n
  return ids[:w * n].reshape(w, n), ids[w * n:]


# -------------------------------------------------------------------- runs


def run_count(case):
  ds = make_dataset(case)
  batches = read(make_view(ds, case), case)
  check_count(case, batches)
  check_batches(case, batches)


def run_windows(case):
  n, b = case['n'], case['batch_size']
  ds = make_dataset(case)
  batches = read(make_view(ds, case), case)
  check_count(case, batches)
  ids = check_batches(case, batches)
  full, tail = windows_of(ids, n)
  if full.shape[0]:
    good = (np.sort(full, axis=1) == np.arange(n)).all(axis=1)
    require(bool(good.all()), 'window_not_permutation',
            lambda: f'N={n} B={b}: window {int(np.argmin(good))} of the index '
            f'stream is {full[int(np.argmin(good))].tolist()}')
  require(len(set(tail.tolist())) == len(tail), 'partial_window_repeats',
          lambda: f'N={n} B={b}: trailing partial window {tail.tolist()}')
  # Direct consequences named in the statement / the docstring.
  need = -(-n // b)
  if len(batches) >= need:
    head = ids[:need * b]
    require(len(set(head.tolist())) == n, 'first_batches_do_not_cover',
            lambda: f'N={n} B={b}: first {need} batches hold {sorted(set(head.tolist()))}')
  counts = np.zeros((n,), np.int64)
  for bi, batch in enumerate(batches):
    counts += np.bincount(np.asarray(batch['id']), minlength=n)
    require(int(counts.max() - counts.min()) <= 1, 'usage_imbalance',
            lambda: f'N={n} B={b}: after batch {bi} usage counts {counts.tolist()}')
  if case['skip_shuffle']:
    require(bool((ids == np.arange(len(ids)) % n).all()),
            'skip_shuffle_not_cyclic_order',
            lambda: f'N={n} B={b}: stream {ids.tolist()}')


def run_cyclic(case):
  n = case['n']
  ds = make_dataset(case)
  batches = read(make_view(ds, case), case)
  check_count(case, batches)
  ids = check_batches(case, batches)
  want = np.arange(len(ids)) % n
  require(bool((ids == want).all()), 'skip_shuffle_not_cyclic_order',
          lambda: f'N={n} B={case["batch_size"]}: stream {ids.tolist()}')


def reshuffle_decisive(n, w):
  return n >= 2 and w >= 2 and (w - 1) * LOG10_FACT[n] >= DECISIVE


def seeds_decisive(n, w):
  return n >= 2 and w >= 1 and w * LOG10_FACT[n] >= DECISIVE


def run_reshuffle(case):
  n, b = case['n'], case['batch_size']
  ds = make_dataset(case)
  batches = read(make_view(ds, case), case)
  check_count(case, batches)
  ids = check_batches(case, batches)
  full, _ = windows_of(ids, n)
  w = full.shape[0]
  extra = []
  if w:
    good = (np.sort(full, axis=1) == np.arange(n)).all(axis=1)
    require(bool(good.all()), 'window_not_permutation',
            lambda: f'N={n} B={b}: window {int(np.argmin(good))} is '
            f'{full[int(np.argmin(good))].tolist()}')
  if reshuffle_decisive(n, w):
    extra.append('decided:all_windows_identical')
    require(not bool((full == full[0]).all()), 'windows_never_reshuffled',
            lambda: f'N={n} B={b} seed={case["seed"]}: all {w} complete windows '
            f'equal {full[0].tolist()}')
  if n >= ADJACENT_N and w >= 2:
    extra.append('decided:adjacent_windows')
    same = (full[1:] == full[:-1]).all(axis=1)
    require(not bool(same.any()), 'adjacent_windows_identical',
            lambda: f'N={n} B={b} seed={case["seed"]}: windows '
            f'{int(np.argmax(same))} and {int(np.argmax(same)) + 1} both '
            f'{full[int(np.argmax(same))].tolist()}')
  if seeds_decisive(n, w):
    extra.append('decided:seed_sensitivity')
    other = read(make_view(ds, case, seed=case['seed2']), case)
    ids2 = check_batches(case, other)
    require(len(ids2) == len(ids), 'count_depends_on_seed',
            lambda: f'{len(ids)} vs {len(ids2)} drawn examples')
    full2, _ = windows_of(ids2, n)
    require(not bool((full2 == full).all()), 'seed_has_no_effect',
            lambda: f'N={n} B={b}: seeds {case["seed"]} and {case["seed2"]} '
            f'give the same {w} windows, first {full[0].tolist()}')
  return extra


def run_repeat(case):
  ds = make_dataset(case)
  view = make_view(ds, case)
  first = read(view, case)
  check_count(case, first)
  check_batches(case, first)
  second = read(view, case)
  require(same_batches(first, second), 'second_iteration_differs',
          lambda: _diff(case, first, second))
  third = read(view, case)
  require(same_batches(first, third), 'third_iteration_differs',
          lambda: _diff(case, first, third))
  view2 = make_view(ds, case)
  require(same_batches(first, read(view2, case)), 'second_view_differs',
          lambda: _diff(case, first, read(view2, case)))
  # Two passes over the same view that are alive at the same time (the view
  # "can be iterated over multiple times"; nothing says one pass must finish
  # before the next starts): advanced in lock-step, each yields the seeded stream.
  want, _ = expected_batches(case)
  limit = want if expected_batches(case)[1] else want + 3
  it_a, it_b = iter(view), iter(view)
  inter_a, inter_b = [], []
  for _ in range(limit):
    xa = next(it_a, None)
    xb = next(it_b, None)
    if xa is None and xb is None:
      break
    if xa is not None:
      inter_a.append(xa)
    if xb is not None:
      inter_b.append(xb)
  require(same_batches(first, inter_a) and same_batches(first, inter_b),
          'interleaved_iterations_differ',
          lambda: _diff(case, first, inter_a) + ' | ' + _diff(case, first, inter_b))
  # A pass that is abandoned half-way (islice over an endless stream, an early
  # break, an exception in the consumer) leaves nothing behind: the next pass
  # over the same view is the seeded stream again.
  if len(first) >= 2:
    partial = iter(view)
    for _ in range(max(1, len(first) // 2)):
      next(partial)
    del partial
    after = read(view, case)
    require(same_batches(first, after), 'iteration_after_an_abandoned_pass_differs',
            lambda: _diff(case, first, after))
  other_call = 'hparams' if case['call'] != 'hparams' else 'kwargs'
  view3 = make_view(make_dataset(case), case, call=other_call)
  got = read(view3, case)
  require(same_batches(first, got), 'equal_dataset_other_call_form_differs',
          lambda: _diff(case, first, got))


def _diff(case, a, b):
  ia = [np.asarray(x['id']).tolist() for x in a]
  ib = [np.asarray(x['id']).tolist() for x in b]
  return (f'N={case["n"]} B={case["batch_size"]} seed={case["seed"]}: '
          f'{ia} vs {ib}')


# ---------------------------------------------------------------- strategies
#
# Building Hypothesis strategies is far more expensive than running a case
# here, so the composites below draw from a handful of module-level strategies
# or from sampled_from strategies cached per value tuple (`pick`); uniform
# sampling is used for small ranges because st.integers is heavily biased
# towards its lower bound.  Index 0 is the shrink target, so every sequence
# lists its simplest value first.

BOOL = st.booleans()
SEEDS = st.one_of(st.sampled_from(range(21)),
                  st.sampled_from([1, 0, 2**31 - 1, 2**31, 2**32 - 1, 12345]),
                  st.integers(0, 2**32 - 1),
                  st.integers(2**16, 2**32 - 1))
CALLS = ['kwargs', 'hparams', 'defaults', 'override', 'partial_override', 'replace', 'positional']


@functools.lru_cache(maxsize=None)
def _sampled(seq):
  return st.sampled_from(seq)


def pick(draw, seq):
  return draw(_sampled(tuple(seq)))


def _bounds(tier):
  if tier == 'quick':
    return dict(nmax=40, bmax=50, emax=4, smax=12)
  return dict(nmax=120, bmax=150, emax=6, smax=30)


def draw_size(draw, nmax):
  kind = pick(draw, ['full', 'full', 'small', 'tiny'] * 3 + ['large'])
  if kind == 'large':
    # beyond what an 8-bit (rarely: a 16-bit) example index can address
    return pick(draw, [257, 300, 511, 1000, 257, 300, 66000])
  if kind == 'full':
    return pick(draw, range(2, nmax + 1))
  if kind == 'small':
    return pick(draw, range(2, 13))
  return pick(draw, [2, 1, 3, 5, 1, 8])


def draw_batch_size(draw, n, total, bmax):
  kind = pick(draw, ['any', 'non_divisor', 'non_divisor', 'above_n', 'special',
                     'divisor'])
  if kind == 'any':
    return pick(draw, range(1, bmax + 1))
  if kind == 'non_divisor':
    return pick(draw, [d for d in range(2, n) if n % d] or [n + 1])
  if kind == 'above_n':
    return pick(draw, range(n + 1, max(bmax, 3 * n + 1) + 1))
  if kind == 'special':
    return pick(draw, sorted({1, 2, max(1, n - 1), n, n + 1, 2 * n, 2 * n + 1,
                              3 * n + 1, max(1, total - 1), total, total + 1}))
  return pick(draw, [d for d in range(1, total + 1) if total % d == 0])


def draw_steps(draw, smax):
  """0..smax with 0 (no batches at all) kept to a few per cent."""
  if pick(draw, [0, 1, 2, 3]) == 3:
    return pick(draw, [1, 0, 2])
  return pick(draw, range(1, smax + 1))


@st.composite
def hp_strategy(draw, tier, shuffle='any', seeds='any'):
  bd = _bounds(tier)
  n = draw_size(draw, bd['nmax'])
  epochs = pick(draw, [2, 1, None, 3, 1, None, 4, 2, None, 1] +
                list(range(4, bd['emax'] + 1)) + [3, 11, 25, 33])
  if epochs is not None and epochs > bd['emax']:
    # many epochs over a small dataset (the epoch-derived count is an integer
    # function of N * num_epochs, whatever the magnitudes)
    n = 1 + n % 25
  total = n * (epochs if epochs is not None else pick(draw, [1, 2, 3]))
  b = draw_batch_size(draw, n, total, bd['bmax'])
  drop = draw(BOOL)
  if epochs is None:
    kind = pick(draw, ['near', 'none', 'plain', 'none', 'near'])
    if kind == 'near':  # around k passes over the data
      c = -(-pick(draw, [1, 2, 3, 4]) * n // b)
      steps = pick(draw, range(max(0, c - 1), c + 2))
    else:
      steps = None if kind == 'none' else draw_steps(draw, bd['smax'])
  else:
    kind = pick(draw, ['none', 'near', 'plain', 'none'])
    if kind == 'near':  # around the epoch-derived count
      c = ref_count(n, b, epochs, None, drop)
      steps = pick(draw, range(max(0, c - 2), c + 3))
    else:
      steps = None if kind == 'none' else draw_steps(draw, bd['smax'])
  if shuffle == 'any':
    skip = pick(draw, [False, False, True, False])
  elif shuffle == 'mostly_on':
    skip = pick(draw, [False] * 9 + [True])
  else:
    skip = shuffle == 'off'
  if seeds == 'int' or pick(draw, [1, 0, 2, 3]) != 0:
    seed = draw(SEEDS)
  else:
    seed = None
  case = {'n': n, 'batch_size': b, 'num_epochs': epochs, 'num_steps': steps,
          'drop_remainder': drop, 'skip_shuffle': skip, 'seed': seed,
          'call': pick(draw, CALLS), 'extra': pick(draw, [False, False, True]),
          'from_parent': pick(draw, [0, 0, 0, 3, 7]),
          'consumer_overwrites': pick(draw, [False, False, True])}
  if epochs is None and steps is None:
    if pick(draw, [0, 1]):
      c = -(-pick(draw, [1, 2, 3, 4]) * n // b)
      case['take'] = pick(draw, range(c, c + 3))
    else:
      case['take'] = draw_steps(draw, bd['smax'])
  return case


def min_windows(n):
  """Smallest W with (W-1)*log10(N!) >= DECISIVE."""
  return 1 + int(math.ceil(DECISIVE / LOG10_FACT[n] - 1e-12))


@st.composite
def reshuffle_strategy(draw, tier):
  bd = _bounds(tier)
  kind = pick(draw, ['full', 'small', 'adjacent'])
  if kind == 'full':
    n = pick(draw, range(2, bd['nmax'] + 1))
  elif kind == 'small':
    n = pick(draw, range(2, 13))
  else:
    n = pick(draw, range(ADJACENT_N, bd['nmax'] + 1))
  w = min_windows(n) + pick(draw, [0, 1, 2, 3])
  total = n * w
  b = draw_batch_size(draw, n, n * pick(draw, [1, 2, 3]), bd['bmax'])
  mode = pick(draw, ['epochs', 'steps', 'epochs', 'both', 'endless'])
  drop = draw(BOOL)
  seed = draw(SEEDS)
  seed2 = draw(SEEDS)
  if seed2 == seed:
    seed2 = (seed + 1) % 2**32
  case = {'n': n, 'batch_size': b, 'num_epochs': None, 'num_steps': None,
          'drop_remainder': drop, 'skip_shuffle': False, 'seed': seed,
          'seed2': seed2, 'call': pick(draw, CALLS),
          'extra': pick(draw, [False, False, False, True]),
          'from_parent': pick(draw, [0, 0, 0, 3, 7]),
          'consumer_overwrites': pick(draw, [False, False, True])}
  nb = -(-total // b) + pick(draw, [0, 1, 2])
  if mode == 'epochs':
    # one more pass when the remainder is dropped, so W windows stay complete
    case['num_epochs'] = w + (1 if drop and total % b else 0)
  elif mode == 'steps':
    case['num_steps'] = nb
  elif mode == 'both':
    case['num_epochs'] = w + pick(draw, [1, 2])
    case['num_steps'] = nb
  else:
    case['take'] = nb
  return case


# ------------------------------------------------------------ classification


def labels(case):
  n, b = case['n'], case['batch_size']
  e, s = case['num_epochs'], case['num_steps']
  want, infinite = expected_batches(case)
  ls = []
  if case.get('consumer_overwrites'):
    ls.append('consumer_overwrites_its_batches_in_place')
  if b > 2 * n:
    ls.append('B>2N')
  elif b > n:
    ls.append('N<B<=2N')
  elif n % b == 0:
    ls.append('B|N')
  else:
    ls.append('B∤N')
  if n == 1:
    ls.append('N=1')
  ls.append('num_epochs=None' if e is None else
            ('num_epochs=1' if e == 1 else 'num_epochs>=2'))
  ls.append('num_steps=None' if s is None else
            ('num_steps=0' if s == 0 else 'num_steps>0'))
  if infinite:
    ls.append('endless_stream')
  if e is not None and s is not None:
    c = ref_count(n, b, e, None, case['drop_remainder'])
    ls.append('steps_bind' if s < c else
              ('steps==epoch_count' if s == c else 'epochs_bind'))
  if e is not None:
    ls.append('B|N*E' if (n * e) % b == 0 else 'B∤N*E')
    if b > n * e:
      ls.append('B>N*E')
  if case['drop_remainder']:
    ls.append('drop_remainder')
  ls.append('skip_shuffle' if case['skip_shuffle'] else 'shuffled')
  ls.append('seed=None' if case['seed'] is None else 'seed=int')
  ls.append('call:' + case['call'])
  if case.get('extra'):
    ls.append('multi_feature+preprocessor')
  length = want * b
  if want == 0:
    ls.append('no_batches')
  w = length // n
  ls.append('windows:0' if w == 0 else ('windows:1' if w == 1 else 'windows>=2'))
  if length % n:
    ls.append('partial_trailing_window')
  if want and b % n and n % b and length > n:
    ls.append('batch_straddles_epochs')
  return ls


def base_nontrivial(case):
  n, b = case['n'], case['batch_size']
  want, _ = expected_batches(case)
  return want >= 1 and (b > n or (n % b != 0 and want * b >= 2 * n))


def nontrivial(case, ls):
  return base_nontrivial(case)


def nontrivial_reshuffle(case, ls):
  n = case['n']
  w = stream_len(case) // n
  return base_nontrivial(case) and (reshuffle_decisive(n, w) or
                                    (n >= ADJACENT_N and w >= 2))


def nontrivial_repeat(case, ls):
  return (base_nontrivial(case) and case['n'] >= 2 and
          not case['skip_shuffle'])


CHECKS = [
    Check(name='batch_count', run=run_count,
          strategy=lambda tier: hp_strategy(tier),
          labels=labels, nontrivial=nontrivial,
          budget={'quick': 8000, 'thorough': 100000},
          doc='number of batches == documented function of (N, batch_size, '
              'num_epochs, num_steps, drop_remainder), simulated independently; '
              'endless stream does not end; every batch has exactly batch_size '
              'rows in every feature and rows stay aligned across features'),
    Check(name='window_permutation', run=run_windows,
          strategy=lambda tier: hp_strategy(tier),
          labels=labels, nontrivial=nontrivial,
          budget={'quick': 11000, 'thorough': 140000},
          doc='index stream cut into windows of N: complete windows are '
              'permutations, trailing partial window has no repeats, the first '
              'ceil(N/B) batches cover the dataset, usage counts differ by <= 1 '
              'after every batch'),
    Check(name='skip_shuffle_cyclic', run=run_cyclic,
          strategy=lambda tier: hp_strategy(tier, shuffle='off'),
          labels=labels, nontrivial=nontrivial,
          budget={'quick': 3000, 'thorough': 40000},
          doc='skip_shuffle=True: the stream is 0,1,..,N-1,0,1,.. whatever the '
              'seed'),
    Check(name='reshuffle', run=run_reshuffle,
          strategy=reshuffle_strategy,
          labels=labels, nontrivial=nontrivial_reshuffle,
          budget={'quick': 4000, 'thorough': 50000},
          doc='successive windows are re-shuffled (not all identical once that '
              'is decisive; adjacent ones differ for N>=18) and two different '
              'seeds do not give the same stream'),
    Check(name='seeded_repeat', run=run_repeat,
          strategy=lambda tier: hp_strategy(tier, shuffle='mostly_on', seeds='int'),
          labels=labels, nontrivial=nontrivial_repeat,
          budget={'quick': 6000, 'thorough': 70000},
          doc='fixed seed: 2nd and 3rd iteration of a view, a second view of '
              'the same dataset and a view of an equal dataset built through '
              'the other calling form all yield identical batches'),
]
