#!/usr/bin/env python3
"""Entry point registered in MANIFEST.json.

  python3 check.py C03 --tier quick
  python3 check.py C03 --tier thorough
  python3 check.py C03 --replay out/replays/C03/<file>.json

Exit 0: property held on everything explored (KNOWN-FINDING lines may be printed).
Exit 1: `VIOLATION property=<id> replay=<path>` printed.
Exit 2: harness error / inconclusive (never reported as a violation).
"""
import os
import sys

sys.path.insert(0, os.path.dirname(os.path.abspath(__file__)))
from vf import runner  # pylint: disable=g-import-not-at-top,wrong-import-position

if __name__ == '__main__':
  sys.exit(runner.main())
