#!/usr/bin/env python3
"""Confirms a seeded change and files it under /verif/seeded/<PID>/<name>/.

  tools/seeded.py verify C03 /tmp/seed-C03/_seeded/change1 <name> [--check-args "..."]

Steps (all in a scratch worktree of /repo under /tmp, removed afterwards):
  1. demo.py on the unmodified tree must exit 0;
  2. the existing test files next to the touched sources are run before and after
     the change: every test that passed before must still pass;
  3. demo.py with the change applied must exit non-zero;
  4. the registered quick check of the property is run against a copy of /repo
     with the change applied (tools/with_patch.sh) and its exit code recorded.
Nothing is ever applied to /repo itself.
"""
import argparse
import json
import os
import shutil
import subprocess
import sys
import tempfile
import xml.etree.ElementTree as ET

VERIF = os.path.dirname(os.path.dirname(os.path.abspath(__file__)))
PY = '/venv/bin/python'


def sh(cmd, cwd=None, env=None, timeout=3600):
  p = subprocess.run(cmd, cwd=cwd, env=env, shell=isinstance(cmd, str),
                     capture_output=True, text=True, timeout=timeout)
  return p.returncode, p.stdout + p.stderr


def touched_files(patch):
  out = []
  for line in open(patch):
    if line.startswith('+++ b/'):
      out.append(line[6:].strip())
  return out


def test_files(wt, files):
  tests = []
  for f in files:
    if f.endswith('_test.py'):
      cand = f
    else:
      cand = f[:-3] + '_test.py'
    if os.path.exists(os.path.join(wt, cand)) and cand not in tests:
      tests.append(cand)
  return tests


def run_tests(wt, tests, tag):
  if not tests:
    return set(), ''
  xml = os.path.join(wt, f'_junit_{tag}.xml')
  env = dict(os.environ, JAX_PLATFORMS='cpu', TF_CPP_MIN_LOG_LEVEL='3')
  rc, out = sh([PY, '-m', 'pytest', '-q', '-p', 'no:cacheprovider', '--timeout=1800',
                f'--junitxml={xml}'] + tests, cwd=wt, env=env, timeout=7200)
  passed = set()
  if os.path.exists(xml):
    for tc in ET.parse(xml).iter('testcase'):
      if not any(ch.tag in ('failure', 'error', 'skipped') for ch in tc):
        passed.add(f"{tc.get('classname')}::{tc.get('name')}")
  return passed, out[-800:]


def main():
  ap = argparse.ArgumentParser()
  ap.add_argument('cmd', choices=['verify'])
  ap.add_argument('pid')
  ap.add_argument('src')
  ap.add_argument('name')
  ap.add_argument('--check-args', default='--tier quick')
  ap.add_argument('--skip-tests', action='store_true')
  args = ap.parse_args()

  src = os.path.abspath(args.src)
  patch = os.path.join(src, 'patch.diff')
  demo = os.path.join(src, 'demo.py')
  meta = json.load(open(os.path.join(src, 'meta.json')))
  record = {'property': args.pid, 'verified_by': 'tools/seeded.py'}

  wt = tempfile.mkdtemp(prefix='seedverify-', dir='/tmp')
  os.rmdir(wt)
  rc, out = sh(['git', '-C', '/repo', 'worktree', 'add', '--detach', wt, 'HEAD'])
  assert rc == 0, out
  try:
    os.makedirs(os.path.join(wt, '_seeded', 'x'))
    shutil.copy(demo, os.path.join(wt, '_seeded', 'x', 'demo.py'))
    env = dict(os.environ, JAX_PLATFORMS='cpu', TF_CPP_MIN_LOG_LEVEL='3')
    files = touched_files(patch)
    tests = test_files(wt, files)
    rc0, out0 = sh([PY, '_seeded/x/demo.py'], cwd=wt, env=env)
    record['demo_unmodified_exit'] = rc0
    before, _ = (set(), '') if args.skip_tests else run_tests(wt, tests, 'before')
    rc, out = sh(['git', 'apply', patch], cwd=wt)
    assert rc == 0, 'patch does not apply: ' + out
    rc1, out1 = sh([PY, '_seeded/x/demo.py'], cwd=wt, env=env)
    record['demo_with_change_exit'] = rc1
    record['demo_with_change_tail'] = out1[-400:]
    after, tail = (set(), '') if args.skip_tests else run_tests(wt, tests, 'after')
    record['existing_tests'] = {'files': tests, 'passed_before': len(before),
                                'passed_after': len(after),
                                'newly_failing': sorted(before - after)}
  finally:
    sh(['git', '-C', '/repo', 'worktree', 'remove', '--force', wt])
    shutil.rmtree(wt, ignore_errors=True)

  cmd = f'tools/with_patch.sh {patch} python3 check.py {args.pid} {args.check_args}'
  rc, out = sh(cmd, cwd=VERIF, timeout=7200)
  lines = [l for l in out.splitlines() if l.startswith(('VIOLATION', '  check=', args.pid + ' tier'))]
  record['check_cmd'] = cmd.replace(patch, f'seeded/{args.pid}/{args.name}/patch.diff')
  record['check_exit'] = rc
  record['check_output'] = lines[:8]
  ok = (rc0 == 0 and rc1 != 0 and not record.get('existing_tests', {}).get('newly_failing'))
  record['confirmed'] = ok
  record['detected'] = rc == 1
  print(json.dumps(record, indent=1))
  if ok:
    dst = os.path.join(VERIF, 'seeded', args.pid, args.name)
    os.makedirs(dst, exist_ok=True)
    shutil.copy(patch, os.path.join(dst, 'patch.diff'))
    shutil.copy(demo, os.path.join(dst, 'demo.py'))
    meta['verification'] = record
    with open(os.path.join(dst, 'meta.json'), 'w') as f:
      json.dump(meta, f, indent=1)
  return 0 if ok else 1


if __name__ == '__main__':
  sys.exit(main())
