#!/usr/bin/env python3
"""Compares a junit xml of the repo's suite with BASELINE.json's stable_pass list."""
import json, sys, xml.etree.ElementTree as ET
base = json.load(open('/root/.vp/BASELINE.json'))
stable = set(base['stable_pass'])
tree = ET.parse(sys.argv[1])
passed = set()
for tc in tree.iter('testcase'):
  name = f"{tc.get('classname')}::{tc.get('name')}"
  bad = any(ch.tag in ('failure', 'error', 'skipped') for ch in tc)
  if not bad:
    passed.add(name)
missing = sorted(stable - passed)
print(f'stable={len(stable)} passed_now={len(passed)} stable_missing={len(missing)}')
for m in missing: print('  MISSING', m)
print('newly passing:', len(passed - stable))
for m in sorted(passed - stable): print('  +', m)
sys.exit(1 if missing else 0)
