#!/bin/bash
# usage: tools/verify_queue.sh <log> <jobs> "<PID> <srcdir> <name>" ...
# Runs tools/seeded.py verify for each triple, one after the other.
log=$1; jobs=$2; shift 2
for t in "$@"; do
  set -- $t
  python3 /verif/tools/seeded.py verify $1 $2 $3 --check-args "--tier quick --jobs $jobs" > /verif/out/sv/$1-$3.json 2>&1
  echo "$1 $3 rc=$? $(grep -o '"detected": [a-z]*' /verif/out/sv/$1-$3.json)" >> $log
done
