#!/usr/bin/env python3
"""Prints a markdown table of the seeded changes filed under /verif/seeded.

  tools/seeded_report.py            full table (long cells)
  tools/seeded_report.py --design   compact table; with --splice it is written
                                    between the SEEDED-TABLE markers of DESIGN.md
"""
import glob, json, os, sys
root = os.path.dirname(os.path.dirname(os.path.abspath(__file__)))
design = '--design' in sys.argv
lines = []
if design:
  lines.append('| property | change | what was changed (needs → see meta.json) | caught by (first clauses) | first run |')
  lines.append('|---|---|---|---|---|')
else:
  lines.append('| property | change | what was changed | needs | caught by (first clauses) |')
  lines.append('|---|---|---|---|---|')
n = missed = undetected = 0
for m in sorted(glob.glob(os.path.join(root, 'seeded', '*', '*', 'meta.json'))):
  d = json.load(open(m))
  v = d.get('verification', {})
  pid = v.get('property', d.get('property'))
  name = os.path.basename(os.path.dirname(m))
  clauses = []
  for l in v.get('check_output', []):
    if 'clause=' in l:
      c = l.split('check=')[1].split(' ')[0] + ':' + l.split('clause=')[1].split(' ')[0]
      if c not in clauses:
        clauses.append(c)
  n += 1
  if d.get('initially_missed'):
    missed += 1
  if not v.get('detected') and not d.get('not_claimed'):
    undetected += 1
  det = ', '.join(f'`{c}`' for c in clauses[:(2 if design else 3)]) if v.get('detected') else (
      'not claimed: ' + d['not_claimed'][:200] if d.get('not_claimed') else '**not detected**')
  summ = d.get('summary', '').replace('|', '/').replace('\n', ' ')
  needs = d.get('needs', '').replace('|', '/').replace('\n', ' ')
  if design:
    first = ('missed → ' + d.get('strengthening', '').replace('|', '/').replace('\n', ' ')[:160]) if d.get('initially_missed') else 'caught'
    lines.append(f'| {pid} | {name} | {summ[:200]} | {det} | {first} |')
  else:
    lines.append(f'| {pid} | {name} | {summ[:230]} | {needs[:200]} | {det} |')
lines.append('')
lines.append(f'{n} seeded changes filed; {missed} were missed by the checks as they stood when the change '
             f'arrived and led to a strengthening; {undetected} are not detected now.')
text = '\n'.join(lines)
if '--splice' in sys.argv:
  p = os.path.join(root, 'DESIGN.md')
  s = open(p).read()
  b, e = '<!-- SEEDED-TABLE-BEGIN -->', '<!-- SEEDED-TABLE-END -->'
  i, j = s.index(b) + len(b), s.index(e)
  open(p, 'w').write(s[:i] + '\n' + text + '\n' + s[j:])
else:
  print(text)
