#!/usr/bin/env python3
"""Prints a markdown table of the seeded changes filed under /verif/seeded."""
import glob, json, os
root = os.path.dirname(os.path.dirname(os.path.abspath(__file__)))
print('| property | change | what was changed | needs | caught by (first clauses) |')
print('|---|---|---|---|---|')
for m in sorted(glob.glob(os.path.join(root, 'seeded', '*', '*', 'meta.json'))):
  d = json.load(open(m))
  v = d.get('verification', {})
  pid = v.get('property', d.get('property'))
  name = os.path.basename(os.path.dirname(m))
  clauses = []
  for l in v.get('check_output', []):
    if 'clause=' in l:
      c = l.split('check=')[1].split(' ')[0] + ':' + l.split('clause=')[1].split(' ')[0]
      if c not in clauses:
        clauses.append(c)
  det = ', '.join(f'`{c}`' for c in clauses[:3]) if v.get('detected') else '**not detected**'
  summ = d.get('summary', '').replace('|', '/').replace('\n', ' ')[:230]
  needs = d.get('needs', '').replace('|', '/').replace('\n', ' ')[:200]
  print(f'| {pid} | {name} | {summ} | {needs} | {det} |')
