#!/bin/bash
# usage: tools/triage.sh <round> <jobs> <PID>...   -- quick look: do the checks of <PID> fail on its round-<round> candidates?
# (candidates in /tmp/seed<round>-<PID>/_seeded/change{1,2}; the full confirmation is tools/seeded.py verify)
r=$1; j=$2; shift 2
for p in "$@"; do for c in 1 2; do
  out=$(/verif/tools/with_patch.sh /tmp/seed$r-$p/_seeded/change$c/patch.diff python3 /verif/check.py $p --tier quick --jobs $j 2>&1 | grep -v "^WARNING\|KNOWN-FINDING")
  echo "== $p change$c: $(echo "$out" | tail -1)"
  echo "$out" | grep -m2 "check=" | cut -c1-260
done; done
