#!/usr/bin/env python3
"""Prints the prompt for an independent seeded-change agent for one property."""
import json, sys
pid = sys.argv[1]; wt = sys.argv[2]
rnd = int(sys.argv[3]) if len(sys.argv) > 3 else 1
import glob, os
prior = []
if rnd > 1:
  for m in sorted(glob.glob(f'/verif/seeded/{pid}/*/meta.json')):
    try:
      prior.append(json.load(open(m)).get('summary', ''))
    except Exception:
      pass
  # candidates of the previous round that are still being confirmed (not filed yet)
  for m in sorted(glob.glob(f'/tmp/seed{rnd - 1}-{pid}/_seeded/change*/meta.json')):
    try:
      t = json.load(open(m)).get('summary', '')
      if t and t not in prior:
        prior.append(t)
    except Exception:
      pass
for l in open('/verif/properties.jsonl'):
  d = json.loads(l)
  if d['id'] == pid: break
text = (f"""You are helping to evaluate a verification effort for the open-source Python library google/fedjax (a JAX-based library for simulating federated learning). You work ONLY inside your own scratch git worktree of the repository at {wt} (already created for you, checked out at the current HEAD of the repository). Do not read or write anything under /verif or /repo, and do not look for verification machinery anywhere: your work must be independent of it.

Here is a semantic property the library is supposed to satisfy:

  Title: {d['title']}
  Statement: {d['statement']}
  Quantifier: {d['quantifier']['text']}
  Code it is anchored in: {', '.join(d['anchors']['files'])}

YOUR TASK: produce TWO different, realistic changes to the library source (each a small diff of the kind that could slip through code review: an off-by-one, a dropped guard, a wrong operand, a cached value, a reordered pair of operations, two cooperating sites that each look fine alone, ...) such that each change
  (a) BREAKS the property above,
  (b) still compiles/imports and PASSES the repository's existing unit tests that cover the touched files (run them from inside your worktree, e.g. `cd {wt} && /venv/bin/python -m pytest -q -p no:cacheprovider fedjax/core/<file>_test.py` — running from the worktree root makes `import fedjax` resolve to your worktree; note that some test files already fail on the unmodified tree for environmental reasons (missing network, removed jax symbols, missing TensorBoard): a test that fails identically before and after your change does not count against you, but a test that passed before must still pass after), and
  (c) needs something SPECIFIC to manifest — a particular input shape/size relation, an unusual but valid input, a multi-step sequence of operations, a crash or fault at a particular point, a particular interleaving — rather than being exposed by the most ordinary use at once. Prefer subtle changes over blatant ones. The two changes should have different root causes and ideally touch different functions.

For EACH change deliver, under {wt}/_seeded/change1/ and {wt}/_seeded/change2/:
  - patch.diff : `git diff` of the change against the worktree HEAD (source files only, not _seeded/). It must apply cleanly with `git apply` at the repository root.
  - demo.py : a small stand-alone Python program (run as `cd <repo root> && JAX_PLATFORMS=cpu /venv/bin/python _seeded/changeN/demo.py`) that exits 0 and prints PASS on the unmodified tree and exits 1 and prints FAIL (with a short explanation) with your change applied. It must begin with `import os, sys; sys.path.insert(0, os.getcwd())` so that `import fedjax` resolves to the tree it is run from, and it must check the property itself on a concrete input/sequence, not the implementation detail you changed.
  - meta.json : {{"property": "{pid}", "summary": "<one sentence: what was changed>", "needs": "<what specific input/sequence/fault is needed for the violation to show>", "files": [...], "tests_run": "<which existing tests you ran and their result before/after>"}}
Do NOT use `git stash` (the stash is shared by all worktrees of the repository and others work in sibling worktrees at the same time): use `git diff > file`, `git checkout -- fedjax`, `git apply file`. Leave the worktree's source files UNMODIFIED at the end (git checkout -- fedjax) so that only _seeded/ is new. Verify each demo both ways yourself (unmodified: PASS; with `git apply _seeded/changeN/patch.diff`: FAIL; then revert).

{{PRIOR}}Practical notes: Python is /venv/bin/python (3.12, jax 0.11, numpy 2.x, CPU only). `import fedjax` also imports TensorFlow (slow, ~10 s); set JAX_PLATFORMS=cpu. The machine is heavily shared: run only the test files you need, never the whole suite. There is no network. Keep your final answer short: the two summaries and the paths.""")
prior_txt = ""
if prior:
  prior_txt = ("THIS IS A LATER ROUND. Changes of the following kinds were already produced in earlier rounds; do NOT repeat them or close variants of them, and aim for something subtler -- a change that only shows along a multi-step history, under a fault/crash at a particular point, for an unusual-but-valid corner of the input space (extreme but documented parameter values, empty/degenerate structures, rarely used documented options and calling forms, less used public entry points that the property statement also covers), or through two cooperating sites that each look fine alone. You may touch any file of the library, not only the anchored ones, as long as the property above is what breaks:\n" + "".join(f"  - {p}\n" for p in prior) + "\n")
print(text.replace("{PRIOR}", prior_txt))
