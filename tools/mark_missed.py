#!/usr/bin/env python3
"""Records, in seeded/<ID>/<name>/meta.json, which seeded changes were missed by
the checks as they stood when the change arrived, and the strengthening each
one led to (tools/seeded.py rewrites meta.json on every re-verification, so the
table lives here)."""
import json, os
ROOT = os.path.dirname(os.path.dirname(os.path.abspath(__file__)))
MISSED = {
 'C01/r2-change1': "definition check now compares each client's number of local steps with the documented count (drop_remainder with several epochs)",
 'C02/r2-change1': 'client ids drawn from several kinds (bytes, str, int, tuple, None) instead of bytes only',
 'C03/r2-change1': 'datasets obtained by slicing (steps other than 1, negative steps) are batched too',
 'C03/r2-change2': 'preprocessors that were already called before another function is appended (warm preprocessors)',
 'C04/r2-change1': 'documented hparams + keyword override calling form, overrides explicitly set to None',
 'C07/r2-change2': 'corresponding leaves of different clients may have different dtypes (narrower first)',
 'C08/r2-change1': 'metadata calls and second walks interleaved with an open client_ids()/client_sizes() walk',
 'C08/r2-change2': 'bulk get requests passed as one-shot iterables (generator, iter(list), map)',
 'C13/r2-change1': 'restart of the sampler in a new interpreter process with a different hash seed',
 'C05/r2-change1': 'mock models share their four callables; a third of the model cases use position-only metric names and first evaluate a sibling model with the same names mapped to other metrics of the same statistic shape',
 'C10/r2-change1': 'half of the histories also run rounds on a second algorithm object built with the same hyper-parameters and a different (deterministic) past; the result must be bit-identical',
 'C11/r2-change1': "every client's own quantized vector is recovered with one-hot weights; all (round, client position) pairs must differ pairwise",
 'C12/r2-change1': 'Mime one-step with a loss that uses its key: the result must not depend on the local batch size / shuffling seed',
 'C14/r2-change2': 'ce_wide_range also sends examples with an infinite loss through PerDomainMetric: other domains\' rows must be exactly 0',
 'C15/r2-change1': 'new check shuffled_clients over in-memory / SQLite / subset / sliced datasets with buffers longer than the view (C08 caught the change as it stood)',
 'C17/r2-change1': 'the packaged APFL evaluation entry point is called between rounds on trained and never-trained clients; the server state must be bit-identical afterwards',
 'C17/r2-change2': 'clip bound 0 admitted to the MimeLite domain (after fixing the NaN of tree_clip_by_global_norm on a zero tree with bound 0)',
 'C01/r3-change2': 'new check documented_key_schedule: reference follows the per-step key schedule given in the algorithms tutorial',
 'C02/r3-change1': 'programs may carry an int32 accumulator that the first step turns into float32 (state dtype changes once)',
 'C03/r3-change2': 'two passes over one view alive at the same time (resumed outer pass, lock-step passes)',
 'C05/r3-change1': 'ModelEvaluator is also built under the documented debug for_each_client backend',
 'C05/r3-change2': 'padding rows whose own statistic is not finite (target logit -inf)',
 'C06/r3-change1': 'client datasets may carry a per-example preprocessor that is the identity on real rows and not finite on all-zero rows (C03 caught the change as it stood: padding_not_zero)',
 'C07/r3-change1': 'weights given as writable 0-d numpy arrays',
 'C07/r3-change2': 'complex64 leaves in the clip check (counted as (re, im) pairs)',
 'C08/r3-change2': 'a 2-d feature table in row-major / column-major / transposed-view layout in the example tables',
 'C10/r3-change2': 'new check restart_in_new_process: the last round is re-run from the pickled state in fresh interpreters with other PYTHONHASHSEED values',
 'C12/r3-change2': 'HypCluster(1) and MimeLite relations also with a regularizer (FedAvg on loss + regularizer as counterpart)',
 'C13/r3-change2': 'SubsetFederatedData built from an id list that names ids twice; subset backend also in the two Get checks',
 'C14/r3-change1': 'a quarter of the single-example cases pass writable numpy arrays; inputs must be byte-identical after evaluate_example',
 'C14/r3-change2': 'single-label targets also as uint8 / int8 / int16 with up to 17 classes',
 'C16/r3-change2': 'checkpoint histories contain saves that die half-way through pickling (also re-saves of an existing round); earlier checkpoints must survive',
 'C01/r4-change1': 'client ids rotate among the pool from round to round: an id may come back with another dataset (another size)',
 'C01/r4-change2': 'every round of the relations check is applied a second time to the same server state object (cohort reversed)',
 'C03/r4-change2': 'features in column-major memory layout (np.asfortranarray raw features, a preprocessor that builds a two-column feature with np.stack(...).T)',
 'C04/r4-change2': 'two-step calling forms: an hparams object built first, only some fields overridden by keywords or hparams.replace (num_epochs / num_steps switch between None and a number)',
 'C07/r4-change1': 'infinite clip bound admitted (clips nothing)',
 'C07/r4-change2': 'weights as narrow numpy integer scalars (uint8, int16) whose total does not fit the dtype',
 'C08/r4-change1': 'new check iteration_order_across_processes: every view walked in fresh interpreters with other PYTHONHASHSEED values',
 'C08/r4-change2': 'at the end of a history all parent objects are dropped (gc) and the last view is observed again through every access path',
 'C09/r4-change1': 'real process death at the close of a written file happens before the close (nothing flushed); every checkpoint close is among the hard crash points',
 'C09/r4-change2': 'the interrupted run of the real-process-death check runs under another PYTHONHASHSEED than the completing run',
 'C13/r4-change1': 'two seeded client streams of ONE dataset object advanced in turn (shuffled_restart)',
 'C13/r4-change2': 'the caller trims and reverses the returned cohort list in place after every sample',
 'C05/r4-change1': 'evaluated batches must be byte-identical afterwards (caught as it stood through the debug-backend evaluator cases)',
 'C10/r4-change1': 'the duplicate call of an aggregator passes the same clients as a one-pass generator instead of a list',
 'C10/r4-change2': 'a quarter of the histories leave a backend context by an exception and run another algorithm before repeating a round (C02 caught the change as it stood)',
 'C11/r4-change1': 'on-grid vectors whose normalised positions are exact in float32 must pass through for EVERY key; replay with a key whose uniform draw is exactly 0.0 at a mid-level coordinate',
 'C11/r4-change2': 'new check binary_low_precision_inputs: bfloat16 / float16 vectors, pooled binomial test of the round-up probability',
 'C12/r4-change1': 'FedProx relations also see rounds without any example',
 'C12/r4-change2': 'FedProx(0) and MimeLite relations also with a loss that uses its key',
 'C16/r4-change1': 'after every add_many a reader on its own connection must see the batch while the builder is still open',
 'C17/r4-change1': 'every state of an agnostic history keeps its own window (re-read at the end) and a round applied to an earlier state slides that state\'s window',
 'C17/r4-change2': 'HypCluster histories also with a regularizer that differs between clusters (average loss = mean loss + regularizer decides the assignment)',
 'C19/r4-change1': 'disk-full fault at the raw file level: a short write without an exception, later writes fail with ENOSPC; open() emulated with or without a buffered writer',
 'C18/r4-change2': 'parameter trees may contain empty tuple nodes (and one-element tuple nodes) next to array leaves',
 'C01/r5-change2': 'new check definition_float64: the definition check in a child interpreter with JAX_ENABLE_X64=1 and float64 parameters at 1e-11 * scale',
 'C02/r5-change1': 'the same for_each_client function is called a second time with the SAME shared-input container whose entries were replaced in between',
 'C04/r5-change1': 'num_epochs up to 33 over small datasets (the epoch-derived count for large N * num_epochs / batch_size)',
 'C09/r5-change1': 'the toy experiment state carries a weakly typed device scalar and a float16 array whose product keeps its dtype only while the scalar stays weakly typed (also asserted directly in C16 state_roundtrip)',
 'C10/r5-change1': 'aggregator histories over bfloat16 client trees; the cross-process check first runs an unrelated float32 aggregator round in the original process',
 'C05/r5-change1': 'ModelEvaluator is also built under the pmap backend (3 devices, 2 clients: one padding client) when all batches of the case have one size (C02 caught the change as it stood)',
 'C06/r5-change1': 'new check domain_counts_low_precision_loss: bfloat16 per-example loss, several hundred rows of one domain per padded batch',
 'C06/r5-change2': 'a real example with an infinite loss (infinite target): the average loss is +inf padded or not',
 'C11/r5-change2': 'new check explicit_thresholds: the documented v_min / v_max arguments, narrower or wider than the data',
 'C12/r5-change1': 'a third of the relation histories first try a round from the current state with the cohort reversed and throw it away',
 'C12/r5-change2': 'the MimeLite relation also with a clip bound that no update reaches (C07 caught the change as it stood: zero tree clipped to NaN)',
 'C13/r5-change1': 'the dataset under the Get sampler can fail once in the middle of a bulk read; the retried sample() is still the same round',
 'C15/r5-change1': 'clients list the same feature set in different key orders',
 'C15/r5-change2': 'two seeded shuffled_clients streams of ONE dataset object pulled in turn',
 'C16/r5-change1': 'other reads (get_client, client_size, num_clients, client_ids) inside an open client_sizes() / clients() walk of the same object',
 'C16/r5-change2': 'a database from an earlier build already sits at the output path: the builder refuses it or replaces it, stale clients never survive',
 'C17/r5-change1': 'HypCluster histories also on the pmap backend (clients are yielded in another order than listed)',
 'C18/r5-change1': 'trees that hold the very same array object at two positions (tied weights)',
 'C18/r5-change2': 'integer-typed leaves',
 'C19/r5-change1': 'filesystem model: the cache directory is on another filesystem than everything outside it, shutil.move into it is an interruptible copy',
 'C19/r5-change2': 'a 5xx answer carries an error page with its own content-length instead of the payload',
 'C20/r5-change2': 'train_loss row independence with synthetic predictions scaled / shifted per row',
 'C01/r6-change1': 'the reference re-checks that the batch stream it reads is made of passes over the client\'s examples (it used to re-derive only its length); batch size 8 (C04 caught the change as it stood)',
 'C04/r6-change1': 'the dataset under test may be the head ds[:n] of a longer dataset whose size was asked for and that was batched before (also in C03)',
 'C05/r6-change1': 'ModelEvaluator clients hand their batches over as one-shot iterators / generators',
 'C05/r6-change2': 'pmap evaluator over what ClientDataset.batch() produces (full batches, no mask key) next to a client with twice as many batches in the same block',
 'C06/r6-change2': 'the caller peeks at the first batch of a padded_batch view before the pass that is evaluated; C03 starts a quarter of its views with an abandoned pass',
 'C07/r6-change2': 'new check mean_from_pieces: the weighted mean assembled from tree_zeros_like / tree_weight / tree_add / tree_inverse_weight, every tree handed to a piece stays usable',
 'C08/r6-change2': 'SQLite views (plain and under SubsetFederatedData) over a database in a caller-defined blob encoding opened with parse_examples',
 'C10/r6-change1': 'a matrix-shaped weight, initial parameters given as host NumPy arrays (column-major in a third of those cases), round trip through msgpack of the state leaves next to save_state/load_state (C16 caught the change as it stood)',
 'C10/r6-change2': 'AgnosticFedAvg continued from a state whose domain window is shorter than the algorithm\'s window size',
 'C12/r6-change2': 'cohorts sampled with replacement: the same client (id and dataset) twice in one round',
 'C13/r6-change1': 'populations of 65-130 clients under the samplers (bulk reads beyond one query batch)',
 'C17/r6-change1': 'MimeLite clients with finite targets around 2^68..2^100: the squared norm of the update overflows float32; the divergence guard moved behind the bound check (C07 caught the change as it stood)',
 'C17/r6-change2': 'ignore_grads_haiku over base optimizers with weight decay (adamw, sgd with decay): a zero gradient does not mean an unchanged parameter',
 'C18/r6-change2': 'new check rotation_roundtrip_legacy_rng: the rotation clauses in a child interpreter with JAX_THREEFRY_PARTITIONABLE=0',
 'C02/r7-change1': 'a run of the same for_each_client function that was abandoned after its first results precedes the run under test',
 'C03/r7-change1': 'the preprocessor chain is handed to the BatchPreprocessor constructor as a generator or as a list the caller empties afterwards',
 'C04/r7-change1': 'datasets of 257-1000 (rarely 66000) examples: beyond what an 8-/16-bit example index addresses',
 'C04/r7-change2': 'the hparams dataclasses are also built positionally, in the documented field order (also in C03)',
 'C05/r7-change1': 'mock models whose prediction is a mapping read through pred_key (2 or 3 entries)',
 'C05/r7-change2': 'new check infinite_loss_example: a real example whose target has probability 0; the mean is +inf on every evaluation path',
 'C06/r7-change1': 'HypCluster cluster losses with the evaluator built on the pmap / debug backend (clients come back ordered by batch count)',
 'C06/r7-change2': 'a client listed twice in the cohort of the packaged Mime / MimeLite algorithms',
 'C07/r7-change1': 'mean aggregator rounds in which client ids repeat',
 'C07/r7-change2': 'trees holding the very same array at two positions (tied weights) for some or all clients',
 'C10/r7-change1': 'new system fed_avg_frozen: FedAvg over haiku-style params given as a plain nested dict, server optimizer wrapped in ignore_grads_haiku',
 'C10/r7-change2': 'aggregator weights handed over as 0-d NumPy arrays (C07 caught the change as it stood)',
 'C11/r7-change1': 'new check aggregator_rounds_legacy_rng: rotated / DRIVE aggregator histories in a child interpreter with JAX_THREEFRY_PARTITIONABLE=0',
 'C11/r7-change2': 'binary quantizer on float32 vectors whose spread is a few ulps of a large offset',
 'C13/r7-change2': 'the seeded stream of a dataset object whose clients were all fetched by id (in another order) before',
 'C15/r7-change2': 'byte-string features whose fixed width differs from client to client',
 'C16/r7-change2': 'one reader object follows a build: num_clients / client_ids / client_sizes asked again after every add_many',
 'C17/r7-change1': 'frozen entries of ignore_grads_haiku as host NumPy arrays in float64 / int64 / float16',
 'C17/r7-change2': 'AgnosticFedAvg continued from a state whose window has another length (shorter or longer) than the algorithm\'s window size',
 'C18/r7-change2': 'new check rotation_pytree_across_processes: rotated values and recorded shapes compared bit for bit with a fresh interpreter under another PYTHONHASHSEED',
 'C20/r7-change2': 'LM predictions shifted so that every logit is negative (C14 caught the change as it stood)',
 'C18/r3-change1': 'the 7- and 8-factor (length, block) pairs, left out on compile cost, are executed op by op under jax.disable_jit()',
}
# Filed changes that the checks do not detect ON PURPOSE: the input they need lies
# outside the documented domain of the property, so a check that flagged them
# would also flag code in which the property holds.
NOT_CLAIMED = {
 'C02/r5-change2': 'needs clients whose batch shapes are uniform inside every pmap block but differ between blocks; which clients share a block is decided by the backend (sorted by batch count), so the only domain a caller controls -- and the one the checks generate -- is one batch shape for all clients of a call',
 'C10/r5-change2': 'needs the clients of a round handed to FederatedAlgorithm.apply as a fedjax.RepeatableIterator that is then passed again; apply() documents its clients as a Sequence (the samplers return lists), and every algorithm iterates them several times',
 'C06/r4-change2': 'needs a per-example loss of shape [n, 1]; fedjax.grad documents the per-example loss as "a vector of loss values for each example in the batch", and a masked sum that broadcasts instead of flattening is correct for every vector-shaped loss',
}
for k, why in NOT_CLAIMED.items():
  p = os.path.join(ROOT, 'seeded', k, 'meta.json')
  if os.path.exists(p):
    d = json.load(open(p))
    d['not_claimed'] = why
    json.dump(d, open(p, 'w'), indent=1)
for k, why in MISSED.items():
  p = os.path.join(ROOT, 'seeded', k, 'meta.json')
  if not os.path.exists(p):
    print('missing', k)
    continue
  d = json.load(open(p))
  d['initially_missed'] = True
  d['strengthening'] = why
  json.dump(d, open(p, 'w'), indent=1)
