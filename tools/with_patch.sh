#!/bin/bash
# usage: tools/with_patch.sh <patch-file> <command...>
# Runs <command> with VERIF_REPO pointing at a scratch copy of /repo (HEAD +
# uncommitted changes) with <patch-file> applied.  The copy lives outside /repo
# and /verif and is removed afterwards.
set -u
patch=$(readlink -f "$1"); shift
dir=$(mktemp -d /var/tmp/fedjax-mut-XXXXXX)
trap 'rm -rf "$dir"' EXIT
rsync -a --exclude .git --exclude '__pycache__' --exclude '*.egg-info' /repo/ "$dir/"
if ! (cd "$dir" && patch -p1 --no-backup-if-mismatch -s < "$patch"); then
  echo "PATCH-FAILED $patch" >&2; exit 3
fi
VERIF_REPO="$dir" "$@"
rc=$?
exit $rc
