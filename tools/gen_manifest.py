#!/usr/bin/env python3
"""Regenerates /verif/MANIFEST.json from the table below and the modules present."""
import json
import os

ROOT = os.path.dirname(os.path.dirname(os.path.abspath(__file__)))

# id -> (level, technique, level text, level note)
TABLE = {
    'C01': ('exploration',
            'Hypothesis-generated rounds vs float64/numpy closed-form and op-by-op optax reference; permutation/backend/decomposition metamorphic relations',
            'No counterexample among generated (population, optimizer, batching hparams, backend, rounds) cases against an independent reference implementation of the mathematical definition. Exploration is the right level: the claim is numerical agreement over an unbounded configuration space.',
            'Trusts numpy float64 arithmetic, raw optax transformations, jax.grad; the batch stream itself is decided by C04. The key-dependent-loss clause follows the per-step key schedule of the documented FedAvg client loop (algorithms tutorial).'),
    'C02': ('exploration',
            'Hypothesis-generated client programs and populations vs the eager sequential fold; buffer-liveness oracle; generated thread interleavings vs per-thread stack model',
            'No counterexample among generated programs x client collections x backends (jit, debug, pmap over 1..8 virtual CPU devices) against the definition executed eagerly, plus harness-owned interleavings of backend selection.',
            'Interleavings explored at the granularity of backend-selection operations; 8 virtual CPU devices via XLA_FLAGS.'),
    'C03': ('exploration',
            'Hypothesis-generated datasets/hparams vs numpy partition model (both directions) + exhaustive enumeration of the final-bucket rule',
            'No counterexample among tens of thousands of generated (N, B, buckets, dtypes, preprocessors) cases; the bucket-size rule is enumerated exhaustively for B<=32 (quick) / 64 (thorough), K<=8.',
            'Preprocessors are per-example and deterministic (documented requirement).'),
    'C04': ('exploration',
            'Hypothesis-generated (N,B,epochs,steps,drop,skip,seed) vs count formula, window-permutation invariant and replay equality',
            'No counterexample among generated hyper-parameter combinations; windows-of-N are permutations, counts match the documented function, fixed seeds replay.',
            'Re-shuffle clause has a stated false-alarm probability <= 1/12! per eligible case.'),
    'C05': ('exploration',
            'Hypothesis-generated metric x example set x partition x padding content vs one-by-one merge (homomorphism) and monoid laws',
            'No counterexample among generated partitions/paddings for every built-in metric class, through evaluate_batch, evaluate_model and ModelEvaluator.',
            'Tolerance 1e-6 relative on float statistics; integer statistics exact.'),
    'C06': ('exploration',
            'Hypothesis-generated losses/regularizers/mask patterns/geometries vs unpadded twin, independent jax.grad and float64 reference',
            'No counterexample among generated padded batches and batch geometries for grad, average loss, Mime gradient pass, agnostic domain metrics and HypCluster losses.',
            'Losses are rng-independent and finite on zero rows (stated domain).'),
    'C07': ('exploration',
            'Hypothesis-generated trees/weights/orders vs float64 weighted mean, hull, permutation and buffer liveness/aliasing oracles',
            'No counterexample among generated trees, weights, orders and iterator kinds for tree_sum/tree_mean/mean_aggregator/clip.',
            'Subnormals excluded (XLA:CPU flushes them).'),
    'C08': ('exploration',
            'Model-based generated histories of view operations run in lock-step over 4 implementations and a pure-Python model; exhaustive slice-range sub-grid; child interpreters with other PYTHONHASHSEED values for the iteration-order clause',
            'No divergence between in-memory, SQLite, subset-wrapped datasets and a dict model along generated histories of slice/subset/preprocess operations, observed through every access path.',
            'Client preprocessors are row-preserving (documented per-example contract).'),
    'C09': ('fault_enumeration',
            'Exhaustive single-crash enumeration over the file-system/round effect stream + Hypothesis multi-crash schedules; differential oracle vs uninterrupted run',
            'For each generated configuration every single crash point (x partial-write prefixes) is enumerated and the resumed run compared bit-exactly with an uninterrupted run; multi-crash schedules are sampled.',
            'Crash = exception at the effect + arbitrary prefix on disk, plus real os._exit deaths in child processes (no flush, other hash seed); tf.summary stubbed (TensorBoard not installed).'),
    'C10': ('exploration',
            'Model-based generated multi-round histories with branch/pickle round trips; duplicate-call bit-equality, argument-snapshot, second-instance and restart-in-a-new-process oracles',
            'No counterexample along generated histories for the 7 algorithms and the compression aggregators.',
            'Batching seeds fixed (seed=None draws OS entropy by design).'),
    'C11': ('exploration',
            'Hypothesis-generated vectors/levels/keys vs float64 grid membership, identity classes, statistical unbiasedness test with stated error rate, bit formula',
            'No counterexample among generated vectors and aggregator histories; unbiasedness decided by a z-test over thousands of keys with false-alarm probability < 1e-9 per run.',
            'Values up to 2^125 (max-min <= 2^126); beyond that two open findings of the uniform quantizer, excluded by construction and re-confirmed through witness replays.'),
    'C12': ('exploration',
            'Hypothesis-generated populations/hparams; differential between two fedjax algorithms and a float64 full-batch reference',
            'No counterexample for the six degenerate-hyper-parameter relations along multi-round histories.',
            'Key-ignoring loss for the HypCluster(1) and APFL relations, also a key-dependent loss for FedProx(0), MimeLite and the Mime one-step clause; fixed batching seed.'),
    'C13': ('exploration',
            'Model-based generated histories of sample()/set_round_num() vs fresh-sampler memo table; streaming restart twin',
            'No counterexample along generated round-request orders for both samplers over in-memory, SQLite and subset-wrapped datasets, including restarts in new interpreter processes.',
            'Key distinctness judged on raw key data.'),
    'C14': ('exploration',
            'Hypothesis-generated constructor args and examples (ties, masks, extremes) vs independent numpy definitions and documented identities',
            'No counterexample for any built-in metric class against an independently written numpy/float64 definition.',
            'Tolerance 1e-5 on cross entropy, counts exact; rows with -inf logits / spreads beyond the float32 range have a check of their own.'),
    'C15': ('exploration',
            'Hypothesis-generated client-size sequences/buffers/seeds vs concatenation model, multiset equality and replay equality',
            'No counterexample among generated client-size sequences, buffer sizes, seeds and iterable kinds, including shuffled_clients of every FederatedData implementation.',
            'A trailing all-padding batch after empty clients is accepted (nothing lost or duplicated).'),
    'C16': ('exploration',
            'Hypothesis recursive generation of nested values x dtype x layout x byte order; round-trip equality; raises-or-equal on unsupported leaves',
            'No counterexample among generated nested structures through msgpack, SQLite builder/reader and save_state/load_state.',
            'Equal dtype judged up to byte order (wire format carries dtype name only).'),
    'C17': ('exploration',
            'Model-based generated multi-round histories with starved domains/clusters, clipping, returning clients; invariants after every round',
            'No invariant violation along generated histories for agnostic FedAvg, APFL, HypCluster, MimeLite and ignore_grads_haiku.',
            'EG exponent bounded by construction; float32 slack stated per clause.'),
    'C18': ('exploration',
            'Hypothesis-generated (length, block) x vectors vs dense Sylvester matrix, involution, linearity; rotation norm/inverse/key oracles',
            'No counterexample over the reachable (length, block-size) grid and generated shapes/keys/trees.',
            'Pairs needing 7-8 Kronecker factors are executed op by op under jax.disable_jit() in the quick tier (XLA compile cost).'),
    'C19': ('fault_enumeration',
            'Exhaustive single-interruption enumeration per payload + Hypothesis multi-fault schedules; final-path absent-or-complete invariant',
            'Every single interruption point of download and decompression is enumerated per generated payload; multi-fault schedules sampled.',
            'Faults injected underneath downloads.py (requests.get / open / lzma.open / os.rename wrappers), including OS-level short writes on a full disk and os._exit deaths in a forked child.'),
    'C20': ('exploration',
            'Hypothesis-generated snippets/images/ids/batches vs inverse tokenisation, TensorFlow twin, closed-form rule and C14 references with the dataset constants',
            'No counterexample for the packaged preprocessors and the dataset<->model agreement of label ids and vocabulary sizes.',
            'TensorFlow per_image_standardization is the reference for CIFAR.'),
}

DESIGN_REF = {k: f'DESIGN.md §3 {k}' for k in TABLE}

# Modules that have been reviewed, run quiet at several seeds and mutation-tested.
READY = ['C%02d' % i for i in range(1, 21)]


def main():
  checks = []
  na = []
  for pid in sorted(TABLE):
    level, technique, text, note = TABLE[pid]
    if pid in READY and os.path.exists(os.path.join(ROOT, 'vf', 'props', pid.lower() + '.py')):
      checks.append({
          'property_id': pid,
          'quick_cmd': f'python3 check.py {pid} --tier quick',
          'thorough_cmd': f'python3 check.py {pid} --tier thorough',
          'evidence_file': f'/verif/evidence/{pid}.json',
          'replay_cmd_template': f'python3 check.py {pid} --replay {{path}}',
          'engine': 'vf',
          'level_claimed': {'category': level, 'text': text,
                            'design_ref': DESIGN_REF[pid]},
          'level_note': note,
          'technique': technique,
      })
    else:
      na.append({'property_id': pid,
                 'reason': 'check not built yet in this revision; property-based '
                           'testing applies (plan in DESIGN.md §3 ' + pid + ')'})
  fixes = []
  kf = os.path.join(ROOT, 'known_findings.json')
  manifest = {
      'version': 1,
      'setup_cmd': ('(/venv/bin/python -c "import hypothesis" 2>/dev/null || '
                    '/venv/bin/pip install --no-index --find-links '
                    '/opt/veriftools/wheels hypothesis) && '
                    '(/venv/bin/pip install -q --no-index --find-links /opt/veriftools/wheels '
                    '--target /verif/.deps atheris || echo "atheris not installed: '
                    'the optional second engine is skipped")'),
      'hooks': {
          'guard': 'GOOGLE_FEDJAX_VERIF',
          'enable': 'no source hooks: checks import /repo (or $VERIF_REPO) as is; '
                    'workers export GOOGLE_FEDJAX_VERIF=1 for uniformity',
          'baseline_off_cmd': ('cd /repo && env -u GOOGLE_FEDJAX_VERIF /venv/bin/python -m pytest '
                               '-ra -q -p no:cacheprovider --timeout=900 '
                               '--continue-on-collection-errors'),
          'source_commits': [],
          'add_only': True,
      },
      'engines': [{
          'name': 'vf',
          'path': '/verif/vf',
          'serves_properties': [c['property_id'] for c in checks],
          'kind_free_text': 'Hypothesis 6.168 generated-input search (cases are JSON data; '
                            'collect-then-shrink; 16 sharded worker processes; '
                            'replay tier of committed cases) with explicit oracles per property',
      }, {
          'name': 'vf.fuzz',
          'path': '/verif/vf/fuzz.py',
          'serves_properties': [p for p in ('C03', 'C04', 'C15', 'C16') if p in READY],
          'kind_free_text': 'Atheris 3.1 (libFuzzer) coverage-guided byte mutation decoded by the '
                            "same Hypothesis strategies (fuzz_one_input) into the same JSON cases and "
                            'judged by the same oracles; extra processes beside the Hypothesis shards; '
                            'optional (skipped with a note if Atheris is not installed)',
      }],
      'checks': checks,
      'not_applicable': na,
      'notes': 'Single technique family: property-based testing / fuzzing. '
               'check.py exits 0/1/2 (2 = harness error or inconclusive). '
               'known_findings.json lists open findings and fixed: entries.',
  }
  with open(os.path.join(ROOT, 'MANIFEST.json'), 'w') as f:
    json.dump(manifest, f, indent=1)
    f.write('\n')
  print(f'{len(checks)} checks, {len(na)} not yet built')


if __name__ == '__main__':
  main()
